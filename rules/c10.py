"""C10 — request/response pairs are atomic under concurrency (lock discipline)."""
from vlint.cfg import CFG
from vlint.facts import callee_of, resolved, AnchorMissing
from vlint.gates import root_of
from vlint.terms import show, subterms
from vlint.util import must_of, sites
from . import common

EXPLANATION = (
    "Decides the lock discipline any schedule-independent argument needs: every public method of the "
    "cloneable endpoints (Frontend, Backend proxy, GpuBackend) that performs socket I/O acquires the "
    "endpoint mutex exactly once (not in a loop), every I/O call on the guarded state takes its receiver "
    "from that guard, no path drops the guard before the last send/receive, and the guarded socket is "
    "reachable for I/O only through the mutex. Together: request and reply of one call form one "
    "critical section, a second acquisition (self-deadlock) is impossible."
    ' Also: (L5) no function that (transitively) locks the endpoint mutex is called while its guard is live; (L6) size pre-checks on the reply path agree with those made before the request was written (C08/S9); (L7-L9) C08/S3, C18/B1, C04/P4.'
    ' Round 5: (L1) every endpoint mutex is taken with the blocking lock(); (L13-L17) cross-listed C18/B3, C03/R4, C14/Q4, C03/R1, C07/G1.')
NOT_DECIDED = "Fairness/liveness of std::sync::Mutex, the peer's behaviour, actual interleavings."

RAW_IO = {"send_with_fds", "recv_with_fds"}


def guarded_types(fb):
    """{outer adt path: guarded adt path} where outer has a field Arc<Mutex<T>> and T owns an Endpoint."""
    out = {}
    for ty, r in fb.adts.items():
        if r["crate"] != "vhost" or r["kind"] != "struct" or not r["variants"]:
            continue
        for f in r["variants"][0]["fields"]:
            fty = f["ty"]
            if "sync::Mutex<" in fty or "sync::poison::mutex::Mutex<" in fty:
                inner = fty.split("Mutex<", 1)[1].rstrip(">")
                if _owns_endpoint(fb, inner):
                    out[r["path"]] = inner
    return out


def _owns_endpoint(fb, ty, depth=0):
    """The struct `ty` has an Endpoint among its fields, directly or inside a struct-typed field of the workspace (the socket
    and its bookkeeping may be grouped in an inner struct)."""
    ir = fb.adts.get(ty)
    if not ir or ir.get("kind") != "struct" or not ir.get("variants") or depth > 3:
        return False
    for x in ir["variants"][0]["fields"]:
        if "connection::Endpoint<" in x["ty"]:
            return True
        inner = x["ty"].split("<", 1)[0]
        if inner in fb.adts and fb.adts[inner].get("crate") in ("vhost", "vhost_user_backend") and _owns_endpoint(fb, inner, depth + 1):
            return True
    return False


def io_reaching(fb):
    """Keys of workspace functions from which a raw socket send/receive is reachable."""
    direct = set()
    for f in fb.fns.values():
        for bb, t in f.calls():
            c = callee_of(t)
            if c and c.get("name") in RAW_IO:
                direct.add(f.key)
    # reverse closure
    callers = {}
    for f in fb.fns.values():
        for k in fb.callees(f):
            callers.setdefault(k, set()).add(f.key)
    seen = set(direct)
    work = list(direct)
    while work:
        k = work.pop()
        for c in callers.get(k, ()):
            if c not in seen:
                seen.add(c)
                work.append(c)
    return seen


def run(ctx, chk):
    fb = ctx.fb("full")
    chk.explanation = EXPLANATION
    chk.not_decided = NOT_DECIDED
    chk.cfgs["full"] = fb.hashes
    chk.rule("L1", "each I/O-performing public method acquires the endpoint mutex exactly once, outside any loop")
    chk.rule("L2", "every I/O call on the guarded state takes its receiver from that one guard")
    chk.rule("L3", "the guard is not dropped (scope end, mem::drop or move) on any path that still reaches an I/O call")
    chk.rule("L5", "no function that locks the endpoint mutex is called while its guard is live (no self-deadlock)")
    chk.rule("L4", "no bypass: I/O methods of the guarded state are called only with a guard-derived receiver or from the guarded type itself; the socket is cloned only for the shutdown handle")
    run_on(fb, chk)
    _siblings(fb, chk)
    from . import xlist
    xlist.apply("C10", fb, chk)
    n = lambda r: len([i for i in chk.instances if i[0] == r])
    chk.floor("L1", n("L1"), 50)
    chk.floor("L2", n("L2"), 80)
    chk.floor("L20", n("L20"), 5)


def _siblings(fb, chk):
    # a transaction is completed once started: the checks made after the request was written never refuse what the
    # checks before the write accepted (size-bound agreement, C08/S9)
    from vlint.report import Renamed
    from . import c08
    chk.rule("L6", "pre-checks on the reply path agree with the checks made before the request was written (C08/S9)")
    c08.s9(fb, Renamed(chk, {"S9": ("L6", lambda k: "Frontend" in k or "Backend::" in k or "GpuBackend" in k)}))


def thorough(ctx, chk):
    fb = ctx.fb("base")
    chk.cfgs["base"] = fb.hashes
    run_on(fb, chk, tag="base/")


def blocking_locks(fb, chk, tag=""):
    """Every acquisition of an endpoint mutex waits: a `try_lock` gives up (or panics on `unwrap`) when another caller holds
    the lock between its request and its reply, so that call never completes."""
    n = 0
    for f in fb.fns.values():
        if f.crate != "vhost" or "vhost_user" not in (f.file or ""):
            continue
        for bb, t in f.calls():
            c = callee_of(t)
            if c is None or c.get("name") not in ("lock", "try_lock"):
                continue
            rty = ((t.get("atys") or [""])[0]) + " " + (c.get("self_ty") or "")
            if "Mutex<" not in rty:
                continue
            n += 1
            chk.check(c["name"] == "lock", "L1", "%sblocking:%s" % (tag, f.short), "mutex taken with lock()",
                      "%s takes the endpoint mutex with try_lock(): a caller that arrives while another transaction is in flight "
                      "fails or panics instead of waiting" % f.short, f.loc(t["line"]))
    if n == 0:
        chk.bad("L1", tag + "blocking:sites", "no mutex acquisition found in the vhost-user modules")


def run_on(fb, chk, tag=""):
    blocking_locks(fb, chk, tag)
    gt = guarded_types(fb)
    if len(gt) < 3:
        chk.anchor_missing("L1", tag + "guarded endpoint types", "found %s" % sorted(gt))
    io = io_reaching(fb)
    guarded = set(gt.values())
    io_methods = {}   # guarded type -> {key}
    for f in fb.fns.values():
        if f.self_ty in guarded and f.key in io and f.rec.get("dk") == "AssocFn":
            io_methods.setdefault(f.self_ty, set()).add(f.key)
    all_io_method_keys = set().union(*io_methods.values()) if io_methods else set()
    for outer, inner in sorted(gt.items()):
        oshort = outer.split("::")[-1]
        methods = [f for f in fb.fns.values() if f.self_adt == outer and f.rec.get("dk") == "AssocFn"]
        for f in methods:
            cfg = CFG(f)
            m = must_of(fb, f)
            io_sites = []
            for bb, t in f.calls():
                c = callee_of(t)
                if c is None:
                    continue
                if resolved(c)["key"] in all_io_method_keys:
                    io_sites.append((bb, t, c))
            if not io_sites:
                continue
            chk.fn_seen(f)
            key = "%s%s" % (tag, f.short)
            # guard acquisitions
            acq = [(bb, t) for bb, t in f.calls() if _is_guard_ty(t.get("dty", ""), inner)]
            in_loop = [bb for bb, _t in acq if cfg.in_loop(bb)]
            chk.check(len(acq) == 1 and not in_loop, "L1", key,
                      "one acquisition at %s" % f.loc(acq[0][1]["line"]) if acq else "",
                      "%s performs socket I/O with %d mutex acquisitions%s (exactly one, outside loops, is required: "
                      "a second acquisition while the first guard is live self-deadlocks; re-acquiring between request "
                      "and reply breaks atomicity)" % (f.short, len(acq), " inside a loop" if in_loop else ""), f.loc())
            if len(acq) != 1:
                continue
            gbb = acq[0][0]
            gterm = m.sym.call_at(gbb)
            # L2 receivers
            for bb, t, c in io_sites:
                args = m.sym.arg_terms(bb)
                r = root_of(args[0]) if args else None
                ok = r == gterm
                chk.check(ok, "L2", "%s:%s@%s" % (key, c.get("name"), _nth(io_sites, bb)),
                          "receiver derives from the guard",
                          "I/O call %s in %s takes its receiver from %s, not from the method's guard"
                          % (c.get("name"), f.short, show(args[0])[:80] if args else None), f.loc(t["line"]))
            # L3 guard drops
            io_blocks = {bb for bb, _t, _c in io_sites}
            glocal = acq[0][1]["dest"]["l"]
            guard_locals = {glocal}
            # locals that receive the guard by move
            for l, ds in m.sym.defs.items():
                for d in ds:
                    if d[0] == "assign" and d[3]["k"] == "use" and d[3]["op"]["k"] == "move" \
                            and d[3]["op"]["pl"]["l"] in guard_locals and not d[3]["op"]["pl"]["p"]:
                        guard_locals.add(l)
            bad = []
            for bi, b in enumerate(f.blocks):
                if b["cleanup"]:
                    continue
                t = b["term"]
                dropped = False
                if t["k"] == "drop" and t["pl"]["l"] in guard_locals and not t["pl"]["p"]:
                    dropped = True
                if t["k"] == "call":
                    c = callee_of(t)
                    if c and c.get("name") in ("drop", "forget") and any(
                            a["k"] == "move" and a["pl"]["l"] in guard_locals and not a["pl"]["p"] for a in t["args"]):
                        dropped = True
                if dropped and t.get("t") is not None:
                    after = cfg.reach(t["t"])
                    hit = after & io_blocks
                    if hit:
                        bad.append((bi, sorted(hit)))
            chk.check(not bad, "L3", key, "guard dropped only after the last I/O call on every path",
                      "the guard of %s is released at block(s) %s while an I/O call is still reachable (line %s): "
                      "another thread's request can be written between this call's request and its reply"
                      % (f.short, [b for b, _ in bad], [f.blocks[h[0]]["term"]["line"] for _b, h in bad]), f.loc())
    # L5: no call that acquires the same mutex again while the guard is live (std Mutex is not re-entrant)
    lockers = {}   # inner type -> {fn key} that acquire the mutex of that type and do not hand the guard out
    for inner in guarded:
        ks = set()
        for g in fb.fns.values():
            if any(_is_guard_ty(t.get("dty", ""), inner) for _b, t in g.calls()) and not _is_guard_ty(g.rec.get("sig_out") or "", inner):
                ks.add(g.key)
        # transitive callers inside the workspace
        changed = True
        while changed:
            changed = False
            for g in fb.fns.values():
                if g.key in ks or _is_guard_ty(g.rec.get("sig_out") or "", inner):
                    continue
                if any(k in ks for k in fb.callees(g)):
                    ks.add(g.key)
                    changed = True
        lockers[inner] = ks
    n5 = 0
    for f in fb.fns.values():
        for inner in guarded:
            acq = [(bb, t) for bb, t in f.calls() if _is_guard_ty(t.get("dty", ""), inner)]
            if not acq:
                continue
            cfg = CFG(f)
            dom = cfg.dominators()
            m = must_of(fb, f)
            for gbb, gt_ in acq:
                n5 += 1
                glocals = {gt_["dest"]["l"]}
                for l, ds in m.sym.defs.items():
                    for d in ds:
                        if d[0] == "assign" and d[3]["k"] == "use" and d[3]["op"]["k"] == "move" \
                                and d[3]["op"]["pl"]["l"] in glocals and not d[3]["op"]["pl"]["p"]:
                            glocals.add(l)
                        if d[0] == "call" and d[3] is not None and (callee_of(d[3]) or {}).get("name") in ("unwrap", "expect") and any(
                                a["k"] == "move" and a["pl"]["l"] in glocals for a in d[3]["args"]):
                            glocals.add(l)
                drops = [bi for bi, b in enumerate(f.blocks) if not b["cleanup"] and b["term"]["k"] == "drop"
                         and b["term"]["pl"]["l"] in glocals and not b["term"]["pl"]["p"]]
                bad = []
                for bb, t in f.calls():
                    if bb == gbb or gbb not in dom.get(bb, ()):
                        continue
                    if any(d in dom.get(bb, ()) for d in drops):
                        continue
                    c = callee_of(t)
                    if c is None:
                        continue
                    rk = resolved(c)["key"]
                    if rk in lockers[inner]:
                        bad.append((fb.fns[rk].short if rk in fb.fns else rk, t.get("line")))
                chk.check(not bad, "L5", "%s%s@%d" % (tag, f.short, len([1 for b2, _ in acq if b2 <= gbb])),
                          "no re-acquisition while the guard is live",
                          "%s calls %s while it still holds the guard of the endpoint mutex: the callee locks the same "
                          "(non re-entrant) mutex again, so the call never returns and every later call on any clone blocks"
                          % (f.short, ", ".join("%s (line %s)" % b for b in bad)), f.loc(gt_["line"]))
    chk.floor("L5", n5, 20)
    # L4: all call sites of I/O methods of guarded types
    for f in fb.fns.values():
        for bb, t in f.calls():
            c = callee_of(t)
            if c is None:
                continue
            rk = resolved(c)["key"]
            if rk not in all_io_method_keys:
                continue
            owner = fb.fns[rk].self_ty
            if f.self_ty == owner:
                continue   # the guarded type's own methods (&mut self already exclusive)
            outer_ok = [o for o, i in gt.items() if i == owner and f.self_adt == o]
            key = "%s%s->%s" % (tag, f.short, fb.fns[rk].short)
            chk.check(bool(outer_ok), "L4", key, "called from the owning endpoint type",
                      "I/O method %s of the mutex-guarded state is called from %s, outside the endpoint that owns the mutex"
                      % (fb.fns[rk].short, f.short), f.loc(t["line"]))
    # socket clones
    clones = []
    for f in fb.fns.values():
        for bb, t in f.calls():
            c = callee_of(t)
            if c and c.get("name") == "try_clone" and "UnixStream" in (c.get("self_ty") or resolved(c).get("self_ty") or ""):
                clones.append((f, t))
    for f, t in clones:
        ok = f.self_adt and f.self_adt.endswith("::Endpoint")
        chk.check(ok, "L4", tag + "clone:" + f.short, "socket cloned only inside the endpoint's clone accessor",
                  "UnixStream::try_clone called in %s" % f.short, f.loc(t["line"]))
        if ok:
            users = []
            for g in fb.fns.values():
                if f.key in fb.callees(g):
                    users.append(g)
            for g in users:
                good = (g.self_adt or "").endswith("::BackendReqHandler")
                chk.check(good, "L4", tag + "clone-user:" + g.short,
                          "clone accessor used by the backend server's shutdown handle only",
                          "the endpoint socket is cloned by %s (a second handle on a mutex-guarded socket bypasses the lock)" % g.short,
                          g.loc())


def _is_guard_ty(dty, inner):
    return dty.startswith("std::sync::MutexGuard<") and inner in dty


def _nth(io_sites, bb):
    for i, (b, _t, _c) in enumerate(io_sites):
        if b == bb:
            return i
    return -1
