"""C12 — no lost or post-stop kick dispatch under any thread interleaving (partial)."""
from vlint.cfg import CFG
from vlint.facts import callee_of, resolved, AnchorMissing
from vlint.gates import field_of, root_of
from vlint.paths import Summariser, ret_okness
from vlint.terms import show, subterms
from vlint.util import must_of, sites
from . import daemon, common

EXPLANATION = (
    "Decides the lock/order discipline a schedule-independent argument needs: (K1) every VringT::read_kick evaluates the "
    "gate and consumes the eventfd inside one critical section of the ring lock; (K2) in every disabling/stopping control "
    "handler the state change precedes the epoll update, which precedes the return (and the server replies after the "
    "handler returns: C04); (K3) in the worker, every path on which the eventfd was consumed (gate true) reaches the "
    "backend's handle_event — no wake-up is consumed without being processed — and a false gate consumes nothing "
    "(C11/T4); (K4) the gate evaluation and the dispatch are covered by one critical section of a lock the control "
    "path's state change also takes."
    " Also (K5-K9): the sequential half through C11/T1, T2, T4 and T3's who-may-register rule, and C17/E3 for the event id.")
NOT_DECIDED = "The interleavings themselves; eventual delivery; epoll/eventfd kernel semantics."


def run(ctx, chk):
    fb = ctx.fb("full")
    chk.explanation = EXPLANATION
    chk.not_decided = NOT_DECIDED
    chk.cfgs["full"] = fb.hashes
    chk.rule("K1", "read_kick: gate evaluation and eventfd consumption under one guard of the ring lock")
    chk.rule("K2", "control handlers: state change, then epoll update, then return")
    chk.rule("K3", "worker: eventfd consumed (gate true) => backend.handle_event is called on that path")
    chk.rule("K4", "gate check and dispatch are inside one critical section shared with the control path")
    run_on(fb, chk)
    # the sequential half of the property: a stop/disable transition leaves the ring unregistered and the gate false,
    # and a wake-up is consumed only when it is going to be dispatched (rules T1, T2, T4 of C11)
    from vlint.report import Renamed
    from . import c11
    chk.rule("K5", "stop/disable handlers perform the prescribed state change for every ring concerned (C11/T1)")
    chk.rule("K6", "every stop/disable is followed by the epoll update; a kick descriptor is unregistered before it is dropped (C11/T2)")
    chk.rule("K7", "the kick eventfd is consumed only on paths where the gate is true (C11/T4)")
    chk.rule("K8", "the worker's epoll set is changed by the control path's registration update only, which adds a ring exactly when it is started and enabled and removes it otherwise (C11/T3)")
    c11.run_on(fb, Renamed(chk, {"T1": "K5", "T2": "K6", "T4": ("K7", lambda k: "consume-only-when-active" in k),
                                 "T3": "K8"}))
    k18(fb, chk)
    from . import xlist
    xlist.apply("C12", fb, chk)
    n = lambda r: len([i for i in chk.instances if i[0] == r])
    chk.floor("K1", n("K1"), 2)
    chk.floor("K2", n("K2"), 4)


def thorough(ctx, chk):
    fb = ctx.fb("base")
    chk.cfgs["base"] = fb.hashes
    run_on(fb, chk, tag="base/")


def guard_acquisitions(f):
    out = []
    for bb, t in f.calls():
        d = t.get("dty", "")
        if d.startswith(("std::sync::MutexGuard<", "std::sync::RwLockReadGuard<", "std::sync::RwLockWriteGuard<")):
            out.append((bb, t))
    return out


def run_on(fb, chk, tag=""):
    # ------------------------------------------------------------------ K1
    impls = [f for f in fb.find(name="read_kick") if (f.trait or "").endswith("::VringT")]
    for f in impls:
        chk.fn_seen(f)
        m = must_of(fb, f)
        who = (f.self_adt or "").split("::")[-1]
        # one lock acquisition (directly or through the type's own lock helper); the inner call's receiver derives from it
        acq = guard_acquisitions(f)
        inner = [(bb, t, c) for bb, t, c in sites(f, name="read_kick")]
        ok = len(acq) == 1 and len(inner) == 1
        if ok:
            g = m.sym.call_at(acq[0][0])
            r = m.sym.arg_terms(inner[0][0])[0]
            ok = any(s == g for s in subterms(r))
            # the guard is dropped only after the inner call
            cfg = m.cfg
            gl = acq[0][1]["dest"]["l"]
            for bi, b in enumerate(f.blocks):
                if b["term"]["k"] == "drop" and b["term"]["pl"]["l"] == gl and not b["cleanup"]:
                    if inner[0][0] in cfg.reach(b["term"]["t"]):
                        ok = False
        chk.check(ok, "K1", tag + who, "one guard; gate + consume happen in VringState::read_kick under it",
                  "%s does not evaluate the gate and consume the kick under a single guard of the ring lock" % f.short, f.loc())
    chk.check(len(impls) >= 2, "K1", tag + "impls", "%d lock-backed ring types" % len(impls), "expected the Mutex and RwLock ring types", None)
    # ------------------------------------------------------------------ K2
    ch = daemon.control_handlers(fb)
    hp = daemon.handler_helpers(fb)
    try:
        reg = daemon.registration_fn(fb)
    except AnchorMissing as e:
        chk.anchor_missing("K2", tag + "registration function", str(e))
        return
    for name in ("set_vring_enable", "reset_device", "get_vring_base", "set_features"):
        f = ch.get(name)
        if f is None:
            chk.anchor_missing("K2", tag + name)
            continue
        chk.fn_seen(f)
        m = must_of(fb, f)
        cfg = m.cfg
        dom = cfg.dominators()
        muts = [(bb, t, c) for bb, t, c in daemon.ring_calls(fb, f, {"set_enabled", "set_queue_ready"})]
        ups = [bb for bb, t, c in sites(f, name=reg.name)]
        probs = []
        if not muts or not ups:
            probs.append("no state change / no epoll update found")
        for bb, t, c in muts:
            after = [u for u in ups if bb in dom.get(u, ())]
            if not after:
                probs.append("%s is not followed by the epoll update" % c["name"])
        for u in ups:
            if not any(bb in dom.get(u, ()) for bb, _t, _c in muts):
                probs.append("an epoll update is not preceded by the state change")
        chk.check(not probs, "K2", tag + name, "state change dominates the epoll update", "%s: %s" % (f.short, "; ".join(probs)), f.loc())
    # ------------------------------------------------------------------ worker survives an interrupted wait
    # epoll_wait() may return EINTR at any time (a signal delivered to the worker): the loop must go round again, or
    # every later kick of the worker's rings is lost.  Exactly the Interrupted kind is retried.
    runs = [f for f in fb.find(name="run", self_adt="VringEpollHandler") if not f.trait]
    if len(runs) == 1:
        f = runs[0]
        chk.fn_seen(f)
        m = must_of(fb, f)
        cfg = m.cfg
        heads = {h for (_t, h) in cfg.back_edges()}
        retried = []
        for d, blk in enumerate(f.blocks):
            if blk["cleanup"] or blk["term"]["k"] != "switch":
                continue
            for sx in cfg.succ[d]:
                for a in m.edge_atoms(d, sx):
                    if a[0] == "cmp" and a[1] == "Eq" and any("kind(" in show(x) for x in (a[2], a[3])):
                        other = a[3] if "kind(" in show(a[2]) else a[2]
                        kind_name = show(other).split("::")[-1].strip("{}() ")
                        goes_round = bool(heads & (cfg.reach(sx, removed=set(cfg.returns)) | {sx})) and not (cfg.reach(sx, removed=heads) & set(cfg.returns))
                        if goes_round:
                            retried.append(kind_name)
        chk.check(retried == ["Interrupted"] or sorted(set(retried)) == ["Interrupted"], "K3", tag + "wait-interrupted",
                  "epoll wait error of kind Interrupted -> next iteration",
                  "the worker loop retries the epoll wait for error kinds %s (must be exactly Interrupted: a signal during the wait would "
                  "otherwise end the worker and lose every later kick)" % (sorted(set(retried)) or "none"), f.loc())
    else:
        chk.anchor_missing("K3", tag + "VringEpollHandler::run")
    # ------------------------------------------------------------------ K3 / K4
    hes = [f for f in fb.find(name="handle_event", self_adt="VringEpollHandler") if not f.trait]
    if len(hes) != 1:
        chk.anchor_missing("K3", tag + "worker dispatcher")
        return
    he = hes[0]
    chk.fn_seen(he)
    summ = Summariser(fb, no_inline=lambda g: True)
    outs, sym = summ.paths(he)
    probs = set()
    n_true = 0
    for o in outs:
        rk = [b for b in o.path if he.blocks[b]["term"]["k"] == "call" and (callee_of(he.blocks[b]["term"]) or {}).get("name") == "read_kick"]
        disp = [b for b in o.path if he.blocks[b]["term"]["k"] == "call" and (callee_of(he.blocks[b]["term"]) or {}).get("name") == "handle_event"
                and (callee_of(he.blocks[b]["term"]).get("of_trait") or "").endswith("::VhostUserBackend")]
        if not rk:
            continue
        gate_true = any(a[0] == "true" and "read_kick" in show(a[1]) for a in o.atoms)
        gate_false = any(a[0] == "false" and "read_kick" in show(a[1]) for a in o.atoms)
        rk_ok = any(a[0] == "ok" and "read_kick(" in show(a[1]) for a in o.atoms)
        if rk_ok and gate_true:
            n_true += 1
            if not disp:
                probs.add("a path with gate == true (eventfd consumed) returns without calling the backend's handle_event")
            elif o.path.index(disp[0]) < o.path.index(rk[0]):
                probs.add("dispatch before the gate")
        if rk_ok and gate_false and disp:
            probs.add("dispatch although the gate is false")
        if rk_ok and not gate_true and not gate_false and disp:
            probs.add("the gate's result is ignored")
    chk.check(not probs and n_true >= 1, "K3", tag + "consume-implies-dispatch", "gate true => dispatch; gate false => no dispatch (and nothing consumed: C11/T4)",
              "%s: %s" % (he.short, "; ".join(sorted(probs)) or "no gated path found"), he.loc())
    # K4: a guard of the ring lock live from the gate to the dispatch
    m = must_of(fb, he)
    acq = guard_acquisitions(he)
    ring_guard = [(bb, t) for bb, t in acq if "VringState" in t.get("dty", "")]
    covered = False
    disp_sites = [bb for bb, t, c in sites(he, name="handle_event") if (c.get("of_trait") or "").endswith("::VhostUserBackend")]
    rk_sites = [bb for bb, t, c in sites(he, name="read_kick")]
    for bb, t in ring_guard:
        gl = t["dest"]["l"]
        drops = [bi for bi, b in enumerate(he.blocks) if b["term"]["k"] == "drop" and b["term"]["pl"]["l"] == gl and not b["cleanup"]]
        dom = m.cfg.dominators()
        if all(bb in dom.get(r, ()) for r in rk_sites + disp_sites) and not any(d2 in m.cfg.reach(d) for d in drops for d2 in disp_sites):
            covered = True
    chk.check(covered, "K4", tag + "gate-to-dispatch", "ring guard held from the gate to the dispatch",
              "in %s the ring lock is released when read_kick returns and the backend's handle_event runs outside it: a control message that "
              "disables or stops the ring (state change, epoll update, reply) can complete between the gate and the dispatch, so the handler "
              "is entered for the ring after the reply was sent" % he.short, he.loc())


# ---------------------------------------------------------------------------- K18

def k18(fb, chk, tag=""):
    """read_kick's answer IS the gate: it reports `true` (dispatch) only when the ring was enabled under the lock, `false` when
    it was not (the worker then leaves the event pending and does not call the backend)."""
    chk.rule("K18", "read_kick returns Ok(true) only on paths where the ring was enabled, Ok(false) where it was not")
    fs = [f for f in fb.find(name="read_kick", self_adt="VringState") if not f.trait]
    if len(fs) != 1:
        chk.anchor_missing("K18", tag + "VringState::read_kick")
        return
    f = fs[0]
    from vlint.paths import Summariser, ret_okness
    outs, sym = Summariser(fb, no_inline=lambda g: True).paths(f)
    probs = set()
    n = 0
    for o in outs:
        if o.ret is None or ret_okness(o.ret) is not True:
            continue
        r = o.ret
        val = r[3][0][1] if r[0] == "agg" and r[3] else None
        en = None
        for a in o.atoms:
            if a[0] in ("true", "false") and isinstance(a[1], tuple) and any(x[0] == "field" and x[2] == "enabled" for x in subterms(a[1])):
                en = a[0] == "true"
        n += 1
        if val is None or val[0] != "const":
            continue
        if bool(val[1]) and en is not True:
            probs.add("returns Ok(true) on a path where the ring is %s" % ("disabled" if en is False else "not known to be enabled"))
        if not bool(val[1]) and en is True:
            probs.add("returns Ok(false) although the ring is enabled")
    chk.check(n >= 2 and not probs, "K18", tag + "read_kick:result", "Ok(true) <=> enabled (%d paths)" % n,
              "VringState::read_kick %s: a kick of a disabled ring is dispatched (or an enabled ring's kick is dropped)" % "; ".join(sorted(probs)), f.loc())
