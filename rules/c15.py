"""C15 — dirty-page logging records every backend write, precisely and atomically (partial)."""
from vlint.absint import const_eval
from vlint.facts import callee_of, resolved, AnchorMissing
from vlint.gates import field_of, root_of
from vlint.paths import Summariser, ret_okness
from vlint.terms import show, subterms, peel, Sym
from vlint.util import must_of, sites, field_writes
from . import daemon
from .panics import erase_sites

EXPLANATION = (
    "Decides: (B1) the log mapping is written only with AtomicU8::fetch_or (no store, no plain write), so concurrent "
    "writers cannot lose bits; (B2) the byte index is (pages_before_region + page) / 8 and the bit 1 << ((pages_before_region "
    "+ page) % 8) with page = offset / 4096 over the inclusive page range first..=last, len == 0 marks nothing; (B3) every "
    "dereference of the mapping is dominated by index < len, and a bitmap is created only if the word of the region's last "
    "byte lies inside the log; (B4) SET_LOG_BASE builds all bitmaps before replacing any and replaces them in every current "
    "region; (B5) logging stays in force: the accepted log mapping is retained by the handler and installed for regions "
    "created by later memory-table changes."
    ' Also: (B2) a slice of the region bitmap starts at base + offset exactly; (B4) installing a bitmap overwrites the previous one; (B6) C03/R1 for SET_LOG_BASE.'
    " Round 4/5: (B3) the last-byte word and the page fields are evaluated on sample regions (incl. one above 4 GiB) instead of matched as text; (B7) Clone copies every field; (B8) the log file is mapped at the request's offset and length (conversions only); (B9) the unit bitmap's constructor fails on every path; (B10) the SET_LOG_BASE body carries the region's mmap_size / mmap_offset; (B11) C19/U3.")
NOT_DECIDED = "The arithmetic as a numeric function over all values (bit = gpa/4096 for every address), cross-process visibility of the mapping."


def run(ctx, chk):
    fb = ctx.fb("full")
    chk.explanation = EXPLANATION
    chk.not_decided = NOT_DECIDED
    chk.cfgs["full"] = fb.hashes
    chk.rule("B1", "log memory is written only by AtomicU8::fetch_or")
    chk.rule("B2", "word/bit index expressions and constants; inclusive page range; len == 0 returns first")
    chk.rule("B3", "mapping dereference dominated by index < len; bitmap creation bounded by the log size")
    chk.rule("B4", "SET_LOG_BASE: build all bitmaps, then replace in every region")
    chk.rule("B5", "the log stays in force across later memory-table changes")
    run_on(fb, chk)
    b7b8b9(fb, chk)
    b10(fb, chk)
    from . import xlist
    xlist.apply("C15", fb, chk)
    n = lambda r: len([i for i in chk.instances if i[0] == r])
    chk.floor("B2", n("B2"), 6)


def run_on(fb, chk, tag=""):
    bitmap_fns = [f for f in fb.fns.values() if f.crate == "vhost_user_backend" and "::bitmap::" in f.key]
    # ------------------------------------------------------------------ B1
    atom_calls = []
    for f in bitmap_fns:
        for bb, t in f.calls():
            c = callee_of(t)
            if c and ("AtomicU8" in (c.get("self_ty") or c.get("path") or "") or "atomic::Atomic<u8>" in (c.get("self_ty") or "")):
                atom_calls.append((f, bb, t, c))
    names = sorted({c["name"] for _f, _b, _t, c in atom_calls})
    writes = [n for n in names if n not in ("load", "fetch_or")]
    chk.check(not writes and "fetch_or" in names, "B1", tag + "atomic-ops", "operations on the log bytes: %s" % names,
              "the log is modified with %s (only fetch_or keeps concurrent writers from losing bits)" % writes)
    raw = []
    for f in bitmap_fns:
        for bb, t in f.calls():
            c = callee_of(t)
            if c and c.get("name") in ("write", "write_volatile", "write_unaligned", "copy", "copy_nonoverlapping", "write_bytes", "as_mut", "from_raw_parts_mut") \
                    and (c.get("path") or "").startswith(("std::ptr", "core::ptr", "std::slice", "core::slice")):
                raw.append((f.short, c["name"]))
    chk.check(not raw, "B1", tag + "no-raw-writes", "no raw pointer writes in the bitmap module", "raw writes to memory in the bitmap module: %s" % raw)
    # ------------------------------------------------------------------ B2
    for cname, want in (("LOG_PAGE_SIZE", 0x1000), ("LOG_WORD_SIZE", 8)):
        try:
            v = fb.const_value("bitmap::" + cname)
        except AnchorMissing:
            v = None
        chk.check(v == want, "B2", tag + cname, "= %d" % want, "%s = %s (vhost log granularity requires %d)" % (cname, v, want))
    helpers = {}
    for nm, op, k in (("page_number", "Div", "LOG_PAGE_SIZE"), ("page_word", "Div", "LOG_WORD_SIZE"), ("page_bit", "Rem", "LOG_WORD_SIZE")):
        fs = [f for f in bitmap_fns if f.name == nm and not f.self_ty]
        if len(fs) != 1:
            chk.anchor_missing("B2", tag + nm)
            continue
        f = fs[0]
        helpers[nm] = f
        ret = Sym(f, fb).local(0)
        ok = ret[0] == "bin" and ret[1] == op and ret[2][0] == "param" and ret[3][0] == "cname" and ret[3][1].endswith("::" + k)
        chk.check(ok, "B2", tag + nm, "%s(x) = x %s %s" % (nm, "/" if op == "Div" else "%", k), "%s computes %s" % (nm, show(ret)), f.loc())
    md = [f for f in bitmap_fns if f.name == "mark_dirty" and (f.self_adt or "").endswith("::AtomicBitmapMmap")]
    if len(md) != 1:
        chk.anchor_missing("B2", tag + "AtomicBitmapMmap::mark_dirty")
    else:
        f = md[0]
        chk.fn_seen(f)
        m = must_of(fb, f)
        fo = sites(f, name="fetch_or")
        ok = len(fo) == 1
        detail = ""
        if ok:
            bb, t, c = fo[0]
            a = m.sym.arg_terms(bb)
            cell, mask = a[0], a[1]
            widx = None
            for s in subterms(cell):
                if s[0] == "call" and s[1] == "page_word":
                    widx = s[2][0]
            bidx = None
            one = None
            if mask[0] == "bin" and mask[1] == "Shl":
                one = const_eval(fb, m.sym, mask[2])
                sh = mask[3]
                while sh[0] == "cast":
                    sh = sh[1]
                if sh[0] == "call" and sh[1] == "page_bit":
                    bidx = sh[2][0]
            same = widx is not None and bidx is not None and erase_sites(widx) == erase_sites(bidx)
            def opname(x):
                if field_of(x)[1] == "pages_before_region":
                    return "pages_before_region"
                if any(s_[0] == "call" and s_[1] == "next" for s_ in subterms(x)) or (x[0] == "param" and x[2] == "page"):
                    return "page"
                return show(x)[:20]
            form = same and widx[0] == "bin" and widx[1] == "Add" and sorted([opname(widx[2]), opname(widx[3])]) == ["page", "pages_before_region"]
            ok = bool(form) and one == 1 and "logmem" in show(cell)
            detail = "logmem[page_word(%s)] |= %s << page_bit(%s)" % (show(widx)[:40] if widx else None, one, show(bidx)[:40] if bidx else None)
        chk.check(ok, "B2", tag + "mark_dirty:index", detail, "dirty bit is set as %s" % detail, f.loc())
        # inclusive range over first..=last, with last from offset + (len - 1)
        rng = sites(f, name="new")
        okr = False
        for bb, t, c in rng:
            if "RangeInclusive" in (c.get("self_ty") or c.get("path") or ""):
                a = m.sym.arg_terms(bb)
                first, last = show(a[0]), show(a[1])
                okr = first == "page_number(offset)" and "saturating_add(offset" in last and "len Sub 1" in last and last.startswith("page_number(")
        chk.check(okr, "B2", tag + "mark_dirty:range", "pages page_number(offset) ..= page_number(offset + len - 1)", "page range is not the inclusive range of the touched pages", f.loc())
        # len == 0 returns before anything is marked
        bb = fo[0][0] if fo else None
        nz = bb is not None and any(a[0] == "cmp" and a[1] == "Ne" and peel(a[2])[0][0] == "param" and const_eval(fb, m.sym, a[3]) == 0 for a in m.atoms_at(bb))
        inb = bb is not None and any(a[0] == "cmp" and a[1] == "Lt" and field_of(a[3])[1] == "number_of_pages" for a in m.atoms_at(bb))
        chk.check(nz and inb, "B2", tag + "mark_dirty:guards", "marks only when len != 0 and page < number_of_pages",
                  "marking happens with len!=0:%s page<number_of_pages:%s" % (nz, inb), f.loc())
    # ------------------------------------------------------------------ B3
    ix = [f for f in bitmap_fns if f.name == "index" and (f.self_adt or "").endswith("::MmapLogReg")]
    if len(ix) == 1:
        f = ix[0]
        chk.fn_seen(f)
        m = must_of(fb, f)
        derefs = [bi for bi, b in enumerate(f.blocks) if b["term"]["k"] == "assert" and b["term"]["msg"] in ("Misaligned", "NullDeref") and not b["cleanup"]]
        adds = [bb for bb, t, c in sites(f, name="add")]
        targets = derefs + adds
        ok = bool(targets)
        for bi in targets:
            if not any(a[0] == "cmp" and a[1] == "Lt" and peel(a[2])[0][0] == "param" and field_of(a[3])[1] == "len" for a in m.atoms_at(bi)):
                ok = False
        chk.check(ok, "B3", tag + "index:bounds", "pointer arithmetic and dereference dominated by index < self.len",
                  "MmapLogReg::index dereferences the mapping without the must-fact index < len", f.loc())
    else:
        chk.anchor_missing("B3", tag + "MmapLogReg::index")
    nw = [f for f in bitmap_fns if f.name == "new" and (f.self_adt or "").endswith("::AtomicBitmapMmap")]
    if len(nw) == 1:
        f = nw[0]
        chk.fn_seen(f)
        summ = Summariser(fb, no_inline=lambda g: True)
        outs, sym = summ.paths(f)
        probs = set()
        nok = 0
        for o in outs:
            if o.ret is None or ret_okness(o.ret) is not True:
                continue
            nok += 1
            bounded = False
            for a in o.atoms:
                if a[0] == "cmp" and a[1] == "Lt" and "len(" in show(a[3]) and "logmem" in show(a[3]):
                    if _is_last_word(fb, sym, a[2]):
                        bounded = True
            if not bounded:
                probs.add("Ok without page_word(page_number(start + len - 1)) < logmem.len()")
            nonempty = False
            for a in o.atoms:
                if a[0] == "cmp" and "len(" in show(a[2]) and "logmem" not in show(a[2]):
                    k = const_eval(fb, sym, a[3])
                    if (a[1] == "Ne" and k == 0) or (a[1] == "Ge" and k == 1) or (a[1] == "Gt" and k == 0):
                        nonempty = True
            if not nonempty:
                probs.add("Ok for an empty region")
            pf = _page_fields_ok(fb, sym, o.ret)
            if pf is False:
                probs.add("pages_before_region / number_of_pages are not start / 4096 and len / 4096 for every region (e.g. one above 4 GiB)")
        chk.check(not probs and nok >= 1, "B3", tag + "new:bounds", "bitmap created only if the last byte's word is inside the log",
                  "AtomicBitmapMmap::new: %s" % "; ".join(sorted(probs)), f.loc())
    else:
        chk.anchor_missing("B3", tag + "AtomicBitmapMmap::new")
    # ------------------------------------------------------------------ B2: the region-relative wrapper
    # BitmapMmapRegion forwards (base_address + offset, len) to the log bitmap; a slice starts at base + offset exactly
    # (byte granularity: the page range of a write is derived from its first and last byte), and installing a new
    # bitmap replaces the previous one.
    wrap = [f for f in bitmap_fns if (f.self_adt or "").endswith("::BitmapMmapRegion")]
    sl = [f for f in wrap if f.name == "slice_at"]
    if len(sl) == 1:
        f = sl[0]
        chk.fn_seen(f)
        m = must_of(fb, f)
        okb = False
        detail = ""
        for b in f.blocks:
            for st in b["stmts"]:
                if st["k"] == "assign" and st["rv"]["k"] == "agg" and (st["rv"].get("adt") or "").endswith("::BitmapMmapRegion"):
                    d = dict(m.sym.rvalue(st["rv"])[3])
                    v = d.get("base_address")
                    detail = show(v)[:80] if v is not None else "?"
                    if v is not None and v[0] == "call" and v[1] in ("saturating_add", "wrapping_add", "checked_add") and len(v[2]) == 2 or \
                            (v is not None and v[0] == "bin" and v[1] == "Add"):
                        a0, a1 = (v[2][0], v[2][1]) if v[0] == "call" else (v[2], v[3])
                        names = sorted([field_of(a0)[1] or (peel(a0)[0][2] if peel(a0)[0][0] == "param" else "?"),
                                        field_of(a1)[1] or (peel(a1)[0][2] if peel(a1)[0][0] == "param" else "?")])
                        okb = names == ["base_address", "offset"]
        chk.check(okb, "B2", tag + "slice_at:base", "slice base = base_address + offset (byte exact)",
                  "BitmapMmapRegion::slice_at sets the slice base to %s: a write through the slice is logged relative to a different "
                  "address than the one it touches (pages at the end of the write can be missed)" % detail, f.loc())
    else:
        chk.anchor_missing("B2", tag + "BitmapMmapRegion::slice_at")
    # the wrapper takes its lock in blocking mode: a `try_*` acquisition that gives up would drop the mark while the log
    # is being swapped
    for f in wrap:
        tries = [c["name"] for bb, t, c in sites(f, name={"try_read", "try_write", "try_lock"})]
        locks = [c["name"] for bb, t, c in sites(f, name={"read", "write", "lock"})]
        if tries or locks:
            chk.check(not tries, "B1", tag + "blocking-lock:" + f.name, "lock taken with %s" % sorted(set(locks)),
                      "BitmapMmapRegion::%s acquires its lock with %s: when the lock is busy (a log swap in progress) the operation "
                      "is silently skipped and the write is recorded in no log" % (f.name, sorted(set(tries))), f.loc())
    rp = [f for f in wrap if f.name == "replace" and (f.trait or "").endswith("BitmapReplace")]
    if len(rp) == 1:
        f = rp[0]
        chk.fn_seen(f)
        m = must_of(fb, f)
        good = False
        seen = []
        for bb, t in f.calls():
            c = callee_of(t)
            if c is None or not (resolved(c).get("self_adt") or c.get("self_adt") or "").endswith("option::Option"):
                continue
            seen.append(c.get("name"))
            if c.get("name") in ("replace", "insert") and any(x[0] == "param" and x[2] == "bitmap" for a in m.sym.arg_terms(bb)[1:] for x in subterms(a)):
                good = True
        for w in field_writes(f):
            pass
        for b in f.blocks:
            for st in b["stmts"]:
                if st["k"] == "assign" and st["lhs"]["p"] and st["rv"]["k"] == "agg" and st["rv"].get("variant") == "Some":
                    v = m.sym.rvalue(st["rv"])
                    if any(x[0] == "param" and x[2] == "bitmap" for x in subterms(v)):
                        good = True
        chk.check(good, "B4", tag + "replace:overwrites", "the new bitmap replaces the installed one (Option::replace / = Some(..))",
                  "BitmapMmapRegion::replace does not overwrite an already installed bitmap (Option methods used: %s): after a second "
                  "SET_LOG_BASE the region keeps logging into the superseded log" % sorted(set(seen)), f.loc())
    else:
        chk.anchor_missing("B4", tag + "BitmapMmapRegion::replace")
    # ------------------------------------------------------------------ B4 / B5
    ch = daemon.control_handlers(fb)
    f = ch.get("set_log_base")
    if f is None:
        chk.anchor_missing("B4", tag + "set_log_base")
        return
    chk.fn_seen(f)
    m = must_of(fb, f)
    reps = [bb for bb, t, c in sites(f, name="replace")]
    news = [(bb, t, c) for bb, t, c in sites(f, name="new") if (c.get("of_trait") or "").endswith("::MemRegionBitmap")]
    ok = bool(reps) and bool(news)
    for bb, t, c in news:
        # a failing construction (its `?` error edge) must not be reachable after a replace
        for r in reps:
            if m.cfg.can_reach(r, bb):
                ok = False
    src_all = any("iter(" in show(m.sym.arg_terms(bb)[0]) and "memory(" in show(m.sym.arg_terms(bb)[0]) for bb, t, c in news)
    chk.check(ok, "B4", tag + "build-then-replace", "every fallible bitmap construction precedes the first replace",
              "a bitmap construction can fail after some regions were already switched to the new log", f.loc())
    chk.check(src_all, "B4", tag + "all-regions", "bitmaps are built for every region of the current memory (mem.iter())",
              "bitmaps are not built from an iteration over all current regions", f.loc())
    # B5: the accepted log is kept in handler state and used when regions are created later
    handler_adt = None
    for p, r in fb.adt_generic.items():
        if p.endswith("::VhostUserHandler"):
            handler_adt = r
    keeps = False
    if handler_adt:
        keeps = any("MmapLogReg" in x["ty"] for x in handler_adt["variants"][0]["fields"])
    stored = any("MmapLogReg" in str(w["rv"]) or w["field"] in ("log", "logmem", "log_region") for w in field_writes(f))
    later = False
    for name in ("set_mem_table", "add_mem_region"):
        g = ch.get(name)
        if g is not None:
            if any((c.get("of_trait") or "").endswith("::MemRegionBitmap") or c.get("name") == "replace" and "bitmap" in show(must_of(fb, g).sym.arg_terms(bb)[0])
                   for bb, t, c in sites(g, name={"new", "replace"})):
                later = True
    chk.check(keeps and stored and later, "B5", tag + "log-persists", "log mapping retained and installed for later regions",
              "the log mapping accepted by SET_LOG_BASE lives only inside the bitmaps of the regions that existed at that time: regions created by a "
              "later SET_MEM_TABLE / ADD_MEM_REG get an empty bitmap and backend writes to them are not logged (handler keeps log: %s, "
              "set_log_base stores it: %s, later region creation installs it: %s)" % (keeps, stored, later), f.loc())


def _is_last_word(fb, sym, x):
    """Is term `x` the log word of the region's last byte, i.e. ((start + len - 1) / 4096) / 8, as a function of the region's
    start address and length?  Decided by evaluating the term (through the crate's own page helpers) on sample regions."""
    start = ln = None
    for s_ in subterms(x):
        if s_[0] == "call" and s_[1] == "start_addr":
            start = s_
        if s_[0] == "call" and s_[1] == "len" and "logmem" not in show(s_):
            ln = s_
    if start is None or ln is None:
        return False
    for st, n in SAMPLE_REGIONS:
        v = const_eval(fb, sym, x, env={start: st, ln: n})
        if v != ((st + n - 1) // 4096) // 8:
            return False
    return True


# (start, length) of sample regions, including one above 4 GiB (a narrowing of the address would show)
SAMPLE_REGIONS = ((0, 1), (0, 4096), (0x1000, 0x8001), (0x7fff, 2), (0x123456, 0x654321), (0x8000, 0x8000), (0x1_0000_3000, 0x2000),
                  (0x7f_ffff_f000, 0x1_0000_1000))


def _page_fields_ok(fb, sym, ret):
    """The bitmap's `pages_before_region` / `number_of_pages` are start / 4096 and len / 4096 (evaluated on the samples)."""
    while ret[0] in ("ref", "deref"):
        ret = ret[1]
    if ret[0] == "agg" and ret[2] == "Ok" and ret[3]:
        ret = ret[3][0][1]
    if ret[0] != "agg":
        return None
    flds = dict(ret[3])
    pb, np_ = flds.get("pages_before_region"), flds.get("number_of_pages")
    if pb is None or np_ is None:
        return None
    start = ln = None
    for s_ in list(subterms(pb)) + list(subterms(np_)):
        if s_[0] == "call" and s_[1] == "start_addr":
            start = s_
        if s_[0] == "call" and s_[1] == "len" and "logmem" not in show(s_):
            ln = s_
    if start is None or ln is None:
        return False
    for st, n in SAMPLE_REGIONS:
        env = {start: st, ln: n}
        if const_eval(fb, sym, pb, env=env) != st // 4096 or const_eval(fb, sym, np_, env=env) != n // 4096:
            return False
    return True


# ---------------------------------------------------------------------------- B7 / B8 / B9

def _ok_payload(x):
    """The single payload of `x?` / `x.unwrap()` when x is (a merge containing exactly one) `Ok(v)` / `Some(v)`; else None."""
    while x[0] in ("ref", "deref"):
        x = x[1]
    alts = x[2] if x[0] == "phi" else [x]
    pl = [a[3][0][1] for a in alts if a[0] == "agg" and a[2] in ("Ok", "Some") and len(a[3]) == 1]
    rest = [a for a in alts if not (a[0] == "agg" and a[2] in ("Ok", "Some", "Err", "None")) and a[0] != "from_residual"]
    return pl[0] if len(pl) == 1 and not rest else None


def _conv_source(t, depth=0):
    """Peel casts, `?`-unwraps, lossless conversions and tuples handed through a helper's `Ok((a, b))`; the parameter a value
    comes from, or None."""
    if depth > 12:
        return None
    if t[0] in ("cast", "ref", "deref"):
        return _conv_source(t[1], depth + 1)
    if t[0] == "param":
        return t
    if t[0] == "call" and t[1] in ("io_try_into", "try_into", "try_from", "into", "from") and len(t[2]) == 1:
        return _conv_source(t[2][0], depth + 1)
    if t[0] == "unwrap" or (t[0] == "field" and t[2] == "0" and t[1][0] == "down" and t[1][2] in ("Ok", "Some")):
        x = t[1] if t[0] == "unwrap" else t[1][1]
        p_ = _ok_payload(x)
        return _conv_source(p_ if p_ is not None else x, depth + 1)
    if t[0] == "field" and str(t[2]).isdigit():
        # element of a tuple built in this body (possibly handed through `Ok((..))?`)
        x = t[1]
        for _ in range(4):
            while x[0] in ("ref", "deref"):
                x = x[1]
            if x[0] == "tuple":
                k = int(t[2])
                return _conv_source(x[1][k], depth + 1) if k < len(x[1]) else None
            if x[0] == "unwrap" or (x[0] == "field" and x[2] == "0" and x[1][0] == "down"):
                inner = x[1] if x[0] == "unwrap" else x[1][1]
                p_ = _ok_payload(inner)
                if p_ is None:
                    return None
                x = p_
                continue
            return None
    return None


def b10(fb, chk, tag=""):
    """The frontend describes the log area to the backend with the caller's values: mmap_size and mmap_offset of the
    SET_LOG_BASE body are the region's mmap_size and mmap_offset (the log address `base` is not part of the shmfd form)."""
    chk.rule("B10", "SET_LOG_BASE body: mmap_size <- region.mmap_size, mmap_offset <- region.mmap_offset")
    from . import common
    f = common.frontend_methods(fb).get("set_log_base")
    if f is None:
        chk.anchor_missing("B10", tag + "Frontend::set_log_base")
        return
    sym = Sym(f, fb)
    n = 0
    for bi, b in enumerate(f.blocks):
        if b["cleanup"]:
            continue
        for st in b["stmts"]:
            if st["k"] == "assign" and st["rv"]["k"] == "agg" and st["rv"].get("ak") == "adt" and (st["rv"].get("adt") or "").endswith("VhostUserLog"):
                v = sym.rvalue(st["rv"])
                n += 1
                for fld, val in v[3]:
                    x = val
                    while x[0] in ("ref", "deref", "cast"):
                        x = x[1]
                    src = x[2] if x[0] == "field" else None
                    roots = [y for y in subterms(val) if y[0] == "param"]
                    ok = src == fld and roots and all(y[2] == "region" or y[1] == 3 for y in roots)
                    chk.check(bool(ok), "B10", "%sset_log_base:%s" % (tag, fld), "%s <- region.%s" % (fld, fld),
                              "Frontend::set_log_base fills VhostUserLog.%s from `%s`, not from the caller's region.%s: the backend maps a "
                              "different window of the log file than the one the frontend reads" % (fld, show(val)[:60], fld), f.loc(st.get("line")))
    if n == 0:
        chk.bad("B10", tag + "set_log_base:body", "no VhostUserLog body is built in Frontend::set_log_base", f.loc())


def b7b8b9(fb, chk, tag=""):
    chk.rule("B7", "a copy of a region's bitmap handle logs through the same log at the same base address (Clone copies every field)")
    chk.rule("B8", "the log file is mapped at exactly the offset and length of the request (no rounding, no adjustment)")
    chk.rule("B9", "the unit bitmap can never accept a log: its constructor fails on every path")
    # B7
    for f in fb.find(name="clone", self_adt="BitmapMmapRegion"):
        sym = Sym(f, fb)
        ret = sym.local(0)
        probs = []
        if ret[0] != "agg":
            probs.append("result is not built field by field from self (%s)" % show(ret)[:80])
        else:
            for fld, v in ret[3]:
                srcs = [x for x in subterms(v) if x[0] == "field" and x[2] == fld and any(y[0] == "param" and y[1] == 1 for y in subterms(x))]
                if not srcs or v[0] == "const":
                    probs.append("field `%s` of the copy is %s, not self.%s" % (fld, show(v)[:60], fld))
        chk.check(not probs, "B7", tag + "clone:BitmapMmapRegion", "every field of the copy is a clone of the same field of self",
                  "BitmapMmapRegion::clone: %s: writes through a copied slice are logged at the wrong pages" % "; ".join(probs), f.loc())
    # B8
    fs = fb.find(name="from_file", self_adt="MmapLogReg")
    if len(fs) != 1:
        chk.anchor_missing("B8", tag + "MmapLogReg::from_file")
    for f in fs:
        sym = Sym(f, fb)
        n = 0
        for bb, t in f.calls():
            c = callee_of(t)
            if not c or c.get("name") != "mmap":
                continue
            n += 1
            args = sym.arg_terms(bb)
            ln, off = _conv_source(args[1]), _conv_source(args[5])
            names = f.arg_names()
            ok_off = off is not None and off[2] == "offset" or (off is not None and len(names) >= 2 and off[1] == 2)
            ok_len = ln is not None and (ln[2] == "len" or ln[1] == 3)
            chk.check(ok_off, "B8", tag + "from_file:offset", "mmap offset = the request's mmap_offset (conversions only)",
                      "MmapLogReg::from_file maps the log file at `%s`, not at the offset it was given: dirty bits land outside the "
                      "declared log area" % show(args[5])[:80], f.loc(t["line"]))
            chk.check(ok_len, "B8", tag + "from_file:len", "mmap length = the request's mmap_size (conversions only)",
                      "MmapLogReg::from_file maps `%s` bytes, not the length it was given" % show(args[1])[:80], f.loc(t["line"]))
            flags = const_eval(fb, sym, args[3])
            prot = const_eval(fb, sym, args[2])
            chk.check(flags == 1 and prot == 3, "B8", tag + "from_file:shared-rw", "mmap(PROT_READ | PROT_WRITE, MAP_SHARED)",
                      "MmapLogReg::from_file maps the log with prot=%s flags=%s: the dirty bits must land in the SHARED mapping the frontend "
                      "reads (MAP_SHARED = 1, PROT_READ|PROT_WRITE = 3)" % (prot, flags), f.loc(t["line"]))
            # success is returned only when the mapping succeeded: the result was compared with MAP_FAILED
            call = sym.call_at(bb)
            outs_, osym = Summariser(fb, no_inline=lambda g_: True).paths(f)
            oks = [o for o in outs_ if o.ret is not None and ret_okness(o.ret) is True]
            tested = oks and all(any(a[0] == "cmp" and a[1] == "Ne" and any(x == call or (x[0] == "call" and x[1] == "mmap") for x in subterms(a[2]))
                                     and "MAP_FAILED" in show(a[3]) for a in o.atoms) for o in oks)
            chk.check(bool(tested), "B8", tag + "from_file:failure-detected", "Ok only when mmap(..) != MAP_FAILED",
                      "MmapLogReg::from_file can return Ok without having compared the mmap result with MAP_FAILED: a log that cannot be "
                      "mapped is accepted and later marks touch memory outside any log mapping", f.loc(t["line"]))
        if n != 1:
            chk.bad("B8", tag + "from_file:mmap", "expected exactly one mmap call, found %d" % n, f.loc())
    # B9
    for f in fb.find(name="new"):
        if not (f.trait or "").endswith("MemRegionBitmap") or f.self_ty != "()":
            continue
        sym = Sym(f, fb)
        ret = sym.local(0)
        alts = ret[2] if ret[0] == "phi" else [ret]
        bad = [a for a in alts if not (a[0] == "agg" and a[2] == "Err")]
        chk.check(not bad, "B9", tag + "unit:new", "<() as MemRegionBitmap>::new returns Err on every path",
                  "the unit bitmap's constructor can return %s: a backend without a real bitmap accepts SET_LOG_BASE and logs nothing"
                  % [show(a)[:40] for a in bad], f.loc())
