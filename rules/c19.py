"""C19 — kernel vhost / vDPA operations issue exactly the UAPI ioctls with UAPI layouts."""
import os
import re
import subprocess
import tempfile

from spec import uapi
from vlint.absint import Eval, Undecided, const_eval, size_of_type
from vlint.facts import callee_of, resolved, AnchorMissing, VERIF
from vlint.gates import field_of, root_of
from vlint.paths import Summariser, TooManyPaths
from vlint.terms import Sym, show, subterms, peel
from vlint.util import must_of, sites, field_writes

EXPLANATION = (
    "Decides: (U1) every ioctl request number the crate defines (recomputed from the generated "
    "function's MIR: direction, type, nr constants and size_of of the argument type from rustc's "
    "layout) and every binding struct's size/field offsets and constants equal the installed Linux UAPI "
    "header's, by compiling generated _Static_asserts with clang -fsyntax-only (the header is the oracle, "
    "nothing is executed); (U2) each trait operation of the four kernel backends contains exactly one "
    "ioctl call whose request is the definition the UAPI names for it, through the wrapper matching its "
    "direction, and returns ioctl_result of that call; (U3) argument struct fields come from the named "
    "parameters, read-back results from the struct the kernel wrote; (U4) IOTLB v1/v2 selection follows "
    "the acked backend-feature bit, write length is size_of of the chosen struct, field-by-field provenance "
    "for writer and parsers; (U5) set_vring_addr reaches the ioctl only under is_valid = true, and every "
    "accepting path of both is_valid implementations tests size != 0, size <= max, power of two and the "
    "log-address rule."
    ' Also: (U4) the acknowledged backend features are stored only after the ioctl succeeded and are the value passed to it; (U2) `ioctl_result(ret, ..)?; ...; Ok(v)` accepted as the same result.'
    " Round 4/5: (U5) the three ring ranges are required on every accepting path of the default validator with lengths evaluated against the virtio layout; (U6) exactly 1 ..= VHOST_MAX_MEMORY_REGIONS regions reach the ioctl; (U7) dma_map announces read-only mappings as RO and others as RW; generic argument types of ioctl calls inside an expanded helper are resolved to the caller's value.")
NOT_DECIDED = "Kernel behaviour; values of guest-memory translation (get_host_address is third-party)."

IOCTL_WRAPPERS = {"ioctl": "none", "ioctl_with_ref": "ref", "ioctl_with_mut_ref": "mut",
                  "ioctl_with_ptr": "ptr", "ioctl_with_mut_ptr": "ptr", "ioctl_with_val": "val"}


def ioctl_defs(fb):
    """{NAME: (number, dir, ty, nr, size, fn)} from the binding's generated functions."""
    out = {}
    for f in fb.fns.values():
        if "vhost_kern::vhost_binding" not in f.key or f.self_ty:
            continue
        sym = Sym(f, fb)
        t = sym.local(0)
        if t[0] != "call" or t[1] != "ioctl_expr" or len(t[2]) != 4:
            continue
        try:
            ev = Eval(fb, sym)
            d, ty, nr, sz = [ev.ev(a) for a in t[2]]
        except Undecided as e:
            out[f.name] = (None, None, None, None, None, f, str(e))
            continue
        num = (d << 30) | (sz << 16) | (ty << 8) | nr
        out[f.name] = (num, d, ty, nr, sz, f, None)
    return out


def run(ctx, chk):
    fb = ctx.fb("full")
    chk.explanation = EXPLANATION
    chk.not_decided = NOT_DECIDED
    chk.cfgs["full"] = fb.hashes
    chk.rule("U1", "ioctl numbers, binding struct layouts, constants and enum codes equal <linux/vhost.h>'s (clang _Static_assert)")
    chk.rule("U2", "each operation issues exactly one ioctl: the UAPI's request for it, via the wrapper of its direction, and returns ioctl_result of it")
    chk.rule("U3", "ioctl argument fields come from the named parameters; results come from what the kernel wrote")
    chk.rule("U4", "IOTLB: v2 layout iff the acked MSG_V2 bit; write length = size_of the chosen struct; field provenance of writer and parsers")
    chk.rule("U5", "set_vring_addr reaches the ioctl only if is_valid; accepting paths of is_valid test all ring-size and log rules")
    defs = ioctl_defs(fb)
    chk.floor("U1", len(defs), 40)
    u1(fb, chk, defs)
    u2u3(fb, chk, defs)
    u3_vring_addr(fb, chk)
    u4(fb, chk)
    u5(fb, chk)
    u6u7(fb, chk)
    n = lambda r: len([i for i in chk.instances if i[0] == r])
    chk.floor("U2", n("U2"), 36)
    chk.floor("U3", n("U3"), 25)
    chk.floor("U4", n("U4"), 20)


# ---------------------------------------------------------------------------- U1

def binding_struct(fb, name):
    for ty, r in fb.adts.items():
        if ty.endswith("vhost_binding::" + name):
            return r
    return None


def u1(fb, chk, defs):
    lines = ["#include <stddef.h>", "#include <sys/ioctl.h>", "#include <linux/vhost.h>", "#include <linux/vhost_types.h>"]
    asserts = {}   # tag -> (rule key, message)
    n = 0

    def add(tag, cond, msg, guard=None):
        nonlocal n
        n += 1
        if guard:
            lines.append("#ifdef %s" % guard)
        lines.append('_Static_assert(%s, "%s");' % (cond, tag))
        if guard:
            lines.append("#else")
            lines.append('#warning "MISSING:%s"' % tag)
            lines.append("#endif")
        asserts[tag] = msg

    for name, (num, d, ty, nr, sz, f, err) in sorted(defs.items()):
        chk.fn_seen(f)
        if num is None:
            chk.bad("U1", "ioctl:" + name, "cannot evaluate the request number: %s" % err, f.loc())
            continue
        add("ioctl:" + name, "(unsigned long)(%s) == %#xUL" % (name, num),
            "request number of %s is %#x (dir %d, type %#x, nr %#x, size %d)" % (name, num, d, ty, nr, sz), guard=name)
    for sname in uapi.C_STRUCTS:
        r = binding_struct(fb, sname)
        if r is None:
            chk.bad("U1", "struct:" + sname, "binding struct %s not found" % sname)
            continue
        add("sizeof:" + sname, "sizeof(struct %s) == %d" % (sname, r["size"]),
            "sizeof(struct %s) is %d in the binding" % (sname, r["size"]))
        for fld in r["variants"][0]["fields"]:
            if (sname, fld["name"]) in uapi.SKIP_FIELDS:
                continue
            cm = uapi.C_MEMBER.get((sname, fld["name"]), fld["name"])
            add("offsetof:%s.%s" % (sname, fld["name"]), "offsetof(struct %s, %s) == %d" % (sname, cm, fld["offset"]),
                "field %s.%s is at offset %d in the binding" % (sname, fld["name"], fld["offset"]))
    for c in uapi.C_CONSTS:
        try:
            v = fb.const_value("vhost_binding::" + c)
        except AnchorMissing:
            chk.bad("U1", "const:" + c, "binding constant %s not found" % c)
            continue
        add("const:" + c, "(%s) == %d" % (c, v), "binding constant %s = %d" % (c, v), guard=c)
    for en, table in uapi.ENUMS.items():
        try:
            d = fb.enum_discriminants(en)
        except AnchorMissing as e:
            chk.anchor_missing("U1", en, str(e))
            continue
        for var, macro in sorted(table.items()):
            add("enum:%s::%s" % (en, var), "(%s) == %d" % (macro, d.get(var, -1)),
                "%s::%s = %s" % (en, var, d.get(var)), guard=macro)
    out_dir = os.path.join(os.environ.get("VERIF_BUILD") or os.path.join(VERIF, "build"), "c19")
    os.makedirs(out_dir, exist_ok=True)
    cpath = os.path.join(out_dir, "uapi_asserts_%d.c" % os.getpid())
    with open(cpath, "w") as fh:
        fh.write("\n".join(lines) + "\n")
    r = subprocess.run(["clang", "-fsyntax-only", "-ferror-limit=0", "-x", "c", cpath],
                       stdout=subprocess.PIPE, stderr=subprocess.STDOUT, text=True)
    out = r.stdout
    try:
        os.unlink(cpath)
    except OSError:
        pass
    failed = set(re.findall(r"static assertion failed[^\n]*?\"([^\"]+)\"", out))
    failed |= set(re.findall(r"static_assert failed[^\n]*?\"([^\"]+)\"", out))
    missing = set(re.findall(r"MISSING:([^\"\s]+)", out))
    other_errors = [l for l in out.splitlines() if " error: " in l and "static assertion" not in l and "static_assert" not in l]
    if other_errors:
        chk.bad("U1", "clang", "clang could not evaluate the generated assertions: %s" % other_errors[:3])
    chk.extra["clang_static_asserts"] = n
    chk.extra["header_missing"] = sorted(missing)
    for tag, msg in sorted(asserts.items()):
        if tag in missing:
            chk.ok("U1", tag, "installed header does not define this name; not comparable (%s)" % msg, sample=False)
        elif tag in failed:
            chk.bad("U1", tag, "%s; <linux/vhost.h> disagrees" % msg)
        else:
            chk.ok("U1", tag, msg + " = header's")


# ---------------------------------------------------------------------------- U2 / U3

def find_op(fb, sel, meth):
    if sel == "VhostBackend":
        fs = [f for f in fb.find(name=meth) if (f.trait or "").endswith("::VhostBackend")
              and "vhost_kern::" in f.key and f.self_ty == "T"]
    elif sel == "VhostKernFeatures":
        fs = [f for f in fb.find(name=meth) if (f.trait or "").endswith("::VhostKernFeatures") and f.rec.get("trait_decl")]
    elif sel == "VhostVdpa":
        fs = [f for f in fb.find(name=meth, self_adt="VhostKernVdpa") if (f.trait or "").endswith("::VhostVdpa")]
    elif sel == "VhostKernVdpa":
        fs = [f for f in fb.find(name=meth, self_adt="VhostKernVdpa") if not f.trait]
    elif sel == "VhostNet":
        fs = [f for f in fb.find(name=meth, self_adt="Net") if (f.trait or "").endswith("::VhostNet")]
    elif sel == "VhostVsock":
        fs = [f for f in fb.find(name=meth, self_adt="Vsock") if (f.trait or "").endswith("::VhostVsock")]
    elif sel == "Vsock":
        fs = [f for f in fb.find(name=meth, self_adt="Vsock") if not f.trait]
    else:
        fs = []
    return fs


def ioctl_sites(f):
    out = []
    for bb, t in f.calls():
        c = callee_of(t)
        if c and c.get("name") in IOCTL_WRAPPERS and "vmm_sys_util" in (c.get("path") or ""):
            out.append((bb, t, c))
    return out


def u2u3(fb, chk, defs):
    for (sel, meth), (ioc, kind, cty, prov) in sorted(uapi.OPS.items()):
        key = "%s::%s" % (sel, meth)
        fs = find_op(fb, sel, meth)
        if len(fs) != 1:
            chk.bad("U2", key, "operation not found (%d candidates)" % len(fs))
            continue
        f = fs[0]
        chk.fn_seen(f)
        m = must_of(fb, f)
        ss = ioctl_sites(f)
        if len(ss) != 1:
            chk.bad("U2", key, "%s contains %d ioctl calls; exactly one is required" % (f.short, len(ss)), f.loc())
            continue
        bb, t, c = ss[0]
        args = m.sym.arg_terms(bb)
        req = args[1]
        rname = req[1] if req[0] == "call" else show(req)
        probs = []
        if rname != ioc:
            probs.append("issues %s, the UAPI request for this operation is %s" % (rname, ioc))
        wk = IOCTL_WRAPPERS[c["name"]]
        if wk != kind:
            probs.append("uses wrapper %s (%s); the request's direction needs '%s'" % (c["name"], wk, kind))
        if cty and len(t["atys"]) > 2:
            aty = _concrete_aty(f, m.sym, t, 2)
            if cty not in aty and not (cty in ("vhost_memory",) and "char" in aty) \
                    and not (cty == "vhost_vdpa_config" and "vhost_vdpa_config" in aty):
                probs.append("argument type %s, UAPI type %s" % (aty, cty))
        # the function's result is ioctl_result(<this ioctl's return>, ..)
        ret = m.sym.local(0)
        call = m.sym.call_at(bb)
        alts = list(ret[2]) if ret[0] == "phi" else [ret]
        from vlint.paths import ret_okness
        def _is_ir(x):
            return x[0] == "call" and x[1] == "ioctl_result" and any(s == call for s in subterms(x[2][0]))
        good = [a for a in alts if _is_ir(a)]
        # `ioctl_result(ret, ..)?; ...; Ok(v)`: the error is the ioctl's (re-raised by `?`), success is returned only after
        # ioctl_result reported success
        reraised = [a for a in alts if a[0] == "from_residual" and any(_is_ir(s) for s in subterms(a))]
        # `ioctl_result(ret, v).map(|v| ..)`: the Err arm passes the ioctl's error on unchanged
        reraised += [a for a in alts if a[0] == "agg" and a[2] == "Err" and len(a[3]) == 1 and a[3][0][1][0] == "field"
                     and a[3][0][1][1][0] == "down" and a[3][0][1][1][2] == "Err" and _is_ir(a[3][0][1][1][1])]
        if reraised and not good:
            dflt = m.sym.defs.get(0, [])
            ok_after = False
            for d in dflt:
                if d[0] != "assign":
                    continue
                v = m.sym.rvalue(d[3])
                if v[0] == "agg" and v[2] == "Ok":
                    ok_after = any(a[0] == "ok" and _is_ir(a[1]) for a in m.atoms_at(d[1]))
            if ok_after:
                good = reraised
        others = [a for a in alts if a not in good and not (a[0] == "agg" and a[2] == "Ok" and reraised and good is reraised)]
        res_ok = len(good) >= 1 and all(ret_okness(a) is False for a in others)
        if not res_ok:
            probs.append("result is %s, not ioctl_result of the ioctl's return code (early error returns excepted)" % show(ret)[:80])
        chk.check(not probs, "U2", key, "%s via %s" % (ioc, c["name"]), "%s: %s" % (f.short, "; ".join(probs)),
                  f.loc(t["line"]))
        # ---- U3
        if prov:
            arg = args[2]
            a = arg
            while a[0] in ("ref", "deref"):
                a = a[1]
            if "" in prov:
                r, chain = peel(a, through_calls={"into", "from", "as_raw_fd", "clone"})
                nm = r[2] if r[0] == "param" else (show(r))
                if r[0] == "phi":
                    nm = "running" if sel == "Vsock" else nm
                    # `if running {1} else {0}`: both constants present
                    vals = sorted(x[1] for x in r[2] if x[0] == "const")
                    ok = vals == [0, 1]
                else:
                    ok = nm == prov[""]
                    if not ok and r[0] == "param" and f.argc == 2:
                        ok = True   # the operation has a single value parameter: it is the argument whatever it is called
                chk.check(ok, "U3", key + ":arg", "argument <- %s" % nm,
                          "%s passes %s to %s; the UAPI argument is the caller's `%s`" % (f.short, show(arg)[:60], ioc, prov[""]),
                          f.loc(t["line"]))
            elif a[0] == "agg":
                fields = dict(a[3])
                for fld, src in sorted(prov.items()):
                    v = fields.get(fld)
                    if v is None:
                        chk.bad("U3", "%s:%s" % (key, fld), "field %s not initialised" % fld, f.loc(t["line"]))
                        continue
                    alts = list(v[2]) if v[0] == "phi" else [v]
                    nms, chain, consts = set(), [], []
                    for alt in alts:
                        r, ch = peel(alt, through_calls={"into", "from", "as_raw_fd", "clone", "map_or"})
                        chain += [c2 for c2 in ch if c2 not in chain]
                        while r[0] in ("down", "unwrap", "field") and r[0] != "param" and len(alts) > 1:
                            # payload of an Option parameter: (fd as Some).0
                            r2, ch2 = peel(r[1])
                            if r2 == r:
                                break
                            r = r2
                        if r[0] == "const" and len(alts) > 1:
                            consts.append(r[1])
                        elif r[0] == "cname" and isinstance(r[2], int) and len(alts) > 1:
                            consts.append(r[2] - (1 << 32) if r[2] >= (1 << 31) and r[3] in ("i32", "c_int") else r[2])
                        elif r[0] == "param":
                            nms.add(r[2])
                        elif r[0] == "field":
                            nms.add(r[2])
                        elif r[0] == "call":
                            n2 = r[1]
                            if r[1] == "map_or":
                                rr, _ = peel(r[2][0])
                                n2 = rr[2] if rr[0] == "param" else n2
                            nms.add(n2)
                        else:
                            nms.add(None)
                    # an absent Option parameter is encoded as -1 (the UAPI's "no descriptor")
                    if consts and not all(c in (-1, 0xffffffff) for c in consts):
                        nms.add("<const %s>" % consts)
                    nm = next(iter(nms)) if len(nms) == 1 else (tuple(sorted(str(x) for x in nms)) if nms else None)
                    from rules.c01 import _narrows
                    narrowing = [c2 for c2 in chain if c2.startswith("cast:") and _narrows(c2) and "usize->u32" not in c2]
                    chk.check(nm == src and not narrowing, "U3", "%s:%s" % (key, fld), "%s <- %s %s" % (fld, nm, chain),
                              "%s fills %s.%s from %s; the UAPI field carries the caller's `%s`"
                              % (f.short, cty, fld, show(v)[:60], src), f.loc(t["line"]))
            else:
                chk.bad("U3", key + ":arg", "cannot resolve the ioctl argument: %s" % show(arg)[:80], f.loc(t["line"]))
        if (sel, meth) in uapi.RETURNS:
            # ioctl_result(ret, L.field) where &mut L was passed to the ioctl
            want = uapi.RETURNS[(sel, meth)]
            arg_op = t["args"][2]
            passed = _borrowed_local(m.sym, arg_op)
            ok = False
            for rb, rt, rc in sites(f, name="ioctl_result"):
                op = rt["args"][1]
                for _ in range(4):
                    if op["k"] not in ("copy", "move"):
                        break
                    if op["pl"]["l"] == passed and op["pl"]["p"] and op["pl"]["p"][-1].get("n") == want:
                        ok = True
                        break
                    ds = m.sym.defs.get(op["pl"]["l"], [])
                    if op["pl"]["p"] or len(ds) != 1 or ds[0][0] != "assign" or ds[0][3]["k"] != "use":
                        break
                    op = ds[0][3]["op"]
            if not ok:
                # `ioctl_result(ret, L).map(|v| v.field)`: the whole struct goes through ioctl_result, the field is taken from
                # its Ok payload
                whole = False
                for rb, rt, rc in sites(f, name="ioctl_result"):
                    op = rt["args"][1]
                    for _ in range(4):
                        if op["k"] not in ("copy", "move"):
                            break
                        if op["pl"]["l"] == passed and not op["pl"]["p"]:
                            whole = True
                            break
                        ds = m.sym.defs.get(op["pl"]["l"], [])
                        if op["pl"]["p"] or len(ds) != 1 or ds[0][0] != "assign" or ds[0][3]["k"] != "use":
                            break
                        op = ds[0][3]["op"]
                ret_ = m.sym.local(0)
                for a_ in (ret_[2] if ret_[0] == "phi" else [ret_]):
                    if whole and a_[0] == "agg" and a_[2] == "Ok" and len(a_[3]) == 1:
                        v_ = a_[3][0][1]
                        if v_[0] == "field" and v_[2] == want and any(s_[0] == "call" and s_[1] == "ioctl_result" for s_ in subterms(v_)):
                            ok = True
            chk.check(ok, "U3", key + ":result", "returns .%s of the struct the kernel wrote" % want,
                      "%s does not return field %s of the struct passed to the kernel" % (f.short, want), f.loc())


from vlint.util import concrete_arg_type as _concrete_aty  # noqa: E402


def _borrowed_local(sym, op):
    """Local L such that operand is `&mut L` / `&L` (through one temp)."""
    if op["k"] not in ("copy", "move"):
        return None
    l = op["pl"]["l"]
    for _ in range(4):
        ds = sym.defs.get(l, [])
        if len(ds) != 1 or ds[0][0] != "assign":
            return None
        rv = ds[0][3]
        if rv["k"] in ("ref", "rawptr"):
            if rv["pl"]["p"] and rv["pl"]["p"][0]["k"] == "deref":
                l = rv["pl"]["l"]
                continue
            return rv["pl"]["l"]
        if rv["k"] == "use" and rv["op"]["k"] in ("copy", "move"):
            l = rv["op"]["pl"]["l"]
            continue
        return None
    return None


def u3_vring_addr(fb, chk):
    fs = fb.find(name="to_vhost_vring_addr", self_adt="VringConfigData")
    if len(fs) != 1:
        chk.anchor_missing("U3", "VringConfigData::to_vhost_vring_addr")
        return
    f = fs[0]
    chk.fn_seen(f)
    m = must_of(fb, f)
    table = {"index": ("queue_index", False), "flags": ("flags", False), "desc_user_addr": ("desc_table_addr", True),
             "used_user_addr": ("used_ring_addr", True), "avail_user_addr": ("avail_ring_addr", True),
             "log_guest_addr": ("get_log_addr", False)}
    cfg_fields = {"desc_table_addr", "used_ring_addr", "avail_ring_addr", "flags", "log_addr", "queue_size", "queue_max_size"}
    agg = None
    for bi, b in enumerate(f.blocks):
        for st in b["stmts"]:
            if st["k"] == "assign" and st["rv"]["k"] == "agg" and st["rv"].get("adt", "").endswith("::vhost_vring_addr"):
                agg = m.sym.rvalue(st["rv"])
    if agg is None:
        chk.bad("U3", "to_vhost_vring_addr", "constructed vhost_vring_addr not found", f.loc())
        return
    for fld, v in agg[3]:
        src, translated = table[fld]
        names = set()
        for s2 in subterms(v):
            if s2[0] == "field" and s2[2] in cfg_fields:
                names.add(s2[2])
            if s2[0] == "param" and s2[2] == "queue_index":
                names.add("queue_index")
            if s2[0] == "call" and s2[1] == "get_log_addr":
                names.add("get_log_addr")
        has_tr = any(s2[0] == "call" and s2[1] == "get_host_address" for s2 in subterms(v))
        chk.check(names == {src} and has_tr == translated, "U3", "to_vhost_vring_addr:" + fld,
                  "%s <- %s%s" % (fld, src, " (host address)" if translated else ""),
                  "to_vhost_vring_addr fills %s from %s (host-translated: %s); the UAPI field carries %s%s"
                  % (fld, sorted(names), has_tr, src, " translated to a host address" if translated else " unchanged"), f.loc())


# ---------------------------------------------------------------------------- U4

IOTLB_W = {"iova": "iova", "size": "size", "uaddr": "userspace_addr", "perm": "perm", "type_": "msg_type"}
IOTLB_R = {v: k for k, v in IOTLB_W.items()}


def u4_acked(fb, chk):
    """The acknowledged backend features (which select the IOTLB layout) are what the kernel accepted: recorded only
    after VHOST_SET_BACKEND_FEATURES succeeded, with the value that was passed to it."""
    fs = [f for f in fb.find(name="set_backend_features") if "vhost_kern" in f.key and f.blocks]
    if not fs:
        chk.anchor_missing("U4", "set_backend_features (kernel features trait)")
        return
    for f in fs:
        chk.fn_seen(f)
        m = must_of(fb, f)
        io = [(bb, t, c) for bb, t, c in sites(f, name={"ioctl_with_ref", "ioctl_with_mut_ref", "ioctl_with_val"})]
        st = [(bb, t, c) for bb, t, c in sites(f, name="set_backend_features_acked")]
        ok = len(io) == 1 and len(st) >= 1
        why = "expected one ioctl and a store of the acked features (found %d / %d)" % (len(io), len(st))
        if ok:
            call = m.sym.call_at(io[0][0])
            ioarg = m.sym.arg_terms(io[0][0])[2]
            for bb, t, c in st:
                atoms = m.atoms_at(bb)
                succ = False
                for a in atoms:
                    if a[0] == "cmp" and a[2] == call or (a[0] == "cmp" and a[2][0] == "call" and a[2][1] == call[1] and a[2][3] == call[3]):
                        v = const_eval(fb, m.sym, a[3])
                        if (a[1] == "Ge" and v == 0) or (a[1] == "Gt" and v == -1) or (a[1] == "Eq" and v == 0):
                            succ = True
                    if a[0] == "ok" and a[1][0] == "call" and a[1][1] == "ioctl_result" and any(x == call for x in subterms(a[1])):
                        succ = True
                val = m.sym.arg_terms(bb)[1]
                same = root_of(val) == root_of(ioarg)
                if not succ:
                    ok = False
                    why = "the acknowledged backend features are recorded without the fact that the ioctl succeeded (ret >= 0)"
                elif not same:
                    ok = False
                    why = "the recorded value %s is not the value passed to the ioctl (%s)" % (show(val)[:40], show(ioarg)[:40])
        chk.check(ok, "U4", "acked:%s" % f.short, "acked features := the value the kernel accepted (stored under ret >= 0)",
                  "%s: %s; after a refused VHOST_SET_BACKEND_FEATURES the IOTLB messages would be written in a layout the kernel "
                  "did not acknowledge" % (f.short, why), f.loc())


def _atom_on_field(fb, sym, a, fld, value):
    """Truth of atom `a` when the IOTLB field `fld` has `value` (None: the atom does not constrain that field / unknown)."""
    def is_fld(t):
        while t[0] in ("ref", "deref", "cast"):
            t = t[1]
        return t[0] == "field" and t[2] == fld and "iotlb" in show(t)
    if a[0] == "cmp":
        for op, x, y in ((a[1], a[2], a[3]), ({"Lt": "Gt", "Gt": "Lt", "Le": "Ge", "Ge": "Le", "Eq": "Eq", "Ne": "Ne"}[a[1]], a[3], a[2])):
            if is_fld(x):
                c = const_eval(fb, sym, y)
                if isinstance(c, int):
                    return {"Eq": value == c, "Ne": value != c, "Lt": value < c, "Le": value <= c, "Gt": value > c, "Ge": value >= c}[op]
        return None
    if a[0] == "in" and isinstance(a[1], tuple) and is_fld(a[1]):
        return (value in a[2]) != a[3]
    if a[0] in ("true", "false") and a[1][0] == "call" and a[1][1] == "contains" and len(a[1][2]) == 2 and is_fld(a[1][2][1]):
        rng = a[1][2][0]
        while rng[0] in ("ref", "deref"):
            rng = rng[1]
        lo = hi = None
        incl = True
        if rng[0] == "call" and rng[1] == "new" and len(rng[2]) == 2:
            lo, hi = const_eval(fb, sym, rng[2][0]), const_eval(fb, sym, rng[2][1])
        elif rng[0] == "agg" and len(rng[3]) == 2:
            d = dict(rng[3])
            lo, hi = const_eval(fb, sym, d.get("start", ("unknown",))), const_eval(fb, sym, d.get("end", ("unknown",)))
            incl = False
        if isinstance(lo, int) and isinstance(hi, int):
            inside = lo <= value <= hi if incl else lo <= value < hi
            return inside == (a[0] == "true")
    return None


def u4_more(fb, chk):
    # the setter of the acknowledged set stores exactly the value given (a renegotiation replaces the previous set)
    for f in fb.find(name="set_backend_features_acked"):
        if not f.blocks or "vhost_kern" not in f.key:
            continue
        chk.fn_seen(f)
        m = must_of(fb, f)
        ws = field_writes(f)
        ok = len(ws) == 1
        detail = "no single field store"
        for w in ws:
            v = m.sym.rvalue(w["rv"])
            detail = show(v)[:60]
            ok = ok and v[0] == "param" and f.arg_names()[1] == v[2]
        chk.check(ok, "U4", "acked-setter:%s" % f.short, "acked := features",
                  "%s stores %s: the acknowledged backend features are not replaced by the newly acknowledged set (a renegotiation without "
                  "MSG_V2 keeps writing the v2 layout)" % (f.short, detail), f.loc())
    # the flexible-array wrapper of vhost_vdpa_config does not cap the length below what the UAPI's u32 `len` allows
    ml = [f for f in fb.find(name="max_len") if "vhost_vdpa_config" in (f.self_ty or f.key)]
    for f in ml:
        m = must_of(fb, f)
        v = const_eval(fb, m.sym, m.sym.local(0))
        chk.check(v is not None and v >= 0xFFFFFFFF, "U3", "vdpa-config:max-len", "max_len() = u32::MAX",
                  "the config-space wrapper caps the buffer length at %s: get_config/set_config with a longer (valid) buffer fail before "
                  "the ioctl is issued" % v, f.loc())
    if not ml:
        chk.anchor_missing("U3", "FamStruct::max_len for vhost_vdpa_config")


def u4(fb, chk):
    u4_acked(fb, chk)
    u4_more(fb, chk)
    fs = [f for f in fb.find(name="send_iotlb_msg") if "vhost_kern::" in f.key]
    if len(fs) != 1:
        chk.anchor_missing("U4", "send_iotlb_msg (kernel impl)")
        return
    f = fs[0]
    chk.fn_seen(f)
    m = must_of(fb, f)
    v2bit = 1 << fb.const_value("vhost_binding::VHOST_BACKEND_F_IOTLB_MSG_V2")
    writes = sites(f, name="write")
    chk.check(len(writes) == 2, "U4", "writer:sites", "two write(2) sites (v1, v2)",
              "expected two write sites, found %d" % len(writes), f.loc())
    for bb, t, c in writes:
        args = m.sym.arg_terms(bb)
        n = const_eval(fb, m.sym, args[2])
        ptr_ty = None
        for s in subterms(args[1]):
            if s[0] == "cast" and "vhost_msg" in s[3]:
                ptr_ty = "vhost_msg_v2" if "vhost_msg_v2" in s[3] else "vhost_msg"
        # must-fact on the acked feature bit
        pos = neg = False
        for a in m.atoms_at(bb):
            if a[0] == "cmp" and a[2][0] == "bin" and a[2][1] == "BitAnd" and a[3][0] == "const" and a[3][1] == 0:
                mask = const_eval(fb, m.sym, a[2][3])
                src_ok = any(s[0] == "call" and s[1] == "get_backend_features_acked" for s in subterms(a[2][2]))
                if mask == v2bit and src_ok:
                    if a[1] == "Ne":
                        pos = True
                    if a[1] == "Eq":
                        neg = True
        want = "vhost_msg_v2" if pos else ("vhost_msg" if neg else None)
        r = binding_struct(fb, want) if want else None
        key = "writer:%s" % (ptr_ty or "?")
        chk.check(want is not None and ptr_ty == want and r is not None and n == r["size"], "U4", key,
                  "%s written (%s bytes) under acked&%#x %s 0" % (ptr_ty, n, v2bit, "!=" if pos else "=="),
                  "write of %s with length %s under v2-bit facts pos=%s neg=%s (expected struct %s of size %s)"
                  % (ptr_ty, n, pos, neg, want, r["size"] if r else None), f.loc(t["line"]))
    # field provenance of the writer
    nw = 0
    for w in field_writes(f):
        if w["field"] in IOTLB_W and (w.get("leaf_adt") or w["adt"] or "").endswith("vhost_iotlb_msg"):
            nw += 1
            rv = m.sym.rvalue(w["rv"])
            r, chain = peel(rv)
            nm = r[2] if r[0] == "field" else show(r)
            chk.check(nm == IOTLB_W[w["field"]], "U4", "writer:field:%s@%d" % (w["field"], nw),
                      "%s <- msg.%s" % (w["field"], nm),
                      "IOTLB field %s is filled from %s; the UAPI field carries msg.%s" % (w["field"], show(rv)[:60], IOTLB_W[w["field"]]),
                      f.loc(w["line"]))
    chk.check(nw == 10, "U4", "writer:fields", "10 field stores (5 per layout)", "expected 10 IOTLB field stores, found %d" % nw, f.loc())
    # type tags of the two layouts
    for bi, b in enumerate(f.blocks):
        for st in b["stmts"]:
            if st["k"] == "assign" and st["rv"]["k"] == "agg" and st["rv"].get("adt", "").split("::")[-1] in ("vhost_msg", "vhost_msg_v2"):
                adt = st["rv"]["adt"].split("::")[-1]
                flds = dict(zip(st["rv"]["fields"], st["rv"]["ops"]))
                tv = const_eval(fb, m.sym, m.sym.operand(flds["type_"])) if "type_" in flds else None
                want = fb.const_value("vhost_binding::VHOST_IOTLB_MSG_V2" if adt == "vhost_msg_v2" else "vhost_binding::VHOST_IOTLB_MSG")
                chk.check(tv == want, "U4", "writer:tag:" + adt, "type tag %s" % tv,
                          "%s is tagged with type %s, the UAPI tag is %s" % (adt, tv, want), f.loc(st["line"]))
    # parsers
    for adt in ("vhost_msg", "vhost_msg_v2"):
        ps = [p for p in fb.find(name="parse") if (p.self_ty or "").endswith("vhost_binding::" + adt)]
        if len(ps) != 1:
            chk.anchor_missing("U4", "parser for " + adt)
            continue
        p = ps[0]
        chk.fn_seen(p)
        pm = must_of(fb, p)
        tag = fb.const_value("vhost_binding::VHOST_IOTLB_MSG_V2" if adt == "vhost_msg_v2" else "vhost_binding::VHOST_IOTLB_MSG")
        cnt = 0
        for w in field_writes(p):
            if w["field"] not in IOTLB_R or not (w.get("leaf_adt") or w["adt"] or "").endswith("VhostIotlbMsg"):
                continue
            cnt += 1
            rv = pm.sym.rvalue(w["rv"])
            r, chain = peel(rv, through_calls={"transmute", "into", "from"})
            nm = r[2] if r[0] == "field" else show(r)
            tagged = False
            for a in pm.atoms_at(w["bb"]):
                if a[0] == "cmp" and a[1] == "Eq":
                    _, fn_ = field_of(a[2])
                    if fn_ == "type_" and const_eval(fb, pm.sym, a[3]) == tag:
                        tagged = True
            chk.check(nm == IOTLB_R[w["field"]] and tagged, "U4", "parser:%s:%s" % (adt, w["field"]),
                      "msg.%s <- iotlb.%s under type == %d" % (w["field"], nm, tag),
                      "parser of %s stores %s into msg.%s (expected iotlb.%s, under the type-tag check %s)"
                      % (adt, show(rv)[:60], w["field"], IOTLB_R[w["field"]], tagged), p.loc(w["line"]))
        chk.check(cnt == 5, "U4", "parser:%s:fields" % adt, "5 fields parsed", "expected 5 parsed fields, found %d" % cnt, p.loc())
        # every message type / permission the UAPI defines parses back: the facts under which the fields are stored must
        # hold for each discriminant of VhostIotlbType and VhostAccess (only the undefined value 0 of `type` may be refused)
        stores = [w for w in field_writes(p) if w["field"] in IOTLB_R and (w.get("leaf_adt") or w["adt"] or "").endswith("VhostIotlbMsg")]
        if stores:
            atoms = pm.atoms_at(stores[0]["bb"])
            for fld, enum in (("type_", "VhostIotlbType"), ("perm", "VhostAccess")):
                try:
                    vals = sorted(set(fb.enum_discriminants("backend::" + enum).values()))
                    if fld == "type_":
                        vals = [v for v in vals if v != 0]   # 0 = Empty, "not valid"
                except Exception:
                    vals = []
                refused = []
                for d in vals:
                    for a in atoms:
                        h = _atom_on_field(fb, pm.sym, a, fld, d)
                        if h is False:
                            refused.append(d)
                            break
                chk.check(bool(vals) and not refused, "U4", "parser:%s:accepts-all-%s" % (adt, fld), "all %d defined values of %s parse" % (len(vals), enum),
                          "parser of %s refuses the defined %s value(s) %s: a correctly laid-out message of that kind does not parse back"
                          % (adt, enum, refused or "(enum not found)"), p.loc())


# ---------------------------------------------------------------------------- U5

def u5(fb, chk):
    # (a) ioctl only under is_valid
    for sel in ("VhostBackend", "VhostKernVdpa"):
        fs = find_op(fb, sel, "set_vring_addr")
        if len(fs) != 1:
            continue
        f = fs[0]
        m = must_of(fb, f)
        for bb, t, c in ioctl_sites(f):
            ok = any(a[0] == "true" and a[1][0] == "call" and a[1][1] == "is_valid" for a in m.atoms_at(bb))
            chk.check(ok, "U5", "%s::set_vring_addr:guard" % sel, "ioctl dominated by is_valid(config) == true",
                      "%s issues VHOST_SET_VRING_ADDR without the must-fact is_valid(config_data)" % f.short, f.loc(t["line"]))
    # (b) accepting paths of both is_valid implementations
    impls = [f for f in fb.find(name="is_valid") if (f.trait or "").endswith("::VhostKernBackend")]
    if len(impls) < 2:
        chk.anchor_missing("U5", "VhostKernBackend::is_valid implementations", "found %d" % len(impls))
    for f in impls:
        chk.fn_seen(f)
        who = "default" if f.rec.get("trait_decl") else (f.self_adt or "").split("::")[-1]
        summ = Summariser(fb)
        try:
            outs, sym = summ.summarise(f)
        except TooManyPaths as e:
            chk.bad("U5", "is_valid:%s" % who, "too many paths: %s" % e, f.loc())
            continue
        chk.paths_enumerated += summ.paths_enumerated
        acc = [o for o in outs if o.ret == ("bool", True)]
        und = [o for o in outs if o.ret is None or o.ret[0] != "bool"]
        if und or not acc:
            chk.bad("U5", "is_valid:%s" % who, "cannot decide the validator's paths (undecided results: %d, accepting: %d)" % (len(und), len(acc)), f.loc())
            continue
        need = {"size<=max": 0, "size!=0": 0, "pow2": 0, "log": 0}
        if who == "default":
            # the kernel backends: each ring part [addr, addr + len) lies in guest memory, len by the virtio layout
            need.update({"desc-range": 0, "avail-range": 0, "used-range": 0})
        for o in acc:
            got = set()
            for a in o.atoms:
                if a[0] == "true" and a[1][0] == "call" and a[1][1] == "address_in_range":
                    for s_ in subterms(a[1]):
                        if s_[0] == "call" and s_[1] == "checked_add" and len(s_[2]) == 2:
                            fld = None
                            for x in subterms(s_[2][0]):
                                if x[0] == "field" and x[2] in RING_PARTS:
                                    fld = x[2]
                            qs = [x for x in subterms(s_[2][1]) if x[0] == "field" and x[2] == "queue_size"]
                            if fld and qs:
                                part, mul, base = RING_PARTS[fld]
                                vals = [const_eval(fb, sym, s_[2][1], env={qs[0]: q, ("deref", qs[0]): q}) for q in (1, 3, 256)]
                                if vals == [base + mul * q for q in (1, 3, 256)]:
                                    got.add(part)
            for a in o.atoms:
                if a[0] == "cmp":
                    la, lb = _fname(a[2]), _fname(a[3])
                    if a[1] in ("Le",) and la == "queue_size" and lb == "queue_max_size":
                        got.add("size<=max")
                    if a[1] in ("Ge",) and la == "queue_max_size" and lb == "queue_size":
                        got.add("size<=max")
                    if a[1] == "Ne" and la == "queue_size" and a[3][0] == "const" and a[3][1] == 0:
                        got.add("size!=0")
                    if a[1] in ("Ge", "Gt") and la == "queue_size" and a[3][0] == "const" and a[3][1] in (0, 1):
                        if (a[1] == "Ge" and a[3][1] == 1) or (a[1] == "Gt" and a[3][1] == 0):
                            got.add("size!=0")
                    if a[1] == "Eq" and a[3][0] == "const" and a[3][1] == 0 and a[2][0] == "bin" and a[2][1] == "BitAnd":
                        x, y = a[2][2], a[2][3]
                        for p, q in ((x, y), (y, x)):
                            if _fname(p) == "queue_size" and q[0] == "bin" and q[1] == "Sub" and _fname(q[2]) == "queue_size" \
                                    and q[3][0] == "const" and q[3][1] == 1:
                                got.add("pow2")
                        for p, q in ((x, y), (y, x)):
                            if _fname(p) == "flags" and const_eval(fb, sym, q) == 1:
                                got.add("log")
                if a[0] == "ok" and _fname(a[1]) == "log_addr":
                    got.add("log")
                if a[0] == "true" and a[1][0] == "call" and a[1][1] == "is_power_of_two" and _fname(a[1][2][0]) == "queue_size":
                    got.add("pow2")
                    got.add("size!=0")
            for k in need:
                if k in got:
                    need[k] += 1
        for k, cnt in sorted(need.items()):
            chk.check(cnt == len(acc), "U5", "is_valid:%s:%s" % (who, k),
                      "all %d accepting paths carry the test" % len(acc),
                      "is_valid (%s) accepts a ring configuration on %d of %d paths without testing `%s`"
                      % (who, len(acc) - cnt, len(acc), k), f.loc())


RING_PARTS = {"desc_table_addr": ("desc-range", 16, 0), "avail_ring_addr": ("avail-range", 2, 6), "used_ring_addr": ("used-range", 8, 6)}


def _fname(t):
    while t[0] in ("ref", "deref", "cast"):
        t = t[1]
    if t[0] == "field":
        return t[2]
    if t[0] == "param":
        return t[2]
    return None


# ---------------------------------------------------------------------------- U6 / U7

def u6u7(fb, chk):
    chk.rule("U6", "the kernel memory table takes 1 ..= VHOST_MAX_MEMORY_REGIONS regions: exactly that range reaches the ioctl")
    chk.rule("U7", "vDPA dma_map: a read-only mapping is announced with VHOST_ACCESS_RO, a writable one with VHOST_ACCESS_RW")
    fs = find_op(fb, "VhostBackend", "set_mem_table")
    if len(fs) == 1:
        f = fs[0]
        m = must_of(fb, f)
        for bb, t, c in ioctl_sites(f):
            atoms = m.atoms_at(bb)
            nonempty = any(a[0] == "false" and a[1][0] == "call" and a[1][1] == "is_empty" for a in atoms) or \
                any(a[0] == "cmp" and a[1] in ("Ge", "Ne", "Gt") and "len(regions)" in show(a[2]) and const_eval(fb, m.sym, a[3]) in (0, 1) for a in atoms)
            ub = None
            for a in atoms:
                if a[0] == "cmp" and a[1] in ("Le", "Lt") and "len(regions)" in show(a[2]):
                    k = const_eval(fb, m.sym, a[3])
                    if k is not None:
                        k = k if a[1] == "Le" else k - 1
                        ub = k if ub is None else min(ub, k)
            want = fb.const_value("vhost::backend::VHOST_MAX_MEMORY_REGIONS") if hasattr(fb, "const_value") else 255
            chk.check(nonempty and ub == want, "U6", "set_mem_table:region-count", "0 < regions.len() <= %s at the ioctl" % want,
                      "VhostBackend::set_mem_table issues VHOST_SET_MEM_TABLE for region counts up to %s (non-empty required: %s); the UAPI "
                      "limit is %s: a legal table is refused or an illegal one passed on" % (ub, nonempty, want), f.loc(t["line"]))
        # each kernel table entry carries the caller's region values unchanged
        want_src = {"guest_phys_addr": "guest_phys_addr", "memory_size": "memory_size", "userspace_addr": "userspace_addr"}
        n_ent = 0
        # the entry may be built in the function itself or in a closure of it (`regions.iter().map(|r| vhost_memory_region {..})`)
        holders = [(f, m.sym)] + [(g_, Sym(g_, fb)) for g_ in fb.fns.values() if g_.rec.get("dk") == "Closure" and g_.key.startswith(f.key + "::")]
        for hf_, hsym_ in holders:
          for b_ in hf_.blocks:
            if b_["cleanup"]:
                continue
            for st_ in b_["stmts"]:
                if st_["k"] == "assign" and st_["rv"]["k"] == "agg" and st_["rv"].get("ak") == "adt" and (st_["rv"].get("adt") or "").endswith("vhost_memory_region"):
                    n_ent += 1
                    v_ = hsym_.rvalue(st_["rv"])
                    for fld, val in v_[3]:
                        if fld not in want_src:
                            continue
                        x = val
                        while x[0] in ("ref", "deref", "cast"):
                            x = x[1]
                        okf = x[0] == "field" and x[2] == want_src[fld] and not any(y[0] == "bin" for y in subterms(val))
                        chk.check(okf, "U3", "set_mem_table:region:%s" % fld, "%s <- region.%s" % (fld, want_src[fld]),
                                  "VhostBackend::set_mem_table fills vhost_memory_region.%s from `%s`; the UAPI field carries the caller's "
                                  "region.%s unchanged" % (fld, show(val)[:70], want_src[fld]), f.loc(st_.get("line")))
        if n_ent == 0:
            chk.bad("U3", "set_mem_table:region", "no vhost_memory_region entry is built in set_mem_table", f.loc())
    else:
        chk.anchor_missing("U6", "VhostBackend::set_mem_table (kernel)")
    gs = [x for x in fb.fns.values() if x.name == "dma_map" and "vhost_kern" in x.key and x.crate == "vhost"]
    for g in gs:
        gm = must_of(fb, g)
        for bb, t, c in sites(g, name="send_iotlb_msg"):
            msg = gm.sym.arg_terms(bb)[1]
            perm = None
            for s_ in subterms(msg):
                if s_[0] == "agg" and s_[1].endswith("VhostIotlbMsg"):
                    perm = dict(s_[3]).get("perm")
            good = False
            detail = show(perm)[:80] if perm else None
            if perm is not None and perm[0] == "phi" and len(perm) >= 4:
                mp = {}
                for alt, db in zip(perm[2], perm[3]):
                    if alt[0] != "agg" or not isinstance(db, int):
                        continue
                    for a in gm.atoms_at(db):
                        if a[0] in ("true", "false") and a[1][0] == "param" and a[1][2] == "readonly":
                            mp[a[0] == "true"] = alt[2]
                        if a[0] == "in" and a[1][0] == "param" and a[1][2] == "readonly" and len(a[2]) == 1:
                            mp[bool(next(iter(a[2]))) != bool(a[3])] = alt[2]
                good = mp == {True: "ReadOnly", False: "ReadWrite"}
                detail = str(mp)
            chk.check(good, "U7", "dma_map:perm", "readonly -> ReadOnly, otherwise ReadWrite",
                      "VhostKernVdpa::dma_map announces the mapping with perm %s (readonly must give VHOST_ACCESS_RO, writable VHOST_ACCESS_RW)"
                      % detail, g.loc(t["line"]))
    if not gs:
        chk.anchor_missing("U7", "VhostKernVdpa::dma_map")
