"""Header values built by the reply-header constructors, read field by field along every success path
(vlint.patheval), so that the rules see the same value whether the header is made by `new(code, flags, size)`, by
copying another header and calling setters, or by a struct literal."""
from vlint.absint import const_eval
from vlint.facts import AnchorMissing
from vlint.paths import Summariser, ret_okness
from vlint.patheval import PathEval, fields_of, variant_of
from vlint.terms import show, subterms

HEADER_ADTS = ("::VhostUserMsgHeader", "::VhostUserGpuMsgHeader")


def header_methods(fb):
    return sorted({f.name for f in fb.orig_fns.values() if (f.self_adt or "").endswith(HEADER_ADTS) and not f.trait})


def built_headers(fb, fn):
    """For every success path of `fn` (returning a header or Result<header>): dict(request, flags, size, base, flags_value,
    sym, fn).  Field values are terms; `base` is the value the header was copied from (None for a fresh one)."""
    f = fb.inl(fn, inline_known=header_methods(fb) + ["default"])
    summ = Summariser(fb, no_inline=lambda g: True)
    outs, sym = summ.paths(f)
    pe = PathEval(fb, f)
    res = []
    for o in outs:
        if o.ret is None or ret_okness(o.ret) is False:
            continue
        st = pe.run(o.path)
        v = pe.read(st, {"l": 0, "p": []})
        base, flds = fields_of(v)
        if variant_of(v) in ("Ok", "Some") and "0" in flds:
            base, flds = fields_of(flds["0"])
        if not flds and base is None:
            continue
        def fld(n):
            if n in flds:
                return pe.term(flds[n])
            if base is not None:
                return ("field", pe.term(base), n)
            return None
        fl = _plain(fld("flags"))
        res.append({"request": fld("request"), "flags": fl, "size": fld("size"), "base": pe.term(base) if base is not None else None,
                    "flags_value": const_eval(fb, sym, fl) if fl is not None else None, "sym": sym, "fn": f, "path": o.path})
    return res


def _plain(t):
    """The value inside single-field wrapper structs (a private newtype around the flags word)."""
    while t is not None and t[0] == "over" and t[1] is None:
        real = [x for x in t[2] if not x[0].startswith("__")]
        if len(real) != 1 or real[0][0] != "0":
            break
        t = real[0][1]
    return t


def from_request(t, pname):
    """The term derives from parameter `pname` (the request header) only."""
    if t is None:
        return False
    roots = [s for s in subterms(t) if s[0] == "param"]
    return bool(roots) and all(r[2] == pname for r in roots)


def sent_headers(fb, fn, send_names=("send_message", "send_message_with_payload", "send_header")):
    """For every path of `fn` up to a socket send: dict(flags_value, flags, request, size, atoms, bb) of the header given to
    that send (argument 1), read field by field."""
    from vlint.util import sites
    f = fb.inl(fn, inline_known=header_methods(fb) + ["default"])
    ss = [bb for bb, t, c in sites(f, name=set(send_names)) if (c.get("self_adt") or "").endswith("::Endpoint")
          or "Endpoint" in (c.get("self_ty") or "")]
    if not ss:
        return f, []
    summ = Summariser(fb, no_inline=lambda g: True)
    outs, sym = summ.paths(f, stop=lambda b: b in ss)
    pe = PathEval(fb, f)
    res = []
    for o in outs:
        if o.ret is not None or not o.path or o.path[-1] not in ss:
            continue
        bb = o.path[-1]
        st = pe.run(o.path[:-1])
        # statements of the send block itself (argument temporaries) are evaluated too
        b = f.blocks[bb]
        for s_ in b["stmts"]:
            if s_["k"] == "assign":
                pe.write(st, s_["lhs"], pe.rvalue(st, s_["rv"]))
        harg = b["term"]["args"][1]
        v = pe.operand(st, harg)
        if isinstance(v, tuple) and v and v[0] == "ptr":
            v = pe.read(st, {"l": v[1], "p": list(v[2])})
        base, flds = fields_of(v)

        def fld(n):
            if n in flds:
                return pe.term(flds[n])
            if base is not None:
                return ("field", pe.term(base), n)
            return None
        fl = _plain(fld("flags"))
        res.append({"request": fld("request"), "flags": fl, "size": fld("size"), "flags_value": const_eval(fb, sym, fl) if fl is not None else None,
                    "atoms": o.atoms, "bb": bb, "sym": sym})
    return f, res
