"""C02 — frontend calls reach the backend handler with identical arguments and files."""
from spec import wire
from vlint.absint import const_eval
from vlint.cfg import CFG
from vlint.facts import callee_of, resolved, AnchorMissing
from vlint.gates import field_of, root_of
from vlint.terms import Sym, show, subterms, peel
from vlint.util import must_of, sites, enum_variant_of, option_shape
from . import common

EXPLANATION = (
    "Decides dispatch fidelity and local-rejection structure: (D1) in the backend server every request "
    "code's arm calls exactly the handler method the protocol names for it — once, never in a loop, no "
    "other handler method; (D2) each handler argument comes from the named field of the decoded body / "
    "payload / received file; (D3) every method of the library's Mutex/RwLock/RefCell/Arc adapters and of "
    "the ring wrappers delegates exactly once to the same-named inner method with its parameters in order "
    "and returns that call's result; (D4) the local rejection conditions of the frontend API are must-facts "
    "at the send site (exact relations); (D5) files handed to the handler are the received ones. With "
    "C01/W4-W5 this closes the value path caller -> wire -> handler field by field."
    " Also: (D6-D8) sibling rules C01/W5, C07/G1, C07/G5 for body fields, local feature gates and the frontend's negotiation record; (D9) the parallel region/descriptor lists of a memory table are written only by the context's own append; (D10-D12) C04/P1, C20/X2, C03/R3.")
NOT_DECIDED = ("Run-time equality of values (follows from D2+W5 under faithful ByteValued copies), fd identity at kernel level, "
               "the position of a call in a longer session.")

# handler method -> expected source of each argument (after the receiver)
#   'body.<field>' decoded body field, 'body' whole body, 'file' received descriptor,
#   'flags(<field>)' bitflags decoded from the field, 'payload' config payload,
#   'regions' / 'files' for SET_MEM_TABLE, 'enum(<field>)' request enum decoded from the field
ARGS = {
    "set_owner": [], "reset_owner": [], "reset_device": [], "get_features": [],
    "set_features": ["body.value"],
    "set_mem_table": ["regions", "files"],
    "set_vring_num": ["body.index", "body.num"],
    "set_vring_addr": ["body.index", "flags(flags)", "body.descriptor", "body.used", "body.available", "body.log"],
    "set_vring_base": ["body.index", "body.num"],
    "get_vring_base": ["body.index"],
    "set_vring_call": ["vringfd.index", "vringfd.file"],
    "set_vring_kick": ["vringfd.index", "vringfd.file"],
    "set_vring_err": ["vringfd.index", "vringfd.file"],
    "get_protocol_features": [],
    "set_protocol_features": ["body.value"],
    "get_queue_num": [],
    "set_vring_enable": ["body.index", "bool(num)"],
    "get_config": ["body.offset", "body.size", "flags(flags)"],
    "set_config": ["body.offset", "payload", "flags(flags)"],
    "set_backend_req_fd": ["socket"],
    "set_gpu_socket": ["socket"],
    "get_shared_object": ["body"],
    "get_inflight_fd": ["body"],
    "set_inflight_fd": ["body", "file"],
    "get_max_mem_slots": [],
    "add_mem_region": ["body", "file0"],
    "remove_mem_region": ["body"],
    "set_device_state_fd": ["enum(direction)", "enum(phase)", "file"],
    "check_device_state": [],
    "get_shmem_config": [],
    "postcopy_advice": [], "postcopy_listen": [], "postcopy_end": [],
    "set_log_base": ["body", "file"],
}

DECODERS = {"extract_request_body", "read_unaligned"}


def classify_arg(sym, t, fb=None):
    """Describe where a handler argument comes from."""
    orig = t
    while t[0] in ("ref", "deref"):
        t = t[1]
    # unwrap(X) from `?`
    names = {s[1] for s in subterms(t) if s[0] == "call"}
    # bitflags decoded from a field
    for s in subterms(t):
        if s[0] == "call" and s[1] == "from_bits" and len(s[2]) == 1:
            b, f = field_of(s[2][0])
            if f and _is_body(b):
                return "flags(%s)" % f
    if t[0] == "call" and t[1] == "from_stream":
        if {"from_raw_fd", "into_raw_fd", "take_single_file"} <= names:
            return "socket"
    for s in subterms(t):
        if s[0] == "call" and s[1] in ("try_into", "try_from") and s[2]:
            b, f = field_of(s[2][0])
            if f and _is_body(b):
                return "enum(%s)" % f
    if "handle_vring_fd_request" in names:
        b, f = field_of(t)
        if f == "0":
            return "vringfd.index"
        if f == "1":
            return "vringfd.file"
    if "swap_remove" in names and "recv_header" in names:
        idx = [s for s in subterms(t) if s[0] == "call" and s[1] == "swap_remove"]
        if idx and idx[0][2][1][0] == "const" and idx[0][2][1][1] == 0:
            return "file0"
    if "take_single_file" in names and ("recv_header" in names or any(s[0] == "param" and s[2] == "files" for s in subterms(t))):
        return "file"
    if t[0] == "call" and t[1] == "from_raw_parts":
        return "regions"
    if any(s[0] == "param" and s[2] == "files" for s in subterms(t)) and "ok_or" in names and "take_single_file" not in names:
        return "files"
    if t[0] == "call" and t[1] == "index" and any(s[0] == "agg" and s[1].endswith("RangeFrom") for s in subterms(t)):
        # &buf[size_of::<VhostUserConfig>()..]
        rf = [s for s in subterms(t) if s[0] == "agg" and s[1].endswith("RangeFrom")][0]
        start = rf[3][0][1]
        if start[0] == "call" and start[1] == "size_of":
            g = sym.info(start).get("gargs") or []
            if g and g[-1].endswith("VhostUserConfig"):
                return "payload"
        return "payload?(%s)" % show(start)
    b, f = field_of(t)
    if f is not None and _is_body(b):
        return "body.%s" % f
    if _is_body(t):
        return "body"
    if t[0] == "phi":
        vals = sorted(x[1] for x in t[2] if x[0] == "const" and isinstance(x[1], int))
        if vals == [0, 1]:
            return "bool"
    if t[0] == "bin" and t[1] in ("Eq", "Ne", "Gt", "Ge", "Lt", "Le"):
        # a flag computed from the body's `num` (its value per case is decided by _enable_mapping)
        for x, y in ((t[2], t[3]), (t[3], t[2])):
            while x[0] in ("cast", "ref", "deref"):
                x = x[1]
            b, f = field_of(x)
            if f == "num" and _is_body(b) and y[0] == "const":
                return "bool"
    return "?" + show(orig)[:60]


def _is_body(t):
    while t[0] in ("ref", "deref", "unwrap"):
        t = t[1]
    return t[0] == "call" and t[1] in DECODERS


def run(ctx, chk):
    fb = ctx.fb("full")
    chk.explanation = EXPLANATION
    chk.not_decided = NOT_DECIDED
    chk.cfgs["full"] = fb.hashes
    chk.rule("D1", "each request code's arm calls exactly the protocol's handler method, once, outside loops, and no other handler method")
    chk.rule("D2", "each handler argument comes from the named field of the decoded body / payload / received file")
    chk.rule("D3", "adapter methods delegate exactly once to the same-named inner method with their parameters in order and return its result")
    chk.rule("D4", "local rejection conditions of the frontend API are must-facts at the send site")
    chk.rule("D5", "the frontend passes descriptors exactly where the protocol prescribes; the handler receives the received files")
    run_on(fb, chk)
    # sibling rules that decide clauses of this property as well: the request body is composed from the caller's
    # arguments field by field (C01/W5); feature-gated operations are refused locally (C07/G1, frontend side); the
    # frontend's negotiation record equals what it sent, so it awaits exactly the acknowledgements the backend writes (C07/G5)
    from vlint.report import Renamed
    from . import c01, c07
    chk.rule("D9", "the parallel region / descriptor lists of a memory table are only ever extended together (no reordering or editing of one list)")
    d9(fb, chk)
    chk.rule("D6", "request bodies carry the caller's arguments field by field (C01/W5)")
    c01.w5(fb, Renamed(chk, {"W5": "D6"}))
    chk.rule("D7", "frontend operations tied to a feature put nothing on the wire before it is negotiated (C07/G1)")
    chk.rule("D8", "the frontend's record of the negotiated sets equals what it sent / received (C07/G5)")
    c07.run_on(fb, Renamed(chk, {"G1": ("D7", lambda k: "Frontend" in k), "G5": ("D8", lambda k: "frontend:" in k)}))
    from . import xlist
    xlist.apply("C02", fb, chk)
    n = lambda r: len([i for i in chk.instances if i[0] == r])
    chk.floor("D1", n("D1"), 34)
    chk.floor("D2", n("D2"), 35)
    chk.floor("D3", n("D3"), 150)
    chk.floor("D4", n("D4"), 24)


def thorough(ctx, chk):
    fb = ctx.fb("base")
    chk.cfgs["base"] = fb.hashes
    run_on(fb, chk, tag="base/")


def run_on(fb, chk, tag=""):
    d1d2(fb, chk, tag)
    d3(fb, chk, tag)
    d4(fb, chk, tag)


# ---------------------------------------------------------------------------- D1 / D2

def server_handler_calls(fb, server="BackendReqHandler", trait=common.BE_HANDLER_TRAIT):
    """{code: [(fn, bb, term, callee, via_helper)]} for every handler call reachable from the dispatch."""
    hr = common.dispatch_fn(fb, server)
    mh = must_of(fb, hr)
    out = {}
    helpers = [f for f in fb.find(self_adt=server) if not f.trait and f.key != hr.key]
    for bb, t, c in common.handler_sites(fb, hr, trait):
        for code in common.arm_codes(mh, bb):
            out.setdefault(code, []).append((hr, bb, t, c, None))
    for h in helpers:
        hs = common.handler_sites(fb, h, trait)
        if not hs:
            continue
        for hb, ht, hc in sites(hr, name=h.name, self_adt=server):
            for code in common.arm_codes(mh, hb):
                for bb, t, c in hs:
                    out.setdefault(code, []).append((h, bb, t, c, (hb, ht)))
    return hr, mh, out


def d1d2(fb, chk, tag):
    has_postcopy = bool(fb.find(name="postcopy_advise", self_adt="Frontend"))
    hr, mh, calls = server_handler_calls(fb)
    chk.fn_seen(hr)
    cfg = mh.cfg
    for code, row in sorted(wire.FRONTEND_TABLE.items()):
        if "B" not in row["impl"] or (row.get("feature") == "postcopy" and not has_postcopy):
            continue
        key = "%sarm:%s" % (tag, code)
        cs = calls.get(code, [])
        names = sorted({c["name"] for (_f, _b, _t, c, _v) in cs})
        probs = []
        if names != [row["handler"]]:
            probs.append("calls handler method(s) %s; the protocol's handler for %s is %s" % (names, code, row["handler"]))
        for (f, bb, t, c, via) in cs:
            fcfg = CFG(f)
            if fcfg.in_loop(bb):
                probs.append("handler call inside a loop")
            if via and cfg.in_loop(via[0]):
                probs.append("helper call inside a loop")
        # at most one handler call per path: no handler site reaches another in the same function
        same = {}
        for (f, bb, t, c, via) in cs:
            same.setdefault(f.key, []).append(bb)
        for k, bbs in same.items():
            fcfg = CFG(fb.fns[k])
            for a in bbs:
                for b2 in bbs:
                    if a != b2 and fcfg.can_reach(fcfg.succ[a][0] if fcfg.succ[a] else a, b2):
                        probs.append("two handler invocations on one path")
        chk.check(not probs, "D1", key, "-> %s" % row["handler"], "arm %s: %s" % (code, "; ".join(sorted(set(probs)))),
                  cs[0][0].loc(cs[0][2]["line"]) if cs else hr.loc())
        # D2
        for (f, bb, t, c, via) in cs:
            if c["name"] != row["handler"]:
                continue
            m = must_of(fb, f)
            args = m.sym.arg_terms(bb)[1:]
            want = ARGS.get(c["name"])
            if want is None:
                chk.bad("D2", key, "no provenance row for handler %s" % c["name"], f.loc(t["line"]))
                continue
            got = [classify_arg(m.sym, a, fb) for a in args]
            ok = len(got) == len(want)
            if ok:
                for g, w in zip(got, want):
                    if w == "bool(num)":
                        ok = ok and g == "bool" and _enable_mapping(fb, m, bb)
                    elif g != w:
                        ok = False
            chk.check(ok, "D2", key + ":" + c["name"], "args <- %s" % got,
                      "handler %s for %s receives %s; the protocol maps its arguments to %s" % (c["name"], code, got, want),
                      f.loc(t["line"]))
    # codes the table marks as not implemented must not dispatch to a handler
    for code in wire.NOT_IMPLEMENTED:
        chk.check(code not in calls, "D1", tag + "arm:" + code, "no handler (request not implemented)",
                  "request %s is dispatched to %s but has no row in the specification table"
                  % (code, [c["name"] for (_f, _b, _t, c, _v) in calls.get(code, [])]), hr.loc())
    # vring-fd helper: index = low 8 bits of the u64
    fs = fb.find(name="handle_vring_fd_request", self_adt="BackendReqHandler")
    if len(fs) == 1:
        f = fs[0]
        sym = Sym(f, fb)
        ret = sym.local(0)
        oks = [a for a in (ret[2] if ret[0] == "phi" else [ret]) if a[0] == "agg" and a[2] == "Ok"]
        good = False
        for a in oks:
            tup = a[3][0][1]
            if tup[0] == "tuple":
                idx = tup[1][0]
                if idx[0] == "cast" and idx[2] == "u8":
                    b, fld = field_of(idx[1])
                    good = fld == "value" and not any(s[0] == "bin" for s in subterms(idx[1]))
        chk.check(good, "D2", tag + "vringfd:index", "ring index = low 8 bits of the u64 (value as u8)",
                  "vring-fd helper derives the ring index as %s" % [show(a)[:80] for a in oks], f.loc())
    else:
        chk.anchor_missing("D2", tag + "vring-fd helper")


def _enable_mapping(fb, m, bb):
    """SET_VRING_ENABLE: the handler is reached only with num in {0, 1} and receives num != 0.  Decided by cases: the facts
    that hold at the call (or, when the flag is a merge of several definitions, at each definition) must bound `num` to a
    finite set, and the flag expression is evaluated for every value of that set; the resulting map must be {0: false,
    1: true} exactly."""
    t = m.cfg.blocks[bb]["term"]
    op = t["args"][2]
    cases = {}

    def bound(atoms):
        for a in atoms:
            leaf = S = None
            if a[0] == "in" and not a[3]:
                leaf, S = a[1], set(a[2])
            elif a[0] == "cmp" and a[1] in ("Le", "Lt"):
                k = const_eval(fb, m.sym, a[3])
                if k is not None and 0 <= k <= 4:
                    leaf, S = a[2], set(range(0, k + (1 if a[1] == "Le" else 0)))
            if leaf is None:
                continue
            x = leaf
            while x[0] in ("cast", "ref", "deref"):
                x = x[1]
            if field_of(x)[1] == "num" and all(isinstance(v, int) for v in S):
                return x, S
        return None, None

    def add(atoms, term):
        leaf, S = bound(atoms)
        if leaf is None:
            return False
        for v in S:
            val = const_eval(fb, m.sym, term, env={leaf: v, ("deref", leaf): v})
            if val is None or cases.get(v, val) != val:
                return False
            cases[v] = val
        return True

    if op["k"] in ("copy", "move"):
        if add(m.atoms_at(bb), m.sym.operand(op)):
            return cases == {1: 1, 0: 0}
        cases.clear()
        l, defs = m.sym.source_defs(op["pl"]["l"])
        for d in defs:
            if d[0] != "assign" or not add(m.atoms_at(d[1]), m.sym.rvalue(d[3])):
                return False
        return cases == {1: 1, 0: 0}
    return False


# ---------------------------------------------------------------------------- D3

ADAPTER_TRAITS = ("VhostUserBackendReqHandler", "VhostUserFrontendReqHandler", "VhostBackend", "VhostUserBackend", "VringT")
WRAPPERS = ("std::sync::Mutex<", "std::sync::RwLock<", "std::cell::RefCell<", "std::sync::Arc<")
LOCKERS = {"lock", "write", "read", "borrow_mut", "borrow", "unwrap", "deref", "deref_mut", "write_lock", "get_ref", "get_mut",
           "as_ref", "clone"}
D3_SKIP = {"new", "get_ref", "get_mut"}


def adapter_impls(fb):
    out = []
    for i in fb.impls:
        tr = (i.get("trait") or "").split("::")[-1]
        st = i.get("self_ty") or ""
        if tr in ADAPTER_TRAITS:
            if any(st.startswith(w) for w in WRAPPERS):
                out.append(i)
            elif tr == "VringT" and st.split("<")[0].split("::")[-1] in ("VringMutex", "VringRwLock"):
                out.append(i)
    return out


def d3(fb, chk, tag):
    nimpl = 0
    for i in adapter_impls(fb):
        nimpl += 1
        tr = i["trait"].split("::")[-1]
        st = i["self_ty"]
        sshort = st.split("<")[0].split("::")[-1]
        for it in i["items"]:
            if not it["kind"].startswith("Fn") and "Fn" not in it["kind"]:
                continue
            name = it["name"]
            if name in D3_SKIP:
                continue
            f = fb.fns.get(it["key"])
            key = "%s%s<%s>::%s" % (tag, tr, sshort, name)
            if f is None:
                chk.bad("D3", key, "adapter method body not found")
                continue
            chk.fn_seen(f)
            m = must_of(fb, f)
            inner = [(bb, t, c) for bb, t, c in sites(f, name=name)]
            if len(inner) != 1:
                chk.bad("D3", key, "adapter method %s contains %d calls of `%s`; exactly one delegation is required"
                        % (f.short, len(inner), name), f.loc())
                continue
            bb, t, c = inner[0]
            probs = []
            if m.cfg.in_loop(bb):
                probs.append("delegation inside a loop")
            # every path to return passes through the delegation
            if not m.cfg.all_paths_pass_through(0, m.cfg.returns, {bb}):
                probs.append("a path returns without delegating")
            args = m.sym.arg_terms(bb)
            # receiver derives from self through lock/borrow helpers only
            r = args[0]
            while True:
                while r[0] in ("ref", "deref", "field"):
                    r = r[1]
                if r[0] == "call" and r[1] in LOCKERS and r[2]:
                    r = r[2][0]
                    continue
                break
            if not (r[0] == "param" and r[1] == 1):
                probs.append("receiver is %s, not derived from self" % show(args[0])[:60])
            params = [("param", k + 1, f.locals[k + 1].get("name")) for k in range(1, f.argc)]
            passed = []
            for a in args[1:]:
                x, _ = peel(a, through_calls=set(), casts=False)
                while x[0] == "cast" and x[4].startswith("PointerCoercion"):
                    x, _ = peel(x[1], through_calls=set(), casts=False)
                passed.append(x)
            if passed != params:
                probs.append("arguments %s, parameters %s" % ([show(x) for x in passed], [p[2] for p in params]))
            # result is the delegation's result
            call = m.sym.call_at(bb)
            ret = m.sym.local(0)
            rr = ret
            if f.locals[0]["ty"] != "()":
                while rr[0] in ("ref", "deref"):
                    rr = rr[1]
                if rr != call:
                    probs.append("returns %s, not the inner call's result" % show(ret)[:80])
            chk.check(not probs, "D3", key, "delegates to %s" % (c.get("path") or name)[-60:],
                      "%s: %s" % (f.short, "; ".join(probs)), f.loc(t["line"]))
        # inherited defaults on an adapter silently bypass the inner implementation
        for nm in i.get("inherited") or []:
            tinfo = fb.traits.get(i["trait"])
            is_fn = True
            if tinfo:
                for ti in tinfo["items"]:
                    if ti["name"] == nm and "Fn" not in ti["kind"]:
                        is_fn = False
            if is_fn:
                chk.bad("D3", "%s%s<%s>::%s" % (tag, tr, sshort, nm),
                        "adapter %s for %s inherits the trait's default for `%s` instead of delegating to the wrapped object"
                        % (tr, st, nm), "%s:%s" % (i["file"], i["line"]))
    chk.floor("D3-impls", nimpl, 9)


# ---------------------------------------------------------------------------- D4

def d4(fb, chk, tag):
    fm = common.frontend_methods(fb)
    MAXQ = "max_queue_num"

    def facts_at_send(f, code):
        m = must_of(fb, f)
        out = []
        for bb, t, c, ai in common.request_sender_sites(f):
            args = m.sym.arg_terms(bb)
            _, var = enum_variant_of(args[ai])
            if var == code:
                out.append((bb, t, m.atoms_at(bb), args))
        return m, out

    def has_cmp(atoms, op, lname, rname=None, rconst=None, fb_=fb, sym=None, owner=None):
        for a in atoms:
            if a[0] != "cmp":
                continue
            for (o, x, y) in ((a[1], a[2], a[3]), (_flip(a[1]), a[3], a[2])):
                if o != op:
                    continue
                if _lname(x) != lname:
                    continue
                if owner is not None and _owner(x) != owner:
                    continue     # a fact about the same field of ANOTHER value (an element of a different traversal)
                if rname is not None and _lname(y) == rname:
                    return True
                if rconst is not None and const_eval(fb_, sym, y) == rconst:
                    return True
        return False

    queue_ops = {"SET_VRING_NUM": "set_vring_num", "SET_VRING_ADDR": "set_vring_addr", "SET_VRING_BASE": "set_vring_base",
                 "GET_VRING_BASE": "get_vring_base", "SET_VRING_CALL": "set_vring_call", "SET_VRING_KICK": "set_vring_kick",
                 "SET_VRING_ERR": "set_vring_err", "SET_VRING_ENABLE": "set_vring_enable"}
    for code, meth in sorted(queue_ops.items()):
        f = fm.get(meth)
        if f is None:
            chk.anchor_missing("D4", tag + "Frontend::" + meth)
            continue
        m, ss = facts_at_send(f, code)
        if not ss:
            chk.bad("D4", "%s%s:queue-index" % (tag, meth), "no send site", f.loc())
        for bb, t, atoms, args in ss:
            ok = has_cmp(atoms, "Lt", "queue_index", rname=MAXQ, sym=m.sym)
            chk.check(ok, "D4", "%s%s:queue-index" % (tag, meth), "queue_index as u64 < max_queue_num at the send",
                      "%s reaches the wire without the must-fact `queue_index < max_queue_num` (exact relation)" % f.short,
                      f.loc(t["line"]))
    # region list
    f = fm.get("set_mem_table")
    if f:
        m, ss = facts_at_send(f, "SET_MEM_TABLE")
        for bb, t, atoms, args in ss:
            nonempty = any(a[0] == "false" and a[1][0] == "call" and a[1][1] == "is_empty" for a in atoms) or \
                has_cmp(atoms, "Ge", "len(regions)", rconst=1, sym=m.sym) or has_cmp(atoms, "Ne", "len(regions)", rconst=0, sym=m.sym)
            bounded = has_cmp(atoms, "Le", "len(regions)", rconst=wire.MAX_FDS, sym=m.sym) or \
                has_cmp(atoms, "Lt", "len(regions)", rconst=wire.MAX_FDS + 1, sym=m.sym)
            chk.check(nonempty, "D4", tag + "set_mem_table:non-empty", "regions non-empty at the send",
                      "set_mem_table can send an empty region list", f.loc(t["line"]))
            chk.check(bounded, "D4", tag + "set_mem_table:at-most-32", "regions.len() <= 32 at the send",
                      "set_mem_table can send more than %d regions (exact bound required)" % wire.MAX_FDS, f.loc(t["line"]))
        for bb, t, c in sites(f, name="append"):
            atoms = m.atoms_at(bb)
            # the element this append sends: the value whose `mmap_handle` is the descriptor argument
            own = _owner(m.sym.arg_terms(bb)[-1])
            ok1 = has_cmp(atoms, "Ne", "memory_size", rconst=0, sym=m.sym, owner=own)
            ok2 = has_cmp(atoms, "Ge", "mmap_handle", rconst=0, sym=m.sym, owner=own)
            if not (ok1 and ok2):
                # validation in a pass of its own: every element of `regions` is tested in a loop whose failing edges cannot
                # reach the append / the send (they return the error); the append loop runs over the same list afterwards
                sends = [b_ for b_, _t, _a, _g in ss]
                targets = set(sends) | {bb}
                seen = {"size": [], "handle": []}
                for d_, blk in enumerate(f.blocks):
                    if blk["cleanup"] or blk["term"]["k"] != "switch":
                        continue
                    for sx in m.cfg.succ[d_]:
                        ea = m.edge_atoms(d_, sx)
                        for kind, op_, fld in (("size", "Eq", "memory_size"), ("handle", "Lt", "mmap_handle")):
                            if has_cmp(ea, op_, fld, rconst=0, sym=m.sym) and any("regions" in show(a_[2]) + show(a_[3]) for a_ in ea if a_[0] == "cmp"):
                                reach = m.cfg.reach(sx) | {sx}
                                seen[kind].append(not (reach & targets))
                ok1 = ok1 or (bool(seen["size"]) and all(seen["size"]))
                ok2 = ok2 or (bool(seen["handle"]) and all(seen["handle"]))
            # an invalid region fails the call: from the edge on which an element was found invalid neither the append of a
            # LATER element nor the send is reachable (skipping the bad region would send a table with fewer regions)
            sends_ = [b_ for b_, _t, _a, _g in ss]
            for d_, blk in enumerate(f.blocks):
                if blk["cleanup"] or blk["term"]["k"] != "switch":
                    continue
                for sx in m.cfg.succ[d_]:
                    ea = m.edge_atoms(d_, sx)
                    bad_edge = (has_cmp(ea, "Eq", "memory_size", rconst=0, sym=m.sym) or has_cmp(ea, "Lt", "mmap_handle", rconst=0, sym=m.sym)) and \
                        any("regions" in show(a_[2]) + show(a_[3]) for a_ in ea if a_[0] == "cmp")
                    if bad_edge and ((m.cfg.reach(sx) | {sx}) & (set(sends_) | {bb})):
                        ok1 = False
            chk.check(ok1 and ok2, "D4", tag + "set_mem_table:region", "each appended region has memory_size != 0 and mmap_handle >= 0",
                      "a region is appended without the must-facts memory_size != 0 (%s) and mmap_handle >= 0 (%s)" % (ok1, ok2),
                      f.loc(t["line"]))
    # validity of the sent body
    for meth, code in (("get_config", "GET_CONFIG"), ("set_config", "SET_CONFIG"), ("set_device_state_fd", "SET_DEVICE_STATE_FD"),
                       ("get_shared_object", "GET_SHARED_OBJECT")):
        f = fm.get(meth)
        if f is None:
            chk.anchor_missing("D4", tag + "Frontend::" + meth)
            continue
        m, ss = facts_at_send(f, code)
        for bb, t, atoms, args in ss:
            body = args[2]
            while body[0] in ("ref", "deref"):
                body = body[1]
            ok = False
            for a in atoms:
                if a[0] == "true" and a[1][0] == "call" and a[1][1] == "is_valid":
                    x = a[1][2][0]
                    while x[0] in ("ref", "deref"):
                        x = x[1]
                    if x == body:
                        ok = True
            chk.check(ok, "D4", "%s%s:body-valid" % (tag, meth), "sent body passed its validator",
                      "%s sends a body that did not pass is_valid() on every path" % f.short, f.loc(t["line"]))
    f = fm.get("set_config")
    if f:
        m, ss = facts_at_send(f, "SET_CONFIG")
        for bb, t, atoms, args in ss:
            ok = has_cmp(atoms, "Le", "len(buf)", rconst=wire.MAX_MSG_SIZE, sym=m.sym)
            chk.check(ok, "D4", tag + "set_config:len", "buf.len() <= MAX_MSG_SIZE", "set_config sends without bounding buf.len()", f.loc(t["line"]))
    for meth, code, needs in (("add_mem_region", "ADD_MEM_REG", [("Ne", "memory_size", 0), ("Ge", "mmap_handle", 0)]),
                              ("remove_mem_region", "REM_MEM_REG", [("Ne", "memory_size", 0)]),
                              ("set_inflight_fd", "SET_INFLIGHT_FD", [("Ne", "mmap_size", 0), ("Ne", "num_queues", 0),
                                                                      ("Ne", "queue_size", 0), ("Ge", "fd", 0)])):
        f = fm.get(meth)
        if f is None:
            chk.anchor_missing("D4", tag + "Frontend::" + meth)
            continue
        m, ss = facts_at_send(f, code)
        for bb, t, atoms, args in ss:
            for (op, nm, cv) in needs:
                ok = has_cmp(atoms, op, nm, rconst=cv, sym=m.sym)
                chk.check(ok, "D4", "%s%s:%s" % (tag, meth, nm), "%s %s %d at the send" % (nm, op, cv),
                          "%s reaches the wire without the must-fact `%s %s %d`" % (f.short, nm, op, cv), f.loc(t["line"]))
    f = fm.get("set_vring_addr")
    if f:
        m, ss = facts_at_send(f, "SET_VRING_ADDR")
        for bb, t, atoms, args in ss:
            ok = False
            for a in atoms:
                if a[0] == "cmp" and a[1] == "Eq" and a[3][0] == "const" and a[3][1] == 0 and a[2][0] == "bin" and a[2][1] == "BitAnd":
                    if _lname(a[2][2]) == "flags" and const_eval(fb, m.sym, a[2][3]) == 0xFFFFFFFE:
                        ok = True
            chk.check(ok, "D4", tag + "set_vring_addr:flags", "undefined flag bits rejected locally",
                      "set_vring_addr sends without the must-fact flags & !defined == 0", f.loc(t["line"]))


def d9(fb, chk, tag=""):
    """Region i travels with descriptor i: the context that collects a memory table keeps two parallel vectors, which
    stay paired only if nothing but its own `append` (one push to each) writes them."""
    ctx_adt = "VhostUserMemoryContext"
    n = 0
    bad = []
    for f in fb.fns.values():
        if f.crate != "vhost" or "::tests::" in f.key or "/tests/" in (f.file or ""):
            continue
        own = (f.self_adt or "").endswith("::" + ctx_adt)
        for b in f.blocks:
            if b["cleanup"]:
                continue
            for st in b["stmts"]:
                if st["k"] != "assign":
                    continue
                rv = st["rv"]
                pls = []
                if rv["k"] in ("ref", "rawptr") and rv.get("bk") not in ("shared", "fake", None):
                    pls.append(rv["pl"])
                if st["lhs"]["p"]:
                    pls.append(st["lhs"])
                for pl in pls:
                    for pr in pl["p"]:
                        if pr["k"] == "field" and (pr.get("adt") or "").endswith("::" + ctx_adt) and pr.get("n") in ("regions", "fds"):
                            n += 1
                            if not own:
                                bad.append((f, pr.get("n"), st.get("line")))
    for f, fld, line in bad:
        chk.bad("D9", "%swriter:%s:%s" % (tag, f.short, fld),
                "%s takes a mutable borrow of (or assigns) the memory-table context's `%s` list outside the context's own append: "
                "reordering or editing one of the two parallel lists breaks the pairing of regions and descriptors" % (f.short, fld), f.loc(line))
    if not bad:
        chk.ok("D9", tag + "writers", "%d write accesses, all inside the context's own methods" % n)
    chk.check(n >= 2, "D9", tag + "sites", "write accesses found", "no write access to the memory-table context found (anchor lost)")


def _flip(op):
    return {"Lt": "Gt", "Gt": "Lt", "Le": "Ge", "Ge": "Le", "Eq": "Eq", "Ne": "Ne"}[op]


def _owner(t):
    """The value a field read belongs to (references and casts peeled), as text; None when `t` is not a field read."""
    while t[0] in ("ref", "deref", "cast"):
        t = t[1]
    if t[0] != "field":
        return None
    b = t[1]
    while b[0] in ("ref", "deref"):
        b = b[1]
    return show(b)


def _lname(t):
    while t[0] in ("ref", "deref", "cast"):
        t = t[1]
    if t[0] == "field":
        return t[2]
    if t[0] == "param":
        return t[2]
    if t[0] == "call" and t[1] == "len" and len(t[2]) == 1:
        inner = _lname(t[2][0])
        return "len(%s)" % inner if inner else None
    if t[0] == "cname":
        return t[1].split("::")[-1]
    return None
