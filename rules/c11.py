"""C11 — vring state follows the protocol: kicks are dispatched iff started and enabled (partial)."""
from spec import wire
from vlint.absint import const_eval
from vlint.cfg import CFG
from vlint.facts import callee_of, resolved, AnchorMissing
from vlint.gates import atom_gate, field_of, root_of
from vlint.paths import Summariser, ret_okness
from vlint.terms import show, subterms, peel
from vlint.util import must_of, sites, option_shape
from . import daemon

EXPLANATION = (
    "Decides the state machine transition by transition: (T1) each control handler performs exactly the ring-state "
    "mutations the protocol prescribes (GET_VRING_BASE: stop, drop kick and call, return next_avail; SET_VRING_ENABLE(b): "
    "enabled := b; RESET_DEVICE: all rings disabled; SET_FEATURES: all rings enabled iff PROTOCOL_FEATURES absent; "
    "SET_VRING_KICK/CALL: install the descriptor, start the ring iff not yet started and a kick descriptor is present); "
    "(T2) every mutation of an input of the registration predicate is followed, for the same ring, by the registration "
    "update before the handler returns; (T3) the kick descriptor is added to the worker's epoll set only under "
    "`started && enabled` and removed otherwise, with one id; (T4) the worker's dispatch gate reads the same state as "
    "the registration predicate and the kick eventfd is consumed only when the gate is true; (T5) the registration is "
    "level-triggered (plain IN)."
    " T1/T2 are decided on the control handlers with the daemon handler's private helpers inlined: mutations cannot be skipped by a loop iteration, RESET_DEVICE's loop is unconditional, the PROTOCOL_FEATURES test reads this message's features, a kick descriptor is dropped only after the registration update that follows the stop; T3 additionally: add/delete conditions hold on every path (path-sensitive), the update always decides once the owner is found, and only the registration update and the listener API change the epoll set."
    ' Round 4/5: (T2) falls back to the feasible paths when the bare graph has a path no execution takes; (T3) a failed epoll add is an error unless the descriptor is already registered; (T6-T10) C02/D3 for the ring adapters, C14/Q12, C02/D2, C07/G2, C17/E3.')
NOT_DECIDED = "Sequences of messages (checked transition by transition), eventual delivery, real epoll behaviour."

# handler -> list of (mutator, expected argument): 'param:<name>' | 'const:<v>' | 'none'
EFFECTS = {
    "get_vring_base": [("set_queue_ready", "const:0"), ("set_kick", "none"), ("set_call", "none")],
    "set_vring_enable": [("set_enabled", "param:enable")],
    "reset_device": [("set_enabled", "const:0")],
    "set_features": [("set_enabled", "const:1")],
    "set_vring_kick": [("set_kick", "param:file")],
    "set_vring_call": [("set_call", "param:file")],
}


def describe_arg(t):
    while t[0] in ("ref", "deref"):
        t = t[1]
    if t[0] == "const" and isinstance(t[1], int):
        return "const:%d" % t[1]
    if t[0] == "param":
        return "param:%s" % t[2]
    if option_shape(t)[0] == "None":
        return "none"
    return "?" + show(t)[:40]


def run(ctx, chk):
    fb = ctx.fb("full")
    chk.explanation = EXPLANATION
    chk.not_decided = NOT_DECIDED
    chk.cfgs["full"] = fb.hashes
    chk.rule("T1", "each control handler performs exactly the prescribed ring-state mutations, under the prescribed facts")
    chk.rule("T2", "every mutation of a registration input is followed by the registration update for the same ring")
    chk.rule("T3", "epoll add only under started && enabled; delete otherwise; same id")
    chk.rule("T4", "the dispatch gate agrees with the registration predicate; the eventfd is consumed only when the gate is true")
    chk.rule("T5", "ring registration is level-triggered (EventSet::IN only)")
    run_on(fb, chk)
    from . import xlist
    xlist.apply("C11", fb, chk)
    n = lambda r: len([i for i in chk.instances if i[0] == r])
    chk.floor("T1", n("T1"), 8)
    chk.floor("T2", n("T2"), 6)


def thorough(ctx, chk):
    fb = ctx.fb("base")
    chk.cfgs["base"] = fb.hashes
    run_on(fb, chk, tag="base/")


def expand_mutations(fb, f, hp, depth=0):
    """Ring-state mutator calls performed by f, directly or through the daemon handler's private helpers:
    list of (owner fn, bb, term, callee, via list)."""
    out = []
    for bb, t, c in daemon.ring_calls(fb, f, daemon.STATE_MUTATORS):
        out.append((f, bb, t, c, []))
    if depth < 2:
        for bb, t in f.calls():
            c = callee_of(t)
            if c and c.get("name") in hp and resolved(c)["key"] == hp[c["name"]].key:
                for (g, b2, t2, c2, via) in expand_mutations(fb, hp[c["name"]], hp, depth + 1):
                    out.append((g, b2, t2, c2, [(f, bb)] + via))
    return out


def _tests_new_features(fb, f, m, t, bb):
    """The value whose PROTOCOL_FEATURES bit decides ring enabling must be the features of THIS message: the
    `features` parameter itself, or a field of self that was assigned from it before the test."""
    r = t
    while r[0] in ("ref", "deref", "cast"):
        r = r[1]
    if r[0] == "param":
        return None if r[2] == "features" else "ring enabling is decided on parameter `%s`" % r[2]
    base, fld = field_of(t)
    if fld is None:
        return "ring enabling is decided on %s (not on the features of this message)" % show(t)[:50]
    from vlint.util import field_writes
    dom = m.cfg.dominators()
    # the switch that produced the fact: a dominator of bb whose operand mentions the field; the store must dominate it
    tests = [d for d in dom.get(bb, ()) if f.blocks[d]["term"]["k"] == "switch"
             and any(s_ == t or (s_[0] == "field" and s_[2] == fld) for s_ in subterms(m.sym.operand(f.blocks[d]["term"]["op"])))]
    stores = [w for w in field_writes(f) if w["field"] == fld]
    good = False
    for w in stores:
        v = m.sym.rvalue(w["rv"]) if "rv" in w else None
        src_ok = v is not None and v[0] == "param" and v[2] == "features"
        if src_ok and tests and all(w["bb"] in dom.get(d, ()) for d in tests):
            good = True
    if good:
        return None
    return ("ring enabling is decided on self.%s, which does not yet hold the features of this message when it is tested "
            "(the previous negotiation decides)" % fld)


def handler_views(fb):
    """Control handlers with the daemon handler's private helpers inlined (all but the registration update), so that
    the rules read the same shape whether a step lives in a helper or in the handler itself."""
    ch = daemon.control_handlers(fb)
    hp = daemon.handler_helpers(fb)
    reg = daemon.registration_fn(fb)
    names = sorted(n for n, h in hp.items() if h.key != reg.key and n not in ("new",))
    return {name: fb.inl(f, inline_known=names) for name, f in ch.items()}, reg


def _skippable_in_loop(cfg, bb):
    """bb lies in a loop some iteration of which can avoid bb (a `continue` or a conditional around it)."""
    loops = {}
    for (tail, head) in cfg.back_edges():
        body = loops.setdefault(head, {head})
        body.add(tail)
        work = [tail]
        while work:
            x = work.pop()
            if x == head:
                continue
            for p in cfg.pred[x]:
                if p not in body:
                    body.add(p)
                    work.append(p)
    for head, body in loops.items():
        if bb not in body or bb == head:
            continue
        outside = set(range(len(cfg.blocks))) - body
        for s in cfg.succ[head]:
            if s in body and s != bb and (s == head or head in cfg.reach(s, removed=outside | {bb})):
                return True
    return False


def _loop_unconditional(cfg, bb):
    """The loop containing bb is entered on every path from the function entry to a return."""
    heads = set()
    for (tail, head) in cfg.back_edges():
        body = {head, tail}
        work = [tail]
        while work:
            x = work.pop()
            if x == head:
                continue
            for p in cfg.pred[x]:
                if p not in body:
                    body.add(p)
                    work.append(p)
        if bb in body:
            heads.add(head)
    if not heads:
        return False
    return cfg.all_paths_pass_through(0, cfg.returns, heads)


def run_on(fb, chk, tag=""):
    try:
        ch, reg = handler_views(fb)
    except AnchorMissing as e:
        chk.anchor_missing("T3", tag + "registration function", str(e))
        return
    chk.fn_seen(reg)
    # ------------------------------------------------------------------ T1
    for name, f in sorted(ch.items()):
        muts = daemon.ring_calls(fb, f, daemon.STATE_MUTATORS)
        want = list(EFFECTS.get(name, []))
        if name in ("set_vring_kick", "set_vring_call"):
            want.append(("set_queue_ready", "const:1"))
        m = must_of(fb, f)
        chk.fn_seen(f)
        got = [(c["name"], describe_arg(m.sym.arg_terms(bb)[1])) for (bb, t, c) in muts]
        key = tag + name
        if not want and not muts:
            continue
        probs = []
        if sorted(got) != sorted(want):
            probs.append("performs %s; the protocol prescribes %s" % (sorted(got), sorted(want)))
        # loops over all rings where prescribed, and no ring is skipped
        if name in ("reset_device", "set_features"):
            for (bb, t, c) in muts:
                if not m.cfg.in_loop(bb) or "iter(deref(&*self.vrings))" not in show(m.sym.arg_terms(bb)[0]):
                    probs.append("%s is not applied to every ring" % c["name"])
                elif _skippable_in_loop(m.cfg, bb):
                    probs.append("%s is skipped for some rings (an iteration of the loop over all rings can avoid it)" % c["name"])
                elif name == "reset_device" and not _loop_unconditional(m.cfg, bb):
                    probs.append("the loop that applies %s to all rings is itself conditional: RESET_DEVICE can succeed with the rings left as they were" % c["name"])
        if name == "set_features":
            for (bb, t, c) in muts:
                gs = [a for a in m.atoms_at(bb) if a[0] == "cmp" and a[1] == "Eq" and const_eval(fb, m.sym, a[3]) == 0
                      and a[2][0] == "bin" and a[2][1] == "BitAnd" and const_eval(fb, m.sym, a[2][3]) == wire.VIRTIO_FEATURES["PROTOCOL_FEATURES"]]
                if not gs:
                    probs.append("rings are enabled without the fact `features & PROTOCOL_FEATURES == 0`")
                for a in gs:
                    why = _tests_new_features(fb, f, m, a[2][2], bb)
                    if why:
                        probs.append(why)
        # start-on-kick: ready := true only under (not started && kick present)
        if name in ("set_vring_kick", "set_vring_call"):
            starts = [(bb, t, c) for (bb, t, c) in muts if c["name"] == "set_queue_ready"]
            for (bb, t, c) in starts:
                atoms = m.atoms_at(bb)
                nr = any(a[0] == "false" and a[1][0] == "call" and a[1][1] == "ready" for a in atoms)
                kp = any(a[0] == "ok" and "get_kick" in show(a[1]) for a in atoms)
                if not (nr and kp):
                    probs.append("ring started without the facts `not started` (%s) and `kick descriptor present` (%s)" % (nr, kp))
        chk.check(not probs, "T1", key, "effects %s" % sorted(got), "%s: %s" % (f.short, "; ".join(probs)), f.loc())
    for name in EFFECTS:
        if name not in ch:
            chk.anchor_missing("T1", tag + name)
    # GET_VRING_BASE result
    f = ch.get("get_vring_base")
    if f:
        m = must_of(fb, f)
        vals = []
        for bb, t, c in sites(f, name="new"):
            a = m.sym.arg_terms(bb)
            if len(a) == 2:
                vals.append((a[0], a[1], t["line"]))
        if not vals:
            ret = m.sym.local(0)
            for alt in (ret[2] if ret[0] == "phi" else [ret]):
                if alt[0] == "agg" and alt[2] == "Ok" and alt[3] and alt[3][0][1][0] == "agg":
                    d = dict(alt[3][0][1][3])
                    if "index" in d and "num" in d:
                        vals.append((d["index"], d["num"], None))
        if not vals:
            chk.bad("T1", tag + "get_vring_base:result", "cannot find the reply value of GET_VRING_BASE (neither a constructor call nor a struct literal)", f.loc())
        for a0, a1, line in vals:
            ok = peel(a0)[0][0] == "param" and peel(a0)[0][2] == "index" and "queue_next_avail" in show(a1)
            chk.check(ok, "T1", tag + "get_vring_base:result", "returns (index, queue_next_avail())", "returns %s" % [show(x)[:40] for x in (a0, a1)], f.loc(line))
    # SET_VRING_ENABLE is honoured only once VHOST_USER_F_PROTOCOL_FEATURES was acked (before that the rings are enabled by
    # SET_FEATURES itself): the test of the daemon's acked features against that bit is a must-fact at the mutation
    f_en = ch.get("set_vring_enable")
    if f_en is not None:
        from vlint.gates import gates_at
        men = must_of(fb, f_en)
        for (bb_, t_, c_) in daemon.ring_calls(fb, f_en, daemon.STATE_MUTATORS):
            if c_["name"] != "set_enabled":
                continue
            gs_ = [(g_[0], g_[1]) for g_ in gates_at(fb, men, bb_)]
            okg = any(b_ == wire.VIRTIO_FEATURES["PROTOCOL_FEATURES"] and "acked" in (fld_ or "") for fld_, b_ in gs_)
            chk.check(okg, "T1", tag + "set_vring_enable:gate", "set_enabled under acked_features & PROTOCOL_FEATURES != 0",
                      "the daemon's set_vring_enable changes the enabled flag without the must-fact `acked_features & "
                      "VHOST_USER_F_PROTOCOL_FEATURES != 0` (gate facts: %s): a frontend that did not negotiate the bit can disable / enable "
                      "rings that SET_FEATURES enabled" % gs_, f_en.loc(t_["line"]))
    # ------------------------------------------------------------------ T2
    for name, f in sorted(ch.items()):
        m = must_of(fb, f)
        cfg = m.cfg
        dom = cfg.dominators()
        muts = [(bb, t, c) for (bb, t, c) in daemon.ring_calls(fb, f, daemon.STATE_MUTATORS) if c["name"] in daemon.REG_INPUTS]
        for (bb, t, c) in muts:
            arg = describe_arg(m.sym.arg_terms(bb)[1])
            key = "%s%s:%s(%s)" % (tag, name, c["name"], arg)
            ring = daemon.ring_of(m, bb)
            ups = []
            for ub, ut, uc in sites(f, name=reg.name):
                ur = m.sym.arg_terms(ub)[1]
                while ur[0] in ("ref", "deref"):
                    ur = ur[1]
                if ur == ring:
                    ups.append(ub)
            if c["name"] == "set_kick" and arg == "none":
                # dropping the descriptor closes it: the worker must have been told to stop polling it first, i.e. the
                # registration update runs after the ring was stopped/disabled and before the descriptor goes away
                stops = [mb for (mb, mt, mc) in muts if mb != bb and daemon.ring_of(m, mb) == ring and mb in dom.get(bb, ())]
                before = [ub for ub in ups if ub in dom.get(bb, ()) and any(mb in dom.get(ub, ()) for mb in stops)]
                chk.check(bool(before), "T2", key, "unregistered (after the stop) before the descriptor is dropped",
                          "%s drops the ring's kick descriptor without first updating the epoll registration for the stopped ring: the "
                          "registration update finds no descriptor to delete, and the worker's epoll set keeps the (still open on the "
                          "frontend side) event source of a stopped ring" % f.short, f.loc(t["line"]))
                continue
            ok = bool(ups) and cfg.all_paths_pass_through(cfg.succ[bb][0] if cfg.succ[bb] else bb, cfg.returns, set(ups))
            if not ok and ups:
                # the control-flow graph alone may contain paths that no execution takes (a helper reporting "did it" in a flag
                # that the caller tests afterwards): decide on the feasible paths — those whose branch conditions do not
                # contradict each other
                try:
                    from vlint import paths as _paths
                    outs_, _s = _paths.Summariser(fb, no_inline=lambda g: True).paths(f)
                    seen_ = 0
                    good_ = True
                    for o_ in outs_:
                        if o_.cut or o_.ret is None or bb not in o_.path:
                            continue
                        seen_ += 1
                        k_ = o_.path.index(bb)
                        if not any(u_ in o_.path[k_ + 1:] for u_ in ups):
                            good_ = False
                    ok = good_ and seen_ > 0
                except Exception:
                    ok = False
            chk.check(ok, "T2", key, "followed by the registration update for the same ring on every path",
                      "%s changes %s (%s) and can return without updating the ring's epoll registration: the worker keeps polling the old "
                      "descriptor set (a kick on a newly installed descriptor of a started ring is never dispatched)"
                      % (f.short, c["name"], arg), f.loc(t["line"]))
    # ------------------------------------------------------------------ T3: who may change the epoll registration
    # Only the control path's registration update (and the listener/exit-event API of the worker object itself) adds
    # or removes event sources.  A second writer - e.g. the worker un-registering a ring it found disabled - races with
    # the control thread: its stale decision can undo the registration made by a later SET_VRING_ENABLE 1.
    allowed = {reg.key}
    for g in fb.find(self_adt="VringEpollHandler"):
        if g.name in ("register_listener", "unregister_listener", "new", "register_event", "unregister_event"):
            allowed.add(g.key)
    nw = 0
    for g in fb.fns.values():
        if g.crate != "vhost_user_backend" or "::tests::" in g.key or "/tests/" in (g.file or ""):
            continue
        for bb, t in g.calls():
            c = callee_of(t)
            if c is None or c.get("name") not in ("register_event", "unregister_event"):
                continue
            if not (resolved(c).get("self_adt") or c.get("self_adt") or "").endswith("VringEpollHandler"):
                continue
            nw += 1
            chk.check(g.key in allowed, "T3", "%swriter:%s:%s" % (tag, g.short, c["name"]),
                      "registration changed by the control path / listener API only",
                      "%s calls %s: the worker's epoll set is changed outside the control path's registration update (a stale "
                      "decision of this second writer can undo a registration made by the control thread, losing every later kick)"
                      % (g.short, c["name"]), g.loc(t["line"]))
    chk.check(nw >= 2, "T3", tag + "writers", "%d registration call sites seen" % nw, "no registration call sites found", reg.loc())
    # ------------------------------------------------------------------ T3 / T5
    rm = must_of(fb, reg)
    adds = sites(reg, name="register_event")
    dels = sites(reg, name="unregister_event")
    chk.check(len(adds) == 1 and len(dels) == 1, "T3", tag + "sites", "one add and one delete site", "expected one add and one delete, found %d/%d" % (len(adds), len(dels)), reg.loc())
    if len(adds) == 1 and len(dels) == 1:
        ab, at, ac = adds[0]
        db, dt, dc = dels[0]
        at_name = ac["name"]
        # path-sensitive: every path that reaches the add has seen started && enabled true; every path that reaches the
        # delete has seen one of them false (however the test is spelled: nested ifs, `a && b` in a local, a bool parameter
        # of an inlined helper ...)
        summ_ = Summariser(fb, no_inline=lambda g: True)
        outs_, _sym = summ_.paths(reg, stop=lambda b_: b_ in (ab, db))
        add_bad = del_bad = 0
        n_add = n_del = 0
        for o in outs_:
            if o.ret is not None or not o.path:
                continue
            last = o.path[-1]
            t_ready = any(a[0] == "true" and a[1][0] == "call" and a[1][1] == "ready" for a in o.atoms)
            t_en = any(a[0] == "true" and a[1][0] == "call" and a[1][1] == "is_enabled" for a in o.atoms)
            f_ready = any(a[0] == "false" and a[1][0] == "call" and a[1][1] == "ready" for a in o.atoms)
            f_en = any(a[0] == "false" and a[1][0] == "call" and a[1][1] == "is_enabled" for a in o.atoms)
            if last == ab:
                n_add += 1
                if not (t_ready and t_en):
                    add_bad += 1
            elif last == db:
                n_del += 1
                if not (f_ready or f_en):
                    del_bad += 1
        # ... and the decision is always taken: once the owning worker was found for a ring that has a kick descriptor,
        # the update either adds or deletes (no cached "nothing to do": the descriptor may have been replaced meanwhile)
        outs2, _sym2 = summ_.paths(reg)
        undecided = 0
        n_owner = 0
        for o in outs2:
            if o.ret is None or o.cut:
                continue
            owner = any(a[0] == "cmp" and a[1] == "Eq" and const_eval(fb, rm.sym, a[3]) == 1 and a[2][0] == "bin" and a[2][1] == "BitAnd"
                        and const_eval(fb, rm.sym, a[2][3]) == 1 for a in o.atoms)
            kick = any(a[0] == "ok" and "get_kick" in show(a[1]) for a in o.atoms)
            if owner and kick:
                n_owner += 1
                if ab not in o.path and db not in o.path:
                    undecided += 1
        # a failed add is reported unless the descriptor was already there: the request must not be acknowledged for a ring
        # that is not being polled (and re-enabling an enabled ring is not an error)
        add_err = {"reported": 0, "swallowed": 0, "exists_ok": 0, "exists_err": 0}
        for o in outs2:
            if o.ret is None or o.cut or ab not in o.path:
                continue
            failed = any(a[0] == "notok" and isinstance(a[1], tuple) and a[1][0] == "call" and a[1][1] == at_name for a in o.atoms)
            if not failed:
                continue
            kinds = [a for a in o.atoms if a[0] == "cmp" and a[1] in ("Eq", "Ne") and "kind(" in show(a[2]) and "AlreadyExists" in show(a[3])]
            okr = ret_okness(o.ret)
            if any(a[1] == "Eq" for a in kinds):
                add_err["exists_ok" if okr is True else "exists_err"] += 1
            else:
                add_err["reported" if okr is False else "swallowed"] += 1
        chk.check(add_err["reported"] >= 1 and add_err["swallowed"] == 0 and add_err["exists_err"] == 0, "T3", tag + "add:failure-reported",
                  "a failed add is an error unless the descriptor is already registered %s" % add_err,
                  "the registration update %s: a ring can be acknowledged as live while its kick descriptor is not polled" %
                  ("swallows a failed epoll add" if add_err["swallowed"] or not add_err["reported"] else "fails when the descriptor is already registered"),
                  reg.loc(at["line"]))
        chk.check(n_owner >= 1 and undecided == 0, "T3", tag + "always-decides", "owner found => the kick descriptor is added or deleted (%d paths)" % n_owner,
                  "the registration update can return for the owning worker without adding or deleting the kick descriptor (%d of %d paths): "
                  "a descriptor installed while the ring was already active is never polled" % (undecided, n_owner), reg.loc())
        chk.check(n_add >= 1 and add_bad == 0, "T3", tag + "add", "add under started && enabled (%d paths)" % n_add,
                  "the kick descriptor is added to the epoll set on %d of %d paths without both facts started and enabled" % (add_bad, n_add), reg.loc(at["line"]))
        chk.check(n_del >= 1 and del_bad == 0, "T3", tag + "delete", "delete only when !(started && enabled) (%d paths)" % n_del,
                  "the delete is reachable on %d of %d paths while the ring is started and enabled" % (del_bad, n_del), reg.loc(dt["line"]))
        aa, da = rm.sym.arg_terms(ab), rm.sym.arg_terms(db)
        from vlint.terms import show as sh
        from rules.panics import erase_sites as norm
        chk.check(norm(aa[3]) == norm(da[3]) and norm(aa[1]) == norm(da[1]), "T3", tag + "id", "add and delete use the same descriptor and id",
                  "add uses (%s, %s), delete uses (%s, %s)" % (sh(aa[1])[:30], sh(aa[3])[:40], sh(da[1])[:30], sh(da[3])[:40]), reg.loc())
        ev = const_eval(fb, rm.sym, aa[2])
        evd = const_eval(fb, rm.sym, da[2])
        chk.check(ev == 1 and evd == 1, "T5", tag + "event-set", "EventSet::IN (0x1): level-triggered",
                  "ring registration uses event set %s / %s (edge-triggered or one-shot bits lose kicks raised while inactive)" % (ev, evd), reg.loc(at["line"]))
    # ------------------------------------------------------------------ T4
    rks = [f for f in fb.find(name="read_kick", self_adt="VringState") if not f.trait]
    if len(rks) != 1:
        chk.anchor_missing("T4", tag + "VringState::read_kick")
        return
    rk = rks[0]
    chk.fn_seen(rk)
    summ = Summariser(fb, no_inline=lambda g: True)
    outs, sym = summ.paths(rk)
    consumed_false = 0
    gate_fields = set()
    for o in outs:
        if o.ret is None or ret_okness(o.ret) is not True:
            continue
        consumed = any(rk.blocks[b]["term"]["k"] == "call" and (callee_of(rk.blocks[b]["term"]) or {}).get("name") == "consume" for b in o.path)
        val = o.ret[3][0][1] if o.ret[0] == "agg" else None
        # gate value: constant or state read
        gate_true = None
        if val is not None:
            if val[0] == "const":
                gate_true = bool(val[1])
            for s in subterms(val):
                if s[0] == "field":
                    gate_fields.add(s[2])
                if s[0] == "call" and s[1] in ("ready", "is_enabled"):
                    gate_fields.add(s[1])
        for a in o.atoms:
            if a[0] in ("true", "false"):
                _, fld = field_of(a[1])
                if fld:
                    gate_fields.add(fld)
                if a[1][0] == "call" and a[1][1] in ("ready",):
                    gate_fields.add("ready")
        # a path that consumed must return the gate as true
        certainly_true = gate_true is True or any(a[0] == "true" and field_of(a[1])[1] == "enabled" for a in o.atoms)
        if consumed and not certainly_true:
            consumed_false += 1
    chk.check(consumed_false == 0, "T4", tag + "consume-only-when-active",
              "the kick eventfd is consumed only on paths where the gate is true",
              "VringState::read_kick consumes the kick eventfd on a path where the ring may be inactive (gate false): a kick raised "
              "just before SET_VRING_ENABLE 0 is consumed without dispatch and is no longer pending when the ring is enabled again",
              rk.loc())
    reads_ready = "ready" in gate_fields
    chk.check(reads_ready and "enabled" in gate_fields, "T4", tag + "gate-agreement",
              "dispatch gate reads started && enabled like the registration predicate",
              "the dispatch gate reads %s; the registration predicate reads started (queue ready) && enabled: a worker that woke up just "
              "before GET_VRING_BASE dispatches the backend handler for a stopped ring" % sorted(gate_fields), rk.loc())
