"""Panic-edge audit: every panic-capable operation reachable from given entry points is an
obligation that needs a discharge:
  A  input-independent (lock poisoning, constant operands, full-range index),
  B  locally guarded: a must-fact at the site makes the failure impossible (checked),
  C  named invariant: a reviewed table row; rows may name machine-checked requirements.
An obligation with no discharge, or a B/C discharge whose guard disappeared, is a violation."""
import hashlib

from vlint.absint import const_eval, Eval, Undecided
from vlint.facts import callee_of, resolved
from vlint.terms import show, subterms, peel, INT_TYS
from vlint.util import must_of

PANIC_CALLS = {"unwrap", "expect", "unwrap_err", "expect_err", "panic", "panic_fmt", "begin_panic", "unreachable",
               "assert_failed", "copy_from_slice", "clone_from_slice", "split_at", "split_at_mut", "swap_remove",
               "remove", "insert", "unwrap_failed", "expect_failed", "panic_display", "panic_nounwind",
               "unreachable_display", "borrow_mut", "borrow", "index", "index_mut", "from_elem", "with_capacity",
               "explicit_panic", "panic_explicit", "panic_str", "panic_cold_explicit", "drain",
               "todo", "unimplemented", "shl", "shr", "add", "sub", "mul", "div", "rem", "neg", "from_fn",
               "get_unchecked", "resize", "reserve", "extend_from_slice"}
ARITH_TRAIT_CALLS = {"shl", "shr", "add", "sub", "mul", "div", "rem", "neg"}
EXTERNAL_PREFIXES = ("std::", "core::", "alloc::")
LOCKS = {"lock", "read", "write", "try_lock"}


def obligations(fb, roots, stop=None):
    keys = fb.reachable(roots, stop=stop)
    out = []
    for k in sorted(keys):
        f = fb.fns[k]
        m = None
        for bi, b in enumerate(f.blocks):
            if b["cleanup"]:
                continue
            t = b["term"]
            if t["k"] == "assert":
                if m is None:
                    m = must_of(fb, f)
                kind = t["msg"]
                ops = []
                if "a" in t:
                    ops = [m.sym.operand(t["a"]), m.sym.operand(t["b"])]
                elif "len" in t:
                    ops = [m.sym.operand(t["len"]), m.sym.operand(t["index"])]
                out.append({"fn": f, "bb": bi, "kind": "assert:" + kind, "ops": ops, "line": t["line"],
                            "cond": m.sym.operand(t["cond"]), "expected": t["expected"], "m": m})
            elif t["k"] == "call":
                c = callee_of(t)
                if c is None:
                    continue
                name = c.get("name")
                path = c.get("path") or ""
                ext = path.startswith(EXTERNAL_PREFIXES) or (c.get("of_trait") or "").startswith(EXTERNAL_PREFIXES)
                if name in PANIC_CALLS and ext:
                    if name in ARITH_TRAIT_CALLS and not (c.get("of_trait") or "").startswith(("std::ops", "core::ops")):
                        continue
                    if name in ("borrow", "borrow_mut") and "RefCell" not in (c.get("self_ty") or path):
                        continue
                    if name in ("insert", "remove", "drain", "resize", "reserve", "extend_from_slice") and "Vec" not in path and "vec" not in path:
                        continue
                    if m is None:
                        m = must_of(fb, f)
                    out.append({"fn": f, "bb": bi, "kind": "call:" + name, "ops": m.sym.arg_terms(bi), "line": t["line"],
                                "callee": c, "atys": t.get("atys"), "m": m})
    return out, keys


def ob_key(o):
    txt = "|".join(show(x) for x in o["ops"])
    h = hashlib.sha1(txt.encode()).hexdigest()[:8]
    return "%s:%s:%s" % (o["fn"].short, o["kind"].replace("assert:", "").replace("call:", ""), h)


# ---------------------------------------------------------------------------- generic discharges

def upper_bound(fb, m, t, atoms, depth=0):
    """Static upper bound of an unsigned term, or None."""
    v = const_eval(fb, m.sym, t)
    if v is not None:
        return v
    if depth > 6:
        return None
    tag = t[0]
    best = None
    # facts: t <= c, t < c, t == c
    for a in atoms:
        if a[0] == "cmp":
            for (op, x, y) in ((a[1], a[2], a[3]), (_flip(a[1]), a[3], a[2])):
                if _strip(x) == _strip(t):
                    c = const_eval(fb, m.sym, y)
                    if c is None and depth < 3 and op in ("Le", "Lt", "Eq"):
                        c = upper_bound(fb, m, y, [z for z in atoms if z is not a], depth + 1)
                    if c is None:
                        continue
                    if op == "Le" or op == "Eq":
                        best = c if best is None else min(best, c)
                    if op == "Lt" and c > 0:
                        best = c - 1 if best is None else min(best, c - 1)
        if a[0] == "in" and not a[3] and (a[1] == t or _strip(a[1]) == _strip(t)) and a[2]:
            mx = max(a[2])
            best = mx if best is None else min(best, mx)
    if best is not None:
        return best
    if tag == "cast":
        frm = INT_TYS.get(t[3])
        inner = upper_bound(fb, m, t[1], atoms, depth + 1)
        cap = (1 << frm) - 1 if frm else None
        if t[3] == "bool":
            cap = 1
        to = INT_TYS.get(t[2])
        cands = [x for x in (inner, cap, (1 << to) - 1 if to else None) if x is not None]
        return min(cands) if cands else None
    if tag == "call" and t[1] in ("len", "count_ones", "size_of"):
        return (1 << 63) - 1 if t[1] != "count_ones" else 64
    if tag == "call" and t[1] in ("into", "from") and len(t[2]) == 1:
        return upper_bound(fb, m, t[2][0], atoms, depth + 1)
    if tag == "call":
        # small pure workspace function: bound its return expression with the arguments substituted
        from vlint.terms import CALLINFO, Sym
        from vlint.paths import subst
        info = CALLINFO[t[4]] if t[4] < len(CALLINFO) else {}
        r = (info.get("res") or info) if info else {}
        g = fb.fns.get(r.get("key"))
        if g is not None and len(g.blocks) <= 6 and not any(b["term"]["k"] == "switch" for b in g.blocks):
            cs = Sym(g, fb)
            ret = cs.local(0)
            env = {("param", i + 1, g.locals[i + 1].get("name")): a for i, a in enumerate(t[2]) if i + 1 < len(g.locals)}
            return upper_bound(fb, m, subst(ret, env), atoms, depth + 1)
    if tag == "bin":
        a, b = upper_bound(fb, m, t[2], atoms, depth + 1), upper_bound(fb, m, t[3], atoms, depth + 1)
        if t[1] == "Add" and a is not None and b is not None:
            return a + b
        if t[1] == "Mul" and a is not None and b is not None:
            return a * b
        if t[1] == "Sub" and a is not None:
            return a
        if t[1] == "BitAnd":
            c = [x for x in (a, b) if x is not None]
            return min(c) if c else None
        if t[1] in ("Shr", "Div") and a is not None:
            return a
        if t[1] == "Rem" and b is not None and b > 0:
            return b - 1
    if tag == "phi":
        bs = [upper_bound(fb, m, x, atoms, depth + 1) for x in t[2]]
        if all(b is not None for b in bs):
            return max(bs)
    if tag == "field":
        # typed field: width bound is not available from the term; unknown
        return None
    return None


PURE = {"len", "size_of", "is_empty", "bits", "all", "as_ptr", "get_size", "count_ones", "as_slice", "deref",
        "borrow", "clone", "into", "from", "as_ref", "iter", "get_version", "is_reply", "is_need_reply"}


def norm(t):
    """Drop call-site identity of pure calls so that `len(buf)` at two sites compares equal."""
    if not isinstance(t, tuple) or not t:
        return t
    if t[0] == "call" and t[1] in PURE:
        return ("call", t[1], tuple(norm(a) for a in t[2]), 0, 0)
    return tuple(norm(x) if isinstance(x, tuple) else x for x in t)


def erase_sites(t):
    """Drop the call-site identity of every call (structural comparison of two expressions)."""
    if not isinstance(t, tuple) or not t:
        return t
    if t[0] == "call":
        return ("call", t[1], tuple(erase_sites(a) for a in t[2]), 0, 0)
    return tuple(erase_sites(x) if isinstance(x, tuple) else x for x in t)


def _strip(t):
    while t[0] in ("ref", "deref") or (t[0] == "cast" and INT_TYS.get(t[2], 0) >= INT_TYS.get(t[3], 65)):
        t = t[1]
    return norm(t)


def _flip(op):
    return {"Lt": "Gt", "Gt": "Lt", "Le": "Ge", "Ge": "Le", "Eq": "Eq", "Ne": "Ne"}[op]


def has_ge(fb, m, atoms, a, b):
    """must-fact a >= b ?"""
    sa, sb = _strip(a), _strip(b)
    for at in atoms:
        if at[0] != "cmp":
            continue
        for (op, x, y) in ((at[1], at[2], at[3]), (_flip(at[1]), at[3], at[2])):
            if _strip(x) == sa and _strip(y) == sb and op in ("Ge", "Gt", "Eq"):
                return True
    # constant b with known lower bound of a
    cb = const_eval(fb, m.sym, b)
    if cb is not None:
        for at in atoms:
            if at[0] == "cmp":
                for (op, x, y) in ((at[1], at[2], at[3]), (_flip(at[1]), at[3], at[2])):
                    if _strip(x) == sa:
                        c = const_eval(fb, m.sym, y)
                        if c is not None and ((op in ("Ge", "Eq") and c >= cb) or (op == "Gt" and c + 1 >= cb)):
                            return True
                        if op == "Ne" and c == 0 and cb == 1:
                            return True
    return False


def generic_discharge(fb, o):
    """-> (class, reason) or None."""
    m = o["m"]
    kind = o["kind"]
    atoms = m.atoms_at(o["bb"])
    ops = o["ops"]
    if kind.startswith("assert:"):
        cv = const_eval(fb, m.sym, o["cond"])
        if cv is not None and bool(cv) == bool(o["expected"]):
            return "A", "assert condition is a compile-time constant that cannot fail"
        k = kind[7:]
        if k == "Misaligned" or k == "NullDeref":
            return None
        if k.startswith("Overflow(Sub)") and len(ops) == 2:
            if has_ge(fb, m, atoms, ops[0], ops[1]):
                return "B", "must-fact %s >= %s" % (show(ops[0])[:40], show(ops[1])[:40])
            if ops[0][0] == "call" and ops[0][1] == "count_ones" and ops[1][0] == "call" and ops[1][1] == "count_ones":
                inner = ops[1][2][0]
                if any(s[0] == "call" and s[1] == "shr" or (s[0] == "bin" and s[1] == "Shr") for s in subterms(inner)):
                    return "A", "popcount(x >> k) <= popcount(x)"
        if k.startswith("Overflow(Add)") or k.startswith("Overflow(Mul)"):
            a, b = upper_bound(fb, m, ops[0], atoms), upper_bound(fb, m, ops[1], atoms)
            if a is not None and b is not None:
                tot = a + b if "Add" in k else a * b
                if tot < (1 << 64):
                    return "B", "operands bounded: %d, %d" % (a, b)
        if k == "BoundsCheck" and len(ops) == 2:
            ln, idx = ops
            for at in atoms:
                if at[0] == "cmp":
                    for (op, x, y) in ((at[1], at[2], at[3]), (_flip(at[1]), at[3], at[2])):
                        if _strip(x) == _strip(idx) and op == "Lt" and _len_of(y) is not None:
                            return "B", "must-fact index < len"
        if k.startswith("Overflow(Shl)") or k.startswith("Overflow(Shr)"):
            b = upper_bound(fb, m, ops[1], atoms) if len(ops) == 2 else None
            if b is not None and b < 64:
                return "B", "shift amount bounded by %d" % b
        return None
    name = kind[5:]
    if name in ("unwrap", "expect"):
        x = ops[0]
        while x[0] in ("ref", "deref"):
            x = x[1]
        if x[0] == "call" and x[1] in LOCKS:
            return "A", "lock poisoning only (input-independent)"
        for at in atoms:
            if at[0] == "ok" and _strip(at[1]) == _strip(ops[0]):
                return "B", "must-fact: value is Some/Ok"
    if name in ("index", "index_mut") and len(ops) == 2:
        idx = ops[1]
        if idx[0] == "agg" and idx[1].endswith("RangeFull"):
            return "A", "full-range index cannot fail"
        if idx[0] == "agg" and idx[1].endswith("RangeFrom"):
            start = idx[3][0][1]
            base = ops[0]
            cs = const_eval(fb, m.sym, start)
            for at in atoms:
                if at[0] == "cmp":
                    for (op, x, y) in ((at[1], at[2], at[3]), (_flip(at[1]), at[3], at[2])):
                        if _len_of(x) is not None and _strip(_len_of(x)) == _strip(base):
                            c = const_eval(fb, m.sym, y)
                            if cs is not None and c is not None and ((op == "Ge" and c >= cs) or (op == "Gt" and c + 1 >= cs)):
                                return "B", "must-fact len >= start"
        else:
            for at in atoms:
                if at[0] == "cmp":
                    for (op, x, y) in ((at[1], at[2], at[3]), (_flip(at[1]), at[3], at[2])):
                        if _strip(x) == _strip(idx) and op == "Lt" and _len_of(y) is not None \
                                and _strip(_len_of(y)) == _strip(ops[0]):
                            return "B", "must-fact index < len"
    if name == "swap_remove" and len(ops) == 2:
        ci = const_eval(fb, m.sym, ops[1])
        for at in atoms:
            if at[0] == "cmp" and at[1] == "Eq":
                for (x, y) in ((at[2], at[3]), (at[3], at[2])):
                    if _len_of(x) is not None and _strip(_len_of(x)) == _strip(ops[0]):
                        c = const_eval(fb, m.sym, y)
                        if c is not None and ci is not None and ci < c:
                            return "B", "must-fact len == %d" % c
    if name == "from_elem" and len(ops) == 2:
        n = upper_bound(fb, m, ops[1], atoms)
        if n is not None and n <= (1 << 20):
            return "B", "allocation size bounded by %d" % n
    if name in ARITH_TRAIT_CALLS and name in ("shl", "shr") and len(ops) == 2:
        b = upper_bound(fb, m, ops[1], atoms)
        if b is not None and b < 64:
            return "B", "shift amount bounded by %d" % b
    return None


def _len_of(t):
    t0 = t
    while t0[0] in ("ref", "deref", "cast"):
        t0 = t0[1]
    if t0[0] == "call" and t0[1] == "len" and len(t0[2]) == 1:
        return t0[2][0]
    if t0[0] == "un" and t0[1] == "PtrMetadata":
        return t0[2]
    return None


def audit(fb, chk, rule, roots, scope="", table=None, stop=None, tag=""):
    """Run the audit. `table`: {pattern: (class, reason, requirement|None, max_count)} where pattern is
    '<fn short>:<kind>:*' or '<fn short>:*'."""
    table = table or {}
    obs, keys = obligations(fb, roots, stop=stop)
    counts = {"A": 0, "B": 0, "C": 0}
    used = {}
    reported = set()
    for o in obs:
        key = ob_key(o)
        f = o["fn"]
        chk.fn_seen(f)
        d = generic_discharge(fb, o)
        if d is None:
            row = None
            kind = key.rsplit(":", 1)[0]
            for pat in (kind + ":*", f.short + ":*"):
                if pat in table:
                    row = table[pat]
                    used[pat] = used.get(pat, 0) + 1
                    if used[pat] > row[3]:
                        row = None
                        if key not in reported:
                            reported.add(key)
                            chk.bad(rule, tag + key, "more panic-capable operations of this kind in %s than the %d the reviewed row covers: %s %s"
                                    % (f.short, table[pat][3], o["kind"], [show(x)[:80] for x in o["ops"][:2]]), f.loc(o["line"]))
                    break
            if row is None:
                if key not in reported:
                    reported.add(key)
                    chk.bad(rule, tag + key, "undischarged panic-capable operation %s in %s, operands %s: no must-fact guard, no constant "
                            "operands and no reviewed invariant covers it (peer input may reach it; scope: %s)"
                            % (o["kind"], f.short, [show(x)[:100] for x in o["ops"][:2]], scope), f.loc(o["line"]))
                continue
            if row[2] is not None and not row[2](fb, o):
                chk.bad(rule, tag + key, "this panic edge is discharged by the invariant `%s`, whose machine-checked requirement no longer holds"
                        % row[1], f.loc(o["line"]))
                continue
            d = (row[0], row[1])
        counts[d[0]] += 1
        chk.ok(rule, tag + key, "class %s: %s" % d, f.loc(o["line"]), sample=(d[0] != "A"))
    chk.extra.setdefault("audit", {})[tag + rule] = {"scope": scope, "functions_reachable": len(keys), "obligations": len(obs),
                                                     "discharged": counts}
    return obs


# rows shared by every audit whose closure contains the transport layer
COMMON_TABLE = {
    "vhost::vhost_user::connection::get_sub_iovs_offset:Overflow(Add):*": ("C", "loop counter bounded by the slice length", None, 1),
    "Endpoint::recv_data:Overflow(Add):*": ("C", "bytes received per call <= len - data_read (the kernel returns at most the bytes requested), so data_read <= len", None, 1),
    "Endpoint::recv_data:index_mut:*": ("C", "data_read < len == rbuf.len() is the loop condition", None, 1),
    "Endpoint::recv_data:from_elem:*": ("C", "callers pass a header size field validated <= MAX_MSG_SIZE (backend: header validator; frontend-request server: explicit bound)", None, 1),
    "Endpoint::send_message_with_payload:Overflow(Add):*": ("C", "len <= MAX_MSG_SIZE - size_of::<T>() is a must-fact (relational bound)", None, 3),
    "Endpoint::recv_into_iovec_all:*": ("C", "transport loop invariant 0 <= data_read < data_total; the kernel returns at most the bytes requested; get_sub_iovs_offset returns an in-range (index, offset)", None, 7),
    "Endpoint::send_iovec_all:*": ("C", "transport loop invariant 0 <= data_sent < data_total; the kernel accepts at most the bytes offered", None, 7),
}
