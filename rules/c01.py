"""C01 — wire encoding of every message matches the vhost-user specification."""
from spec import wire
from vlint.absint import Eval, Undecided, const_eval, size_of_type
from vlint.facts import callee_of, resolved, AnchorMissing
from vlint.terms import Sym, show, subterms, peel
from vlint.util import must_of, sites, enum_variant_of, option_shape, field_writes
from vlint.gates import field_of, root_of
from . import common

EXPLANATION = (
    "Decides that the program's encoding tables and message composition agree with an independent "
    "transcription of the specification (spec/wire.py): layout of every ByteValued wire struct "
    "(size, field offsets/widths from rustc's layout_of), every request code / flag / feature bit, "
    "the header constructor's bit behaviour, the (code, body type, payload, descriptors) tuple of "
    "every public operation on all four channels and of every server arm, field provenance of "
    "the conversions that place caller values into wire structs, and the iovec order / "
    "descriptor attachment of the send loop. The comparison's other side is not the crate, so the "
    "symmetric-change blind spot of self-connected tests disappears."
    ' Also: (W3) the flags word of every reply/ack header is decided on the VALUE the constructor function returns, read field by field along each success path (constructor call, copy-plus-setters and literal give the same verdict); (W7, W8) sibling rules C07/G1 and C08/S2 for the descriptor form of SET_LOG_BASE and for descriptors of segmented messages.')
NOT_DECIDED = ("Bytes of a concrete run, kernel SCM_RIGHTS behaviour, native endianness (follows from "
               "ByteValued raw copies, assumed).")


def run(ctx, chk):
    fb = ctx.fb("full")
    chk.explanation = EXPLANATION
    chk.not_decided = NOT_DECIDED
    chk.cfgs["full"] = fb.hashes
    chk.rule("W1", "every ByteValued wire struct: size and per-field (offset,width) equal the "
                   "specification's; public fields matched by name, private ones by position")
    chk.rule("W2", "request codes, header flags, feature bits and protocol limits equal the specification's")
    chk.rule("W3", "header constructor: version bits = 01, reserved bits = 0, REPLY/NEED_REPLY pass "
                   "through; callers pass REPLY only for replies and never set NEED_REPLY on replies")
    chk.rule("W4", "per operation the (request code, body type, payload, descriptors) tuple put on "
                   "the wire equals the specification's; server arms decode the same body type")
    chk.rule("W5", "conversions into wire structs place each caller value in the specified field "
                   "without narrowing")
    chk.rule("W6", "send path: iovec order is header, body, payload; descriptors only with the first chunk")
    w1(fb, chk, wire.STRUCTS)
    w2(fb, chk)
    w3(fb, chk)
    w4(fb, chk)
    w5(fb, chk)
    w6(fb, chk)
    from . import xlist
    xlist.apply("C01", fb, chk)
    n = lambda r: len([i for i in chk.instances if i[0] == r])
    chk.floor("W1", n("W1"), 29)
    chk.floor("W2", n("W2"), 100)
    chk.floor("W4", n("W4"), 80)
    chk.floor("W5", n("W5"), 20)


def thorough(ctx, chk):
    fbx = ctx.fb("xen")
    chk.cfgs["xen"] = fbx.hashes
    structs = dict(wire.STRUCTS)
    structs.update(wire.XEN_STRUCTS)
    w1(fbx, chk, structs, tag="xen/")
    fbb = ctx.fb("base")
    chk.cfgs["base"] = fbb.hashes
    w1(fbb, chk, wire.STRUCTS, tag="base/")
    w4(fbb, chk, tag="base/")


# ---------------------------------------------------------------------------- W1

def w1(fb, chk, structs, tag=""):
    impls = [i for i in fb.impls if (i.get("trait") or "").endswith("::ByteValued") and i["crate"] == "vhost"]
    seen = set()
    for i in impls:
        adt = i.get("self_adt")
        if not adt:
            continue
        short = adt.split("::")[-1]
        recs = fb.adt_by_path.get(adt, [])
        if short in ("VhostUserMsgHeader", "VhostUserGpuMsgHeader"):
            if not recs:
                chk.bad("W1", tag + short, "no concrete instantiation of %s found" % short)
            for r in recs:
                inst = r["ty"].split("<")[-1].rstrip(">").split("::")[-1]
                key = "%s%s<%s>" % (tag, short, inst)
                fields = [(f["name"], f.get("offset"), f.get("size")) for f in r["variants"][0]["fields"] if f.get("size")]
                got = sorted((o, s) for (_n, o, s) in fields)
                want = sorted((o, s) for (_n, o, s) in wire.HEADER)
                chk.check(r.get("size") == wire.HEADER_SIZE and got == want, "W1", key,
                          "size 12, fields %s" % got,
                          "header layout %s size %s differs from the specification's %s size 12"
                          % (fields, r.get("size"), wire.HEADER), "%s:%s" % (r["file"], r["line"]))
            seen.add(short)
            continue
        spec = wire.SPEC_NAME.get(short)
        if spec is None:
            chk.bad("W1", tag + short, "ByteValued wire type %s has no row in the specification table "
                    "(a new wire struct must come with its specified layout)" % short,
                    "%s:%s" % (i["file"], i["line"]))
            continue
        seen.add(short)
        if not recs:
            chk.bad("W1", tag + short, "no layout record for %s" % short)
            continue
        r = recs[0]
        size, sfields = structs[spec]
        fields = r["variants"][0]["fields"] if r["variants"] else []
        problems = []
        if r.get("size") != size:
            problems.append("size %s != %s" % (r.get("size"), size))
        got_pos = sorted((f.get("offset"), f.get("size")) for f in fields if f.get("size"))
        want_pos = sorted((o, s) for (_n, o, s) in sfields if s)
        if got_pos != want_pos:
            problems.append("field positions %s != %s" % (got_pos, want_pos))
        sp = {n: (o, s) for (n, o, s) in sfields}
        for f in fields:
            if f.get("pub") and f["name"] in sp:
                if (f.get("offset"), f.get("size")) != sp[f["name"]]:
                    problems.append("field %s at (%s,%s), specified %s" % (f["name"], f.get("offset"), f.get("size"), sp[f["name"]]))
            elif f.get("pub") and f.get("size"):
                problems.append("public field %s is not in the specification's struct" % f["name"])
        # no interior padding unless specified (sum of field sizes vs size); tail padding is in `size`
        chk.check(not problems, "W1", tag + short,
                  "size %d, %d fields at specified offsets" % (size, len(fields)),
                  "layout of %s differs from the specification: %s" % (short, "; ".join(problems)),
                  "%s:%s" % (r["file"], r["line"]))
    for spec, rn in wire.RUST_NAME.items():
        if rn not in seen and fb.cfg != "xen":
            # GPU types exist in every cfg; anything missing is a lost anchor
            chk.bad("W1", tag + rn, "specified wire struct %s (%s) not found among ByteValued types" % (spec, rn))


# ---------------------------------------------------------------------------- W2

def w2(fb, chk):
    def enum(name, table, exact=True):
        try:
            d = fb.enum_discriminants(name)
        except AnchorMissing as e:
            chk.anchor_missing("W2", name, str(e))
            return
        for k, v in sorted(table.items()):
            chk.check(d.get(k) == v, "W2", "%s::%s" % (name, k), "= %d" % v,
                      "%s::%s = %s, specification says %d" % (name, k, d.get(k), v), sample=False) \
                if False else _w2(chk, "%s::%s" % (name, k), d.get(k), v)
        for k in sorted(set(d) - set(table)):
            chk.bad("W2", "%s::%s" % (name, k), "request code %s=%s is not in the specification table" % (k, d[k]))

    enum("message::FrontendReq", wire.FRONTEND_REQ)
    enum("message::BackendReq", wire.BACKEND_REQ)
    enum("gpu_message::GpuBackendReq", wire.GPU_REQ)
    enum("message::VhostTransferStateDirection", wire.TRANSFER_DIRECTION)
    enum("message::VhostTransferStatePhase", wire.TRANSFER_PHASE)

    def flags(tyname, table):
        for k, v in sorted(table.items()):
            path = "%s::%s" % (tyname, k)
            try:
                got = fb.const_value(path)
            except AnchorMissing:
                got = None
            _w2(chk, path, got, v)
        # constants declared for the type but unknown to the specification
        full = [p for p in fb.consts if p.endswith("::" + tyname + "::" + next(iter(table)))]
        if full:
            prefix = full[0].rsplit("::", 1)[0]
            for p, c in fb.consts.items():
                if p.startswith(prefix + "::") and p.count("::") == prefix.count("::") + 1 and "v" in c:
                    nm = p.rsplit("::", 1)[1]
                    if nm not in table:
                        chk.bad("W2", "%s::%s" % (tyname, nm),
                                "flag %s=%#x is not in the specification table" % (nm, c["v"]))

    flags("VhostUserHeaderFlag", wire.HEADER_FLAGS)
    flags("VhostUserVirtioFeatures", wire.VIRTIO_FEATURES)
    flags("VhostUserProtocolFeatures", wire.PROTOCOL_FEATURES)
    flags("VhostUserVringAddrFlags", wire.VRING_ADDR_FLAGS)
    flags("VhostUserConfigFlags", wire.CONFIG_FLAGS)
    flags("VhostUserMMapFlags", wire.MMAP_FLAGS)
    flags("VhostUserGpuHeaderFlag", wire.GPU_HEADER_FLAGS)
    for path, v in (("message::MAX_MSG_SIZE", wire.MAX_MSG_SIZE),
                    ("message::MAX_ATTACHED_FD_ENTRIES", wire.MAX_FDS),
                    ("message::VHOST_USER_CONFIG_SIZE", wire.CONFIG_SPACE_END),
                    ("message::VHOST_USER_MAX_VRINGS", wire.MAX_VRINGS)):
        try:
            got = fb.const_value(path)
        except AnchorMissing:
            got = None
        _w2(chk, path, got, v)


def _w2(chk, key, got, want):
    if got == want:
        chk.ok("W2", key, "= %#x" % want)
    else:
        chk.bad("W2", key, "%s = %s, the specification says %#x"
                % (key, hex(got) if isinstance(got, int) else got, want))


# ---------------------------------------------------------------------------- W3

def header_new_fns(fb):
    return [f for f in fb.find(name="new") if f.self_adt and f.self_adt.split("::")[-1]
            in ("VhostUserMsgHeader", "VhostUserGpuMsgHeader")]


def w3(fb, chk):
    for f in header_new_fns(fb):
        chk.fn_seen(f)
        short = f.self_adt.split("::")[-1]
        sym = Sym(f, fb)
        ret = sym.local(0)
        if ret[0] != "agg":
            # built step by step (default value + setters / field updates): read the returned value field by field
            from . import headers
            hs = headers.built_headers(fb, f)
            if len(hs) != 1 or any(hs[0][k] is None for k in ("request", "flags", "size")):
                chk.bad("W3", short + "::new", "constructor's return value cannot be read field by field: %s" % show(ret)[:100], f.loc())
                continue
            adt0 = fb.adt_generic.get(f.self_adt)
            fn0 = [x["name"] for x in adt0["variants"][0]["fields"]] if adt0 else ["request", "flags", "size"]
            fields = {fn0[0]: hs[0]["request"], fn0[1]: hs[0]["flags"], fn0[2]: hs[0]["size"]}
            sym = hs[0]["sym"]
        else:
            fields = dict(ret[3])
        names = f.arg_names()
        # identify the flags field = the one whose term depends on the `flags` parameter
        # (position: header field at offset 4 => second declared field)
        adt = fb.adt_generic.get(f.self_adt)
        fnames = [x["name"] for x in adt["variants"][0]["fields"]] if adt else list(fields)
        req_f, flags_f, size_f = fnames[0], fnames[1], fnames[2]
        pflags = ("param", 2, names[1])
        psize = ("param", 3, names[2])
        preq = ("param", 1, names[0])
        fl = fields[flags_f]
        # the flags term must be bitwise only; evaluate on 0, all-ones and each single bit
        def evf(v):
            return Eval(fb, sym, {pflags: v}).ev(fl)
        try:
            z = evf(0)
            o = evf(0xFFFFFFFF)
            singles = [evf(1 << i) for i in range(32)]
        except Undecided as e:
            chk.bad("W3", short + "::new", "cannot evaluate the flags expression (%s): %s" % (e, show(fl)), f.loc())
            continue
        bitwise = all(s == (z | (o & (1 << i))) or s == z for i, s in enumerate(singles))
        if short == "VhostUserMsgHeader":
            want_pass = wire.FLAG_REPLY | wire.FLAG_NEED_REPLY
            good = (z == wire.FLAG_VERSION) and (o == (wire.FLAG_VERSION | want_pass)) and bitwise
            chk.check(good, "W3", short + "::new:flags",
                      "flags(0)=%#x flags(~0)=%#x: version 1 forced, only REPLY|NEED_REPLY pass" % (z, o),
                      "header flags are built as %s: flags(0)=%#x (want 0x1), flags(~0)=%#x (want %#x)"
                      % (show(fl), z, o, wire.FLAG_VERSION | want_pass), f.loc())
        else:
            # GPU header: spec defines only REPLY (bit 2); version bits are not part of the GPU header
            good = (z == 0) and (o & ~wire.FLAG_REPLY & 0xFFFFFFFF) in (0, o & ~wire.FLAG_REPLY & 0xFFFFFFFF) and bitwise
            chk.check(good and z == 0, "W3", short + "::new:flags",
                      "flags(0)=%#x flags(~0)=%#x" % (z, o),
                      "GPU header flags: flags(0)=%#x flags(~0)=%#x" % (z, o), f.loc())
        # request and size pass through unchanged
        rq, ch = peel(fields[req_f])
        chk.check(rq == preq and not any(c.startswith("cast") for c in ch), "W3", short + "::new:request",
                  "request <- %s via %s" % (show(rq), ch),
                  "request field is %s, expected the request argument converted by Into<u32>" % show(fields[req_f]), f.loc())
        chk.check(fields[size_f] == psize, "W3", short + "::new:size", "size <- size argument",
                  "size field is %s, expected the size argument unchanged" % show(fields[size_f]), f.loc())
    # the frontend's configurable header flags are what the application last set (set_hdr_flags replaces, it does not add)
    for g in fb.find(name="set_hdr_flags", self_adt="Frontend"):
        gs = Sym(g, fb)
        ws_ = [w for w in field_writes(g) if "flags" in (w["field"] or "")]
        if not ws_:
            chk.bad("W3", "setter:set_hdr_flags", "Frontend::set_hdr_flags does not assign the header flags (a compound update such as `|=` "
                    "keeps flags that were set earlier in every later request header)", g.loc())
        for w in ws_:
            v = gs.rvalue(w["rv"])
            while v[0] in ("ref", "deref"):
                v = v[1]
            chk.check(v[0] == "param", "W3", "setter:set_hdr_flags", "hdr_flags <- the parameter",
                      "Frontend::set_hdr_flags stores `%s`, not the flags it was given: a flag once set stays in every later request "
                      "header" % show(v)[:60], g.loc(w["line"]))
    # callers of the constructor: the flags argument
    news = {f.key for f in header_new_fns(fb)}
    ncallers = 0
    for g in fb.fns.values():
        if g.file and "/tests" in g.file:
            continue
        for bb, t in g.calls():
            c = callee_of(t)
            if c is None or resolved(c)["key"] not in news:
                continue
            ncallers += 1
            m = must_of(fb, g)
            args = m.sym.arg_terms(bb)
            chk.fn_seen(g)
            key = "caller:%s" % g.short
            fv = const_eval(fb, m.sym, args[1])
            role = caller_role(g)
            if role == "reply":
                # decided on the value the constructor function returns (below): the argument given to `new` is only
                # one of the ways the flags word can be put together
                chk.ok("W3", key, "reply header: flags decided on the returned value (reply-header-value)", g.loc(t["line"]))
            elif role == "frontend-request":
                # hdr_flags | 1 : evaluate with the configurable flags = 0 and = NEED_REPLY
                leaf = [s for s in subterms(args[1]) if s[0] == "field"]
                ok = False
                try:
                    env0 = {l: 0 for l in leaf}
                    env1 = {l: wire.FLAG_NEED_REPLY for l in leaf}
                    v0 = Eval(fb, m.sym, env0).ev(args[1])
                    v1 = Eval(fb, m.sym, env1).ev(args[1])
                    ok = (v0 & wire.FLAG_REPLY) == 0 and (v1 & wire.FLAG_NEED_REPLY) != 0 and (v1 & wire.FLAG_REPLY) == 0
                except Undecided:
                    ok = False
                chk.check(ok, "W3", key, "request flags = configured header flags | version",
                          "request header flags expression %s does not pass the configured flags / sets REPLY" % show(args[1]),
                          g.loc(t["line"]))
            else:
                okv = fv == 0
                detail = hex(fv) if fv is not None else show(args[1])
                if not okv:
                    # the flags may be handed to the constructor already combined: decide on the header value that reaches
                    # the socket on every path (version only, or version | NEED_REPLY under a negotiated-flag test)
                    from . import headers
                    _fi, hs = headers.sent_headers(fb, g)
                    gpu = "Gpu" in (c.get("self_ty") or resolved(c).get("self_ty") or "")
                    bad = []
                    for h in hs:
                        guarded = any(a[0] == "true" and a[1][0] in ("field", "deref") for a in h["atoms"])
                        allowed = {0} if gpu else ({wire.FLAG_VERSION, wire.FLAG_VERSION | wire.FLAG_NEED_REPLY} if guarded else {wire.FLAG_VERSION})
                        if h["flags_value"] not in allowed:
                            bad.append(hex(h["flags_value"]) if h["flags_value"] is not None else show(h["flags"])[:40])
                    okv = bool(hs) and not bad
                    detail = "flags words sent: %s" % (bad or "none found")
                chk.check(okv, "W3", key, "request header built with flags = 0 (NEED_REPLY added under negotiation only)",
                          "request header built with flags %s (want version only; NEED_REPLY only under the negotiated reply-ack flag)" % detail,
                          g.loc(t["line"]))
    chk.floor("W3", ncallers, 5)
    # reply headers, whatever way they are put together (constructor call, copy of the request plus setters, literal):
    # read the returned value field by field on every success path
    from . import headers
    for adt in ("BackendReqHandler", "FrontendReqHandler"):
        for g in fb.find(self_adt=adt):
            if g.trait or g.name == "new" or "MsgHeader" not in (g.rec.get("sig_out") or ""):
                continue
            hs = headers.built_headers(fb, g)
            bad = sorted({hex(h["flags_value"]) if h["flags_value"] is not None else show(h["flags"])[:60] for h in hs
                          if h["flags_value"] != (wire.FLAG_REPLY | wire.FLAG_VERSION)})
            chk.check(bool(hs) and not bad, "W3", "reply-header-value:%s" % g.short, "flags word = 0x5 (version 1 | REPLY) on %d success paths" % len(hs),
                      "%s returns a reply/ack header whose flags word is %s; the specification prescribes exactly version 1 | REPLY (0x5): "
                      "NEED_REPLY clear and nothing carried over from the request" % (g.short, bad or "not readable"), g.loc())


def caller_role(g):
    sa = (g.self_adt or "").split("::")[-1]
    if sa in ("BackendReqHandler", "FrontendReqHandler"):
        return "reply"
    if sa == "FrontendInternal":
        return "frontend-request"
    return "request"


# ---------------------------------------------------------------------------- W4

def body_type_of_site(t, c, f=None, sym=None):
    """Body type T of a generic sender call (first generic arg) or None.  Inside an expanded generic helper the call is still
    generic (`T`): the type is then the one of the caller's value that was passed down as the `&T` argument."""
    g = c.get("gargs") or []
    ty = g[-1].split("::")[-1] if g else None
    if ty is not None and len(ty) <= 2 and ty[:1].isupper() and f is not None and sym is not None:
        from vlint.util import concrete_arg_type
        for idx, aty in enumerate(t.get("atys") or []):
            if aty.strip() in ("&" + ty, "&mut " + ty, ty):
                got = concrete_arg_type(f, sym, t, idx)
                if got and got.strip() not in ("&" + ty, "&mut " + ty, ty):
                    return got.replace("&mut ", "").lstrip("&").split("::")[-1]
    return ty


def w4(fb, chk, tag=""):
    has_postcopy = bool(fb.find(name="postcopy_advise", self_adt="Frontend"))
    fm = common.frontend_methods(fb)
    # ---- frontend operations
    for code, row in sorted(wire.FRONTEND_TABLE.items()):
        if "F" not in row["impl"]:
            continue
        if row.get("feature") == "postcopy" and not has_postcopy:
            continue
        f = fm.get(row["fe"])
        key = "%sfrontend:%s" % (tag, code)
        if f is None:
            chk.bad("W4", key, "frontend operation %s not found" % row["fe"])
            continue
        chk.fn_seen(f)
        m = must_of(fb, f)
        ss = common.request_sender_sites(f)
        if not ss:
            chk.bad("W4", key, "no request is sent by %s" % f.short, f.loc())
            continue
        for bb, t, c, ai in ss:
            args = m.sym.arg_terms(bb)
            _, var = enum_variant_of(args[ai])
            skey = key
            legacy = False
            if code == "SET_LOG_BASE" and option_shape(args[-1])[0] == "None":
                legacy = True
                skey = key + ":legacy"
            if var != code:
                chk.bad("W4", skey, "%s sends request code %s; the specification's code for this "
                        "operation is %s" % (f.short, var, code), f.loc(t["line"]))
                continue
            body = body_type_of_site(t, c, f, m.sym)
            want_body = wire.RUST_NAME[row["body"]] if row["body"] else None
            if legacy:
                want_body = "VhostUserU64"
            sender = c.get("name")
            # senders without a generic body: header only, or the vring-fd helper (u64 body)
            if body is None:
                body = sender_fixed_body(fb, c)
            has_payload = "payload" in (sender or "")
            fds_shape = option_shape(args[-1])[0] if "Option" in (t["atys"][-1]) else "rawfd"
            want_fds = row["fds"] if not legacy else 0
            fds_ok = (fds_shape == "None") if want_fds == 0 else (fds_shape in ("Some", "rawfd"))
            probs = []
            if body != want_body:
                probs.append("body type %s (specified %s)" % (body, want_body))
            if has_payload != row["payload"]:
                probs.append("payload %s (specified %s)" % (has_payload, row["payload"]))
            if not fds_ok:
                probs.append("descriptors %s (specified %s)" % (fds_shape, want_fds))
            chk.check(not probs, "W4", skey, "code %s body %s payload %s fds %s" % (code, body, has_payload, fds_shape),
                      "%s composes %s with %s" % (f.short, code, "; ".join(probs)), f.loc(t["line"]))
    # every request sender site in the frontend sends a code the table knows for that method
    # ---- backend server arms: decoded body type per code
    hr = common.dispatch_fn(fb)
    mh = must_of(fb, hr)
    chk.fn_seen(hr)
    arm_bodies = {}
    for bb, t, c in sites(hr, name="extract_request_body"):
        codes = common.arm_codes(mh, bb)
        for code in codes:
            arm_bodies.setdefault(code, set()).add(body_type_of_site(t, c))
    for code, row in sorted(wire.FRONTEND_TABLE.items()):
        if "B" not in row["impl"] or row.get("feature") == "postcopy" and not has_postcopy:
            continue
        key = "%sbackend-arm:%s" % (tag, code)
        want = wire.RUST_NAME[row["body"]] if row["body"] else None
        got = arm_bodies.get(code, set())
        if want is None or row["payload"] or row["fds"] == "opt":
            # header-only requests and variable/bit-coded bodies are decoded by dedicated helpers;
            # they must not be decoded as some other fixed struct
            chk.check(not got or got == {want}, "W4", key, "no conflicting fixed-body decode",
                      "arm %s decodes body as %s (specified %s)" % (code, sorted(map(str, got)), want), hr.loc())
        else:
            chk.check(got == {want}, "W4", key, "decodes %s" % want,
                      "arm %s decodes body as %s, the specification says %s" % (code, sorted(map(str, got)), want), hr.loc())
    # ---- reply body types: backend arm's reply and frontend's decode agree with the specification
    reply_senders = {"send_reply_message", "send_reply_with_payload", "send_message", "send_message_with_payload"}
    server_fns = [x for x in fb.find(self_adt="BackendReqHandler") if not x.trait]
    for code, row in sorted(wire.FRONTEND_TABLE.items()):
        if row["reply"] == "ack" or (row.get("feature") == "postcopy" and not has_postcopy):
            continue
        want = wire.RUST_NAME[row["reply"][1]]
        if "B" in row["impl"]:
            got = set()
            for g in server_fns:
                gm = must_of(fb, g)
                for bb, t, c in sites(g, name=reply_senders):
                    if g.key == hr.key:
                        if code not in common.arm_codes(mh, bb):
                            continue
                    elif not (g.name.lower().replace("_", "") in code.lower().replace("_", "") or code.lower().replace("_", "") in g.name.lower().replace("_", "")):
                        continue
                    bt = body_type_of_site(t, c)
                    if bt and len(bt) > 2:
                        got.add(bt)
            chk.check(got == {want}, "W4", "%sbackend-reply:%s" % (tag, code), "reply body %s" % want,
                      "arm %s replies with body type(s) %s; the specification's reply is %s" % (code, sorted(got), want), hr.loc())
        if "F" in row["impl"] and not (code == "SET_LOG_BASE"):
            f = fm.get(row["fe"])
            if f is not None:
                got = {body_type_of_site(t, c) for bb, t, c in sites(f, name={"recv_reply", "recv_reply_with_files", "recv_reply_with_optional_files", "recv_reply_with_payload"})}
                chk.check(got == {want}, "W4", "%sfrontend-reply:%s" % (tag, code), "reply decoded as %s" % want,
                          "%s decodes the reply as %s; the specification's reply is %s" % (f.short, sorted(map(str, got)), want), f.loc())
    # ---- backend->frontend proxy
    for code, row in sorted(wire.BACKEND_TABLE.items()):
        if not row.get("proxy"):
            continue
        fs = [f for f in fb.find(name=row["proxy"], self_adt="Backend") if f.trait]
        key = "%sproxy:%s" % (tag, code)
        if len(fs) != 1:
            chk.bad("W4", key, "proxy method %s not found" % row["proxy"])
            continue
        f = fs[0]
        chk.fn_seen(f)
        m = must_of(fb, f)
        for bb, t, c, ai in common.request_sender_sites(f, common.BACKEND_REQ_TY):
            args = m.sym.arg_terms(bb)
            _, var = enum_variant_of(args[ai])
            body = body_type_of_site(t, c, f, m.sym)
            fds_shape = option_shape(args[-1])[0]
            probs = []
            if var != code:
                probs.append("code %s" % var)
            if body != wire.RUST_NAME[row["body"]]:
                probs.append("body %s (specified %s)" % (body, wire.RUST_NAME[row["body"]]))
            if (fds_shape == "Some") != bool(row["fds"]):
                probs.append("descriptors %s (specified %s)" % (fds_shape, row["fds"]))
            chk.check(not probs, "W4", key, "code %s body %s fds %s" % (var, body, fds_shape),
                      "%s composes %s with %s" % (f.short, code, "; ".join(probs)), f.loc(t["line"]))
    # ---- frontend-side server for backend requests: decoded body types
    fr = common.dispatch_fn(fb, "FrontendReqHandler")
    mf = must_of(fb, fr)
    chk.fn_seen(fr)
    arm_b = {}
    for bb, t, c in sites(fr, name="extract_msg_body"):
        for code in common.arm_codes(mf, bb):
            arm_b.setdefault(code, set()).add(body_type_of_site(t, c))
    for code, row in sorted(wire.BACKEND_TABLE.items()):
        key = "%sfrontend-server-arm:%s" % (tag, code)
        want = wire.RUST_NAME[row["body"]] if row["body"] else None
        got = arm_b.get(code, set())
        if want is None:
            chk.check(not got, "W4", key, "header-only", "arm %s decodes %s" % (code, got), fr.loc())
        else:
            chk.check(got == {want}, "W4", key, "decodes %s" % want,
                      "arm %s decodes body as %s, the specification says %s" % (code, sorted(map(str, got)), want), fr.loc())
    # ---- GPU proxy
    for code, row in sorted(wire.GPU_TABLE.items()):
        fs = fb.find(name=row["method"], self_adt="GpuBackend")
        key = "%sgpu:%s" % (tag, code)
        if len(fs) != 1:
            chk.bad("W4", key, "GPU proxy method %s not found" % row["method"])
            continue
        f = fs[0]
        chk.fn_seen(f)
        m = must_of(fb, f)
        ss = common.request_sender_sites(f, common.GPU_REQ_TY)
        if not ss:
            chk.bad("W4", key, "no request sent by %s" % f.short, f.loc())
        for bb, t, c, ai in ss:
            args = m.sym.arg_terms(bb)
            _, var = enum_variant_of(args[ai])
            body = body_type_of_site(t, c, f, m.sym)
            want_body = wire.RUST_NAME[row["body"]] if row["body"] else None
            has_payload = "payload" in (c.get("name") or "")
            probs = []
            if var != code:
                probs.append("code %s" % var)
            if body != want_body and not (want_body is None and body in (None, "VhostUserEmpty")):
                probs.append("body %s (specified %s)" % (body, want_body))
            if has_payload != row["payload"]:
                probs.append("payload %s (specified %s)" % (has_payload, row["payload"]))
            fds_shape = option_shape(args[-1])[0] if "Option" in t["atys"][-1] else "n/a"
            if row["fds"] == 0 and fds_shape == "Some":
                probs.append("descriptors attached (specified none)")
            if row["fds"] == "opt" and fds_shape == "None":
                probs.append("descriptor never attached (specified optional)")
            chk.check(not probs, "W4", key, "code %s body %s payload %s" % (var, body, has_payload),
                      "%s composes %s with %s" % (f.short, code, "; ".join(probs)), f.loc(t["line"]))
            # reply type
            if row["reply"]:
                want_r = wire.RUST_NAME[row["reply"]]
                rs = [(b2, t2, c2) for (b2, t2, c2) in sites(f, name="recv_reply")]
                got_r = {body_type_of_site(t2, c2) for (_b, t2, c2) in rs}
                chk.check(got_r == {want_r}, "W4", key + ":reply", "reply decoded as %s" % want_r,
                          "%s decodes the reply as %s, specified %s" % (f.short, sorted(map(str, got_r)), want_r), f.loc())
            else:
                rs = sites(f, name="recv_reply")
                chk.check(not rs, "W4", key + ":reply", "no reply awaited",
                          "%s waits for a reply although %s has none" % (f.short, code), f.loc())


def sender_fixed_body(fb, c):
    """Body type of a non-generic sender (e.g. the vring-fd helper): the body type of the
    endpoint send it reaches."""
    r = resolved(c)
    f = fb.fns.get(r["key"])
    if f is None:
        return None
    for bb, t, cc in sites(f, name={"send_message", "send_message_with_payload"}):
        return body_type_of_site(t, cc)
    return None


# ---------------------------------------------------------------------------- W5

PROVENANCE = [
    # (function name, self adt, {wire field: source field or parameter})
    ("to_region", "VhostUserMemoryRegionInfo",
     {"guest_phys_addr": "guest_phys_addr", "memory_size": "memory_size", "user_addr": "userspace_addr",
      "mmap_offset": "mmap_offset"}),
    ("to_single_region", "VhostUserMemoryRegionInfo",
     {"guest_phys_addr": "guest_phys_addr", "memory_size": "memory_size", "user_addr": "userspace_addr",
      "mmap_offset": "mmap_offset"}),
    ("from_config_data", "VhostUserVringAddr",
     {"index": "index", "flags": "flags", "descriptor": "desc_table_addr", "used": "used_ring_addr",
      "available": "avail_ring_addr", "log": "log_addr"}),
]


def flatten_agg(fb, sym, t, depth=0):
    """Resolve a struct-valued term to {field: term}, inlining simple constructor calls."""
    while t[0] in ("ref", "deref"):
        t = t[1]
    if t[0] == "agg":
        return dict(t[3])
    if t[0] == "call" and depth < 4:
        info = sym.info(t)
        r = resolved(info) if not info.get("indirect") else None
        if r and r["key"] in fb.fns:
            f = fb.fns[r["key"]]
            cs = Sym(f, fb)
            ret = cs.local(0)
            sub = flatten_agg(fb, cs, ret, depth + 1)
            if sub is None:
                return None
            # substitute parameters by the caller's arguments
            env = {}
            for i, a in enumerate(t[2]):
                env[("param", i + 1, f.locals[i + 1].get("name"))] = a
            return {k: subst(v, env) for k, v in sub.items()}
    return None


def subst(t, env):
    if not isinstance(t, tuple):
        return t
    if t in env:
        return env[t]
    return tuple(subst(x, env) if isinstance(x, tuple) else x for x in t)


def w5(fb, chk):
    for name, adt, table in PROVENANCE:
        fs = fb.find(name=name, self_adt=adt)
        if len(fs) != 1:
            chk.anchor_missing("W5", "%s::%s" % (adt, name))
            continue
        f = fs[0]
        chk.fn_seen(f)
        sym = Sym(f, fb)
        fields = flatten_agg(fb, sym, sym.local(0))
        if fields is None:
            chk.bad("W5", "%s::%s" % (adt, name), "cannot resolve the constructed struct: %s" % show(sym.local(0))[:120], f.loc())
            continue
        if "region" in fields and "guest_phys_addr" not in fields:
            inner = flatten_agg(fb, sym, fields["region"])
            pad = fields.get("padding")
            chk.check(pad is not None and const_eval(fb, sym, pad) == 0, "W5", "%s::%s:padding" % (adt, name),
                      "padding = 0", "padding field is %s (must be 0)" % show(pad), f.loc())
            fields = inner or {}
        for wf, src in sorted(table.items()):
            t = fields.get(wf)
            key = "%s::%s:%s" % (adt, name, wf)
            if t is None:
                chk.bad("W5", key, "wire field %s not set" % wf, f.loc())
                continue
            root, chain = peel(t, through_calls={"into", "from", "clone", "unwrap_or"})
            narrowing = [c for c in chain if c.startswith("cast:") and _narrows(c)]
            srcname = None
            if root[0] == "field":
                srcname = root[2]
            elif root[0] == "param":
                srcname = root[2]
            elif root[0] == "call" and root[1] == "unwrap_or":
                r2, _ = peel(root[2][0])
                srcname = r2[2] if r2[0] in ("field", "param") else None
            chk.check(srcname == src and not narrowing, "W5", key, "%s <- %s %s" % (wf, srcname, chain),
                      "wire field %s is filled from %s (%s); the specification maps it to %s"
                      % (wf, srcname, show(t)[:80], src), f.loc())
    # constructors `new` of wire structs keep argument order: field i <- parameter of the same name
    for sname in ("VhostUserVringState", "VhostUserConfig", "VhostUserLog", "VhostUserInflight",
                  "VhostUserU64", "VhostUserMemory", "VhostUserVringAddr", "VhostUserTransferDeviceState",
                  "VhostUserMemoryRegion"):
        fs = [f for f in fb.find(name="new", self_adt=sname)]
        if len(fs) != 1:
            if sname == "VhostUserMemoryRegion" and fb.cfg == "xen":
                continue
            chk.anchor_missing("W5", sname + "::new")
            continue
        f = fs[0]
        chk.fn_seen(f)
        sym = Sym(f, fb)
        fields = flatten_agg(fb, sym, sym.local(0))
        if not fields:
            chk.bad("W5", sname + "::new", "cannot resolve constructor result", f.loc())
            continue
        pnames = f.arg_names()
        alias = {"cnt": "num_regions", "value": "value"}
        for wf, t in sorted(fields.items()):
            root, chain = peel(t, through_calls={"into", "from", "bits"})
            key = "%s::new:%s" % (sname, wf)
            if root[0] == "param":
                want = alias.get(root[2], root[2])
                narrowing = [c for c in chain if c.startswith("cast:") and _narrows(c)]
                chk.check(want == wf and not narrowing, "W5", key, "%s <- param %s" % (wf, root[2]),
                          "constructor stores parameter %s in field %s" % (root[2], wf), f.loc())
            elif root[0] == "const":
                chk.check(wf.startswith("padding") and root[1] == 0, "W5", key, "constant 0 padding",
                          "field %s initialised with constant %s" % (wf, show(root)), f.loc())
    # the vring-fd helper: body value is exactly the queue index zero-extended
    fs = fb.find(name="send_fd_for_vring", self_adt="FrontendInternal")
    if len(fs) == 1:
        f = fs[0]
        m = must_of(fb, f)
        for bb, t, c in sites(f, name="send_message"):
            args = m.sym.arg_terms(bb)
            body = flatten_agg(fb, m.sym, args[2])
            v = body.get("value") if body else None
            root, chain = peel(v) if v else (None, [])
            ok = root is not None and root[0] == "param" and root[2] == "queue_index" and \
                not any(s[0] == "bin" for s in subterms(v))
            chk.check(ok, "W5", "send_fd_for_vring:value", "u64 value = queue_index as u64 (bit 8 clear by the index bound)",
                      "vring-fd body value is %s, expected the queue index alone" % (show(v) if v else None), f.loc(t["line"]))
            fshape, payload = option_shape(args[3])
            chk.check(fshape == "Some", "W5", "send_fd_for_vring:fd", "descriptor attached",
                      "no descriptor attached although bit 8 is clear", f.loc(t["line"]))
    else:
        chk.anchor_missing("W5", "FrontendInternal::send_fd_for_vring")


def _narrows(c):
    # "cast:u64->u32"
    try:
        a, b = c[5:].split("->")
        from vlint.terms import INT_TYS
        if a not in INT_TYS or b not in INT_TYS:
            return False
        return INT_TYS[b] < INT_TYS[a]
    except Exception:
        return False


# ---------------------------------------------------------------------------- W6

def w6(fb, chk):
    ep = [f for f in fb.find(self_adt="Endpoint") if not f.trait]
    by = {f.name: f for f in ep}
    # iovec order
    for name, want in (("send_message", ["hdr", "body"]), ("send_message_with_payload", ["hdr", "body", "payload"])):
        f = by.get(name)
        if f is None:
            chk.anchor_missing("W6", "Endpoint::" + name)
            continue
        chk.fn_seen(f)
        m = must_of(fb, f)
        ss = sites(f, name="send_iovec_all")
        if len(ss) != 1:
            chk.bad("W6", name + ":iovec", "expected one call of the send loop, found %d" % len(ss), f.loc())
            continue
        bb, t, c = ss[0]
        args = m.sym.arg_terms(bb)
        arr = None
        for s in subterms(args[1]):
            if s[0] == "array":
                arr = s
                break
        order = []
        if arr:
            for e in arr[1]:
                r, _ = peel(e, through_calls={"as_slice", "deref", "as_ref"})
                order.append(r[2] if r[0] == "param" else show(r))
        chk.check(order == want, "W6", name + ":iovec", "iovec order %s" % order,
                  "iovec order is %s, the specification's message order is %s" % (order, want), f.loc(t["line"]))
        fr, _ = peel(args[2])
        chk.check(fr[0] == "param" and fr[2] == "fds", "W6", name + ":fds", "caller's descriptors passed to the send loop",
                  "descriptors argument is %s" % show(args[2]), f.loc(t["line"]))
    # descriptors only with the first chunk
    f = by.get("send_iovec_all")
    if f is None:
        chk.anchor_missing("W6", "Endpoint::send_iovec_all")
        return
    chk.fn_seen(f)
    m = must_of(fb, f)
    ss = sites(f, name="send_iovec")
    if len(ss) != 1:
        chk.bad("W6", "send_loop:fds", "expected one raw send in the loop, found %d" % len(ss), f.loc())
        return
    bb, t, c = ss[0]
    # the fds operand is a phi of (fds param) and None; the param definition must be under `sent == 0`
    op = t["args"][2]
    l, defs = m.sym.source_defs(op["pl"]["l"])
    good = True
    detail = []
    sent_term = None
    for d in defs:
        term = m.sym._def_term(d, 0, ())
        shape = option_shape(term)[0]
        atoms = m.atoms_at(d[1])
        zero = [a for a in atoms if a[0] == "cmp" and a[1] == "Eq" and a[3][0] == "const" and a[3][1] == 0]
        if shape == "None":
            detail.append("None otherwise")
            continue
        r, _ = peel(term)
        if r[0] == "param" and r[2] == "fds":
            if not zero:
                good = False
                detail.append("caller's descriptors attached without the must-fact `bytes sent == 0`")
            else:
                sent_term = zero[0][2]
                detail.append("caller's descriptors only under %s == 0" % show(sent_term))
        else:
            good = False
            detail.append("descriptor operand %s" % show(term))
    if len(defs) < 2:
        good = False
        detail.append("descriptor operand has a single definition: %s" % [show(m.sym._def_term(d, 0, ())) for d in defs])
    chk.check(good, "W6", "send_loop:fds", "; ".join(detail), "; ".join(detail), f.loc(t["line"]))
