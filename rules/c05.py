"""C05 — no frontend input can crash the backend or reach the handler unvalidated."""
from spec import wire
from vlint.absint import const_eval, size_of_type, Undecided
from vlint.cfg import CFG
from vlint.facts import callee_of, resolved, AnchorMissing
from vlint.gates import field_of, root_of
from vlint.paths import Summariser, ret_okness
from vlint.terms import Sym, show, subterms, peel
from vlint.util import must_of, sites
from . import common, panics
from .c06 import policy_sets, policy_accepts_without_files

ctx_single_iff = [False]

EXPLANATION = (
    "Decides: (V1) validation-before-use on every path to a handler call of the backend server: attached-file "
    "policy accepted before the body is read, size check and the body's validator passed (C20 decides that the "
    "validators are exact), SET_MEM_TABLE's header validity, exact size, one file per region and per-region "
    "validation, vring-fd (bit 8 clear <=> exactly one file), config payload length = declared size, defined "
    "flags only, exact file counts; (V2) every panic-capable operation (overflow/bounds/division asserts, "
    "unwrap/expect/index/copy/swap_remove/allocation/shift calls) in the call-graph closure of the request entry "
    "points of both crates is discharged: input-independent, locally guarded by a must-fact, or covered by a reviewed "
    "invariant row whose machine-checkable requirement still holds; (V3) every raw read of the receive buffer is "
    "dominated by a sufficient length fact, using the tie size == buf.len() established in the dispatch."
    ' Also: (V1) received-file COUNT classes (none / 0 / 1 / >= 2) under the must-facts of each accepting path of the vring-fd helper and of take_single_file; (V4) validator exactness for the decoded body types (C20/X2).'
    " Round 4/5: (V1) the attached-file policy accepts the optional-descriptor requests without a descriptor; SET_VRING_ENABLE's flag is decided by cases (num bounded at the call, flag evaluated per value); every way back to the region loop head carries is_valid(element); (V5) every receive iovec's iov_len is the extent of the buffer iov_base points into.")
NOT_DECIDED = ("Panics inside third-party crates (vm-memory, virtio-queue, vmm-sys-util, std) called with wire-derived values "
               "(listed as assumptions); stack/heap exhaustion; aborts.")


def run(ctx, chk):
    fb = ctx.fb("full")
    chk.explanation = EXPLANATION
    chk.not_decided = NOT_DECIDED
    chk.cfgs["full"] = fb.hashes
    chk.rule("V1", "handler preconditions are must-facts at each handler call site of the backend server")
    chk.rule("V2", "every panic-capable operation reachable from the backend's request entry points is discharged")
    chk.rule("V3", "every raw read of the receive buffer is dominated by a sufficient length fact")
    v1(fb, chk)
    v2(fb, chk)
    v3(fb, chk)
    chk.floor("V5", v5(fb, chk), 10)
    n = lambda r: len([i for i in chk.instances if i[0] == r])
    # the validity rules the handler relies on are decided exactly by C20/X2 for the types the backend server decodes
    from vlint.report import Renamed as _Renamed
    from spec import validity as _validity
    from . import c20 as _c20
    chk.rule("V4", "validators of the request bodies decoded by the backend server accept exactly the protocol-valid encodings (C20/X2)")
    _c20.run_on(fb, _Renamed(chk, {"X2": "V4", "X1": "V4"}), _validity.VALID)
    from . import xlist
    xlist.apply("C05", fb, chk)
    chk.floor("V6", n("V6"), 30)
    chk.floor("V1", n("V1"), 38)
    chk.floor("V2", n("V2"), 150)
    chk.floor("V3", n("V3"), 6)
    chk.assumptions += [
        "third-party entry points reached with wire-derived values do not panic: vm_memory::{GuestRegionMmap::new, MmapRegion::from_file, "
        "GuestMemoryMmap::{from_regions,insert_region,remove_region}}, virtio_queue::Queue::{set_size,set_next_avail,try_set_*_address,used_idx}, "
        "vmm_sys_util::{epoll,eventfd,sock_ctrl_msg}",
        "queue masks are u64: at most 64 queues per daemon (ring index < vrings.len() <= 64)",
        "recvmsg/sendmsg return at most the number of bytes requested",
    ]


def thorough(ctx, chk):
    fb = ctx.fb("base")
    chk.cfgs["base"] = fb.hashes
    v1(fb, chk, tag="base/")
    v2(fb, chk, tag="base/")
    v3(fb, chk, tag="base/")
    v5(fb, chk, tag="base/")


# ---------------------------------------------------------------------------- V1

def v1(fb, chk, tag=""):
    has_postcopy = bool(fb.find(name="postcopy_advise", self_adt="Frontend"))
    hr = common.dispatch_fn(fb)
    m = must_of(fb, hr)
    chk.fn_seen(hr)
    # file policy table and placement
    pol = fb.one(name="check_attached_files", self_adt="BackendReqHandler")
    chk.fn_seen(pol)
    one, anyf, others_ok = policy_sets(fb, pol)
    allowed = one | anyf
    chk.check(allowed == wire.FD_CARRYING | {"SET_LOG_FD"} and others_ok, "V1", tag + "policy:table",
              "requests allowed to carry descriptors: %s; all others rejected when descriptors are attached" % sorted(allowed),
              "attached-file policy admits descriptors for %s; the protocol's descriptor-carrying requests are %s (others rejected: %s)"
              % (sorted(allowed), sorted(wire.FD_CARRYING | {"SET_LOG_FD"}), others_ok), pol.loc())
    # requests whose descriptor is optional (the vring notifiers: bit 8 of the body says "no descriptor") are well-formed
    # without any descriptor, so the policy must accept them when none is attached
    nofile = policy_accepts_without_files(fb, pol)
    opt = {c_ for c_, r_ in wire.FRONTEND_TABLE.items() if r_["fds"] == "opt" and "B" in r_["impl"]}
    miss = sorted(c_ for c_ in opt if c_ not in nofile and not (c_ not in allowed and None in nofile))
    chk.check(not miss, "V1", tag + "policy:optional-fd", "requests with an optional descriptor are accepted without one: %s" % sorted(opt),
              "the attached-file policy refuses %s when no descriptor is attached, although the descriptor is optional (bit 8 of the body)"
              % miss, pol.loc())
    for bb, t in hr.calls():
        c = callee_of(t)
        if c is None:
            continue
        isrecv = (c.get("self_adt") or "").endswith("::Endpoint") and c.get("name") == "recv_data"
        if isrecv:
            ok = any(a[0] == "ok" and a[1][0] == "call" and a[1][1] == pol.name for a in m.atoms_at(bb))
            chk.check(ok, "V1", tag + "policy-before-body", "body read dominated by the attached-file policy",
                      "the request body is read before the attached-file policy accepted the header", hr.loc(t["line"]))
    take_single_rule(fb, chk, tag)
    # per handler call site
    from .c02 import server_handler_calls
    _hr, mh, calls = server_handler_calls(fb)
    for code, row in sorted(wire.FRONTEND_TABLE.items()):
        if "B" not in row["impl"] or (row.get("feature") == "postcopy" and not has_postcopy):
            continue
        for (f, bb, t, c, via) in calls.get(code, []):
            mm = must_of(fb, f)
            atoms = list(mm.atoms_at(bb))
            if via:
                atoms += list(mh.atoms_at(via[0]))
            key = "%ssite:%s" % (tag, code)
            names = [(a[0], a[1][1]) for a in atoms if a[0] in ("ok", "true") and a[1][0] == "call"]
            probs = []
            pol_ok = ("ok", pol.name) in names
            if not pol_ok:
                probs.append("attached-file policy not applied")
            if row["body"] and not row["payload"] and row["fds"] != "opt":
                if ("ok", "extract_request_body") not in names:
                    probs.append("body not extracted through the validating extractor")
            elif row["fds"] == "opt":
                if ("ok", "check_request_size") not in names or ("ok", "handle_vring_fd_request") not in names:
                    probs.append("vring-fd request not size-checked / decoded by the fd helper")
            elif row["payload"] and code in ("GET_CONFIG", "SET_CONFIG"):
                if ("true", "is_valid") not in names:
                    probs.append("config body validator not applied")
                lenok = False
                for a in atoms:
                    if a[0] == "cmp" and a[1] == "Eq":
                        txt = show(a[2]) + "|" + show(a[3])
                        if "Sub size_of()" in txt and ".size as usize" in txt:
                            lenok = True
                if not lenok:
                    probs.append("payload length not tied to the declared size")
                if not any(a[0] in ("ok",) and a[1][0] == "call" and a[1][1] in ("from_bits", "ok_or") for a in atoms) and \
                        not any(a[0] == "ok" and "from_bits" in show(a[1]) for a in atoms):
                    probs.append("undefined config flags not rejected")
            elif code == "SET_MEM_TABLE":
                probs += mem_table_facts(fb, f, bb, atoms)
            if code == "SET_VRING_ENABLE":
                from .c02 import _enable_mapping
                if not _enable_mapping(fb, mm, bb):
                    probs.append("the enable value is not restricted to {0, 1} on every path to the handler call")
            else:
                if ("ok", "check_request_size") not in names and row["body"] is None and row["fds"] == 0:
                    # header-only requests: size must be checked unless the arm cannot misbehave on a body
                    if code not in ("CHECK_DEVICE_STATE", "GET_SHMEM_CONFIG", "POSTCOPY_ADVISE", "POSTCOPY_LISTEN", "POSTCOPY_END"):
                        probs.append("header-only request accepted without the size check")
            if row["fds"] == 1:
                # exactly one file: take_single_file / explicit len == 1
                one_ok = any(a[0] == "ok" and "take_single_file" in show(a[1]) for a in atoms) or \
                    any(a[0] == "cmp" and a[1] == "Eq" and const_eval(fb, mm.sym, a[3]) == 1 and "len(" in show(a[2]) for a in atoms)
                if not one_ok:
                    probs.append("exactly-one-file requirement is not a must-fact")
            chk.check(not probs, "V1", key, "preconditions hold at the call of %s" % c["name"],
                      "handler %s for %s is reachable with: %s" % (c["name"], code, "; ".join(probs)), f.loc(t["line"]))
    # vring-fd helper: Ok => (bit 8 clear <=> file present)
    fs = fb.find(name="handle_vring_fd_request", self_adt="BackendReqHandler")
    if len(fs) == 1:
        f = fs[0]
        summ = Summariser(fb, no_inline=lambda g: True)
        outs, sym = summ.paths(f)
        probs = set()
        nok = 0
        for o in outs:
            if o.ret is None or ret_okness(o.ret) is not True:
                continue
            nok += 1
            bit = filep = None
            valid = False
            for a in o.atoms:
                if a[0] == "cmp" and a[2][0] == "bin" and a[2][1] == "BitAnd" and const_eval(fb, sym, a[2][3]) == 0x100 \
                        and const_eval(fb, sym, a[3]) == 0:
                    bit = (a[1] == "Ne")
                if a[0] in ("ok", "notok") and "take_single_file" in show(a[1]):
                    filep = (a[0] == "ok")
                if a[0] == "true" and a[1][0] == "call" and a[1][1] == "is_valid":
                    valid = True
                if a[0] == "cmp" and a[1] in ("Ge",) and "len(buf)" in show(a[2]):
                    pass
            if bit is None or (filep is not None and bit == filep):
                probs.add("Ok path with bit8=%s and file present=%s" % (bit, filep))
            # the count of received files on this path: exactly one with bit 8 clear, none at all with bit 8 set
            pname = [n for n in f.arg_names() if n and "file" in n]
            cls = common.file_classes(fb, sym, o.atoms, pname[0] if pname else "files")
            if ctx_single_iff[0] and any(a[0] == "notok" and a[1][0] == "call" and a[1][1] == "take_single_file" for a in o.atoms):
                cls.discard(1)  # take_single_file is None only when the count is not one (decided above)
            want = {"none", 0} if bit else {1}
            if bit is not None and not cls <= want:
                extra = sorted(str(c) if c != 2 else "2+" for c in cls - want)
                probs.add("Ok path with bit8 %s is reachable with %s attached file(s)" % ("set" if bit else "clear", "/".join(extra)))
        chk.check(not probs and nok >= 2, "V1", tag + "vringfd:file-iff-bit8-clear", "Ok paths: (bit 8 clear, exactly one file) and (bit 8 set, no file at all)",
                  "vring-fd helper: %s" % "; ".join(sorted(probs)), f.loc())
    else:
        chk.anchor_missing("V1", tag + "vring-fd helper")


def take_single_rule(fb, chk, tag=""):
    """take_single_file: Some <=> exactly one file was received (used by the backend server and by the reply readers)."""
    tsf = fb.one(name="take_single_file")
    summ = Summariser(fb, no_inline=lambda g: True)
    outs, sym = summ.paths(tsf)
    good = True
    iff = True
    nsome = 0
    tp = [n for n in tsf.arg_names() if n][0]
    for o in outs:
        if o.ret is None:
            continue
        cls = common.file_classes(fb, sym, o.atoms, tp, single=())
        if ret_okness(o.ret) is not False:
            # a path that may return a file (Some(..), or the result of a Vec method such as pop()/into_iter().next())
            nsome += 1
            if not cls <= {1}:
                good = False
        elif 1 in cls:
            iff = False
    chk.check(good and nsome >= 1, "V1", tag + "take_single_file", "Some only when exactly one file was received",
              "take_single_file can return a file when the count is not exactly one", tsf.loc())
    ctx_single_iff[0] = good and iff and nsome >= 1


def mem_table_facts(fb, f, bb, atoms):
    probs = []
    txts = [(a, show(a[1]) if len(a) > 1 and isinstance(a[1], tuple) else "") for a in atoms]
    if not any(a[0] == "true" and a[1][0] == "call" and a[1][1] == "is_valid" for a in atoms):
        probs.append("table header validator not applied")
    size_eq = False
    files_eq = False
    for a in atoms:
        if a[0] == "cmp" and a[1] == "Eq":
            l, r = show(a[2]), show(a[3])
            if "num_regions" in (l + r) and "Mul size_of()" in (l + r) and "size" in (l + r):
                size_eq = True
            if "len(" in (l + r) and "num_regions" in (l + r) and "Mul" not in (l + r):
                files_eq = True
    if not size_eq:
        probs.append("message size not tied to 8 + n*32")
    if not files_eq:
        probs.append("number of files not tied to the number of regions")
    # per-region validation loop: is_valid on the iterated element.  The handler is reached from the validation only through
    # the loop head (the `next` call), and every way back to the loop head carries the must-fact `is_valid(element) == true`:
    # an element that fails the validator never lets the loop continue, so the loop ends normally only when all passed.
    cfg = CFG(f)
    m = must_of(fb, f)
    looped = False
    for sb, t, c in sites(f, name="is_valid"):
        args = m.sym.arg_terms(sb)
        nxt_calls = [s for s in subterms(args[0]) if s[0] == "call" and s[1] == "next"]
        if not nxt_calls:
            continue
        # the traversal covers every region: no element is skipped or the list shortened
        if any(s[0] == "call" and s[1] in ("skip", "take", "step_by", "skip_while", "take_while", "filter", "rev") for s in subterms(nxt_calls[0])) \
                and any(s[0] == "call" and s[1] in ("skip", "take", "step_by", "skip_while", "take_while", "filter") for s in subterms(nxt_calls[0])):
            continue
        nb = nxt_calls[0][3]
        if not isinstance(nb, int) or not cfg.all_paths_pass_through(sb, {bb}, {nb}):
            continue
        call = m.sym.call_at(sb)
        inloop = cfg.reach(sb)
        backs = [p for p in cfg.pred[nb] if p in inloop and not f.blocks[p]["cleanup"]]
        if backs and all(any(a[0] == "true" and a[1] == call for a in m.atoms_at(p)) for p in backs):
            looped = True
    if not looped:
        probs.append("regions are not validated one by one before the handler call")
    return probs


# ---------------------------------------------------------------------------- V2

def backend_roots(fb):
    roots = [common.dispatch_fn(fb)]
    for f in fb.fns.values():
        if (f.trait or "").endswith("::VhostUserBackendReqHandlerMut") and (f.self_adt or "").endswith("::VhostUserHandler"):
            roots.append(f)
    for f in fb.find(self_adt="VringEpollHandler"):
        if f.name in ("run", "handle_event"):
            roots.append(f)
    for f in fb.fns.values():
        if (f.self_adt or "").split("::")[-1] in ("AtomicBitmapMmap", "BitmapMmapRegion", "MmapLogReg") and f.crate == "vhost_user_backend":
            roots.append(f)
    return roots


def _req_config_tie(fb, o):
    """size == buf.len(): the SET_CONFIG helper receives (size, &buf) from the same received tuple."""
    hr = common.dispatch_fn(fb)
    m = must_of(fb, hr)
    for bb, t, c in sites(hr, name="set_config", self_adt="BackendReqHandler"):
        a = m.sym.arg_terms(bb)
        s, b = a[1], a[2]
        ps = [x for x in subterms(s) if x[0] == "phi"]
        pb = [x for x in subterms(b) if x[0] == "phi"]
        return bool(ps) and bool(pb) and ps[0][1] == pb[0][1]
    return False


def _req_mapping_fields(fb, o):
    """Every AddrMapping is built from a validated region: vmm_addr<-user_addr, size<-memory_size, gpa_base<-guest_phys_addr."""
    n = 0
    for f in fb.fns.values():
        if not (f.self_adt or "").endswith("::VhostUserHandler"):
            continue
        m = None
        for b in f.blocks:
            for st in b["stmts"]:
                if st["k"] == "assign" and st["rv"]["k"] == "agg" and st["rv"].get("adt", "").endswith("::AddrMapping"):
                    m = m or must_of(fb, f)
                    agg = m.sym.rvalue(st["rv"])
                    d = dict(agg[3])
                    want = {"vmm_addr": "user_addr", "size": "memory_size", "gpa_base": "guest_phys_addr"}
                    for k, v in want.items():
                        r, _ = peel(d.get(k, ("unknown",)))
                        if not (r[0] == "field" and r[2] == v):
                            return False
                    n += 1
    return n >= 2


def _req_handlers_len(fb, o):
    """handlers.len() == queues_per_thread.len(): one handler pushed per mask in the constructor loop."""
    fs = [f for f in fb.find(name="new", self_adt="VhostUserHandler")]
    if len(fs) != 1:
        return False
    f = fs[0]
    m = must_of(fb, f)
    pushes = [(bb, t) for bb, t, c in sites(f, name="push") if "VringEpollHandler" in (t["atys"][0] if t["atys"] else "")]
    return len(pushes) == 1 and m.cfg.in_loop(pushes[0][0])


def _req_index_checked(fb, o):
    """every caller of update_vring_registration passes an index that was bounds-checked by vrings.get(index)."""
    def callers_ok(name, depth=0):
        ok = True
        n = 0
        for f in fb.fns.values():
            for bb, t, c in sites(f, name=name, self_adt="VhostUserHandler"):
                n += 1
                m = must_of(fb, f)
                args = m.sym.arg_terms(bb)
                txt = show(args[1])
                if "get(" in txt and "vrings" in txt:
                    continue
                if "enumerate(iter(" in txt and "vrings" in txt:
                    continue
                if args[1][0] == "param" and depth < 3:
                    k, sub = callers_ok(f.name, depth + 1)
                    if k and sub >= 1:
                        continue
                ok = False
        return ok, n
    ok, n = callers_ok(o["fn"].name)
    return ok and n >= 4


def _req_page_guard(fb, o):
    """must-fact page < self.number_of_pages at the site."""
    for a in o["m"].atoms_at(o["bb"]):
        if a[0] == "cmp" and a[1] == "Lt":
            _, f = field_of(a[3])
            if f == "number_of_pages":
                return True
    return False


TABLE = {
    "BackendReqHandler::set_config:index:*": ("C", "size == buf.len(): (size, buf) come from the same received tuple; size >= size_of::<VhostUserConfig>() is a must-fact", _req_config_tie, 1),
    "BackendReqHandler::set_mem_table:Misaligned:*": ("A", "VhostUserMemory is repr(packed): alignment 1", None, 1),
    "BackendReqHandler::set_mem_table:NullDeref:*": ("A", "Vec::as_ptr is never null", None, 1),
    "<() as vhost_user_backend::bitmap::BitmapReplace>::replace:panic_fmt:*": ("C", "configuration error of the embedding backend (offers LOG_SHMFD with the unit bitmap), not frontend input alone; documented requirement", None, 1),
    "VhostUserHandler::vmm_va_to_gpa:Overflow(Add):*": ("C", "every AddrMapping comes from a region accepted by the region validator (user_addr + size and gpa + size do not wrap: C20) and va - vmm_addr < size", _req_mapping_fields, 2),
    "VhostUserHandler::update_vring_registration:shr:*": ("C", "index < vrings.len() <= 64 (mask width): every caller obtained the ring through vrings.get(index) or iterates vrings", _req_index_checked, 1),
    "VhostUserHandler::update_vring_registration:index:*": ("C", "handlers.len() == queues_per_thread.len(): one handler is pushed per mask in the constructor", _req_handlers_len, 2),
    "<AtomicBitmapMmap as MemRegionBitmap>::new:Overflow(Sub):*": ("C", "regions have non-zero length (region validator + vm-memory)", None, 1),
    "<MmapLogReg as Index>::index:panic:*": ("C", "explicit bounds assertion; callers index only with word(page) where page < number_of_pages is a must-fact and "
                                                   "AtomicBitmapMmap::new rejected the log unless word(page(last byte)) < logmem.len() (C15/B3)", None, 1),
    "<MmapLogReg as Index>::index:Misaligned:*": ("A", "AtomicU8 has alignment 1", None, 1),
    "<MmapLogReg as Index>::index:NullDeref:*": ("C", "addr is an mmap result checked against MAP_FAILED (never null without MAP_FIXED)", None, 1),
    "AtomicBitmapMmap::mark_dirty:Overflow(Add):*": ("C", "pages_before_region and page are quotients by 4096 (each < 2^52)", _req_page_guard, 1),
    "AtomicBitmapMmap::dirty_at:Overflow(Add):*": ("C", "pages_before_region and page are quotients by 4096 (each < 2^52)", _req_page_guard, 1),
    "AtomicBitmapMmap::mark_dirty:index:*": ("C", "page < number_of_pages is a must-fact; new() bounds the last word by logmem.len()", _req_page_guard, 1),
    "AtomicBitmapMmap::dirty_at:index:*": ("C", "page < number_of_pages is a must-fact; new() bounds the last word by logmem.len()", _req_page_guard, 1),
}


def v2(fb, chk, tag=""):
    TABLE.update(panics.COMMON_TABLE)
    panics.audit(fb, chk, "V2", backend_roots(fb), scope="backend request entry points, daemon handler, worker loop, dirty-log bitmap",
                 table=TABLE, tag=tag)


# ---------------------------------------------------------------------------- V3

def v3(fb, chk, tag=""):
    server_fns = [f for f in fb.find(self_adt="BackendReqHandler") if not f.trait] + \
                 [f for f in fb.find(self_adt="FrontendReqHandler") if not f.trait]
    hr = common.dispatch_fn(fb)
    n = 0
    for f in server_fns:
        m = None
        for bb, t in f.calls():
            c = callee_of(t)
            if c is None or c.get("name") not in ("read_unaligned", "from_raw_parts", "read"):
                continue
            if not (c.get("path") or "").startswith(("std::ptr", "core::ptr", "std::slice", "core::slice")):
                continue
            m = m or must_of(fb, f)
            chk.fn_seen(f)
            n += 1
            args = m.sym.arg_terms(bb)
            g = c.get("gargs") or []
            T = g[-1] if g else None
            atoms = m.atoms_at(bb)
            need = None
            try:
                need = size_of_type(fb, T) if T and len(T) > 2 else None
            except Undecided:
                need = None
            key = "%s%s:%s" % (tag, f.short, c["name"])
            ok = False
            why = ""
            for a in atoms:
                if a[0] == "ok" and a[1][0] == "call" and a[1][1] in ("check_request_size", "check_msg_size"):
                    exp = a[1][2][-1]
                    if exp[0] == "call" and exp[1] == "size_of":
                        ok = True
                        why = "size check against size_of::<T>() passed (size == buf.len() by the dispatch tie)"
                if a[0] == "cmp" and a[1] in ("Ge",):
                    txt = show(a[2])
                    c2 = const_eval(fb, m.sym, a[3])
                    if ("len(buf)" in txt or txt == "size") and c2 is not None and need is not None and c2 >= need:
                        ok = True
                        why = "must-fact %s >= %d" % (txt, c2)
                if a[0] == "cmp" and a[1] == "Eq" and c["name"] == "from_raw_parts":
                    txt = show(a[2]) + show(a[3])
                    if "num_regions" in txt and "Mul size_of()" in txt:
                        ok = True
                        why = "must-fact size == header + n * size_of::<Region>()"
            chk.check(ok, "V3", key, why, "raw read %s::<%s> of the receive buffer in %s is not dominated by a sufficient length fact"
                      % (c["name"], (T or "?").split("::")[-1], f.short), f.loc(t["line"]))
    # raw reference into the buffer (`&*(ptr as *const T)`): marked by the pointer-deref assert
    for f in server_fns:
        m = None
        for bi, b in enumerate(f.blocks):
            t = b["term"]
            if t["k"] == "assert" and t["msg"] == "Misaligned" and not b["cleanup"]:
                m = m or must_of(fb, f)
                n += 1
                atoms = m.atoms_at(bi)
                ok = any(a[0] == "cmp" and a[1] == "Ge" and show(a[2]) in ("size", "len(buf)") and
                         (const_eval(fb, m.sym, a[3]) or 0) >= 8 for a in atoms)
                chk.check(ok, "V3", "%s%s:raw-deref" % (tag, f.short), "must-fact size >= size_of::<header>()",
                          "raw reference into the receive buffer in %s without a length fact" % f.short, f.loc(t["line"]))
    # the tie size == buf.len(): (size, buf) are the two components of one received tuple, and the
    # received length equals the requested length on the path
    m = must_of(fb, hr)
    tie = False
    for bb, t, c in sites(hr, name="recv_data"):
        nxt = [a for a in m.atoms_at(bb)]
    for bi, b in enumerate(hr.blocks):
        for st in b["stmts"]:
            if st["k"] == "assign" and st["rv"]["k"] == "agg" and st["rv"].get("ak") == "tuple" and len(st["rv"]["ops"]) == 2:
                term = m.sym.rvalue(st["rv"])
                if "recv_data" in show(term):
                    for a in m.atoms_at(bi):
                        if a[0] == "cmp" and a[1] == "Eq" and "recv_data" in show(a[2]) and "get_size" in show(a[3]):
                            tie = True
    chk.check(tie, "V3", tag + "dispatch:size-tie", "(size, buf) built under the must-fact received length == hdr.size",
              "the dispatch no longer establishes size == buf.len() (short body reads must be rejected before use)", hr.loc())


# ---------------------------------------------------------------------------- V5

def _strip(t):
    while t[0] in ("ref", "deref", "cast"):
        t = t[1]
    return t


def iovec_extent(t):
    """For the `iov_base` term of a receive iovec: ('expr', length term) / ('sizeof', None) / ('sub', (vec, off)) / None."""
    b = _strip(t)
    if b[0] == "call" and b[1] in ("as_mut_ptr", "as_ptr") and b[2]:
        x = _strip(b[2][0])
        if x[0] == "call" and x[1] == "from_elem" and len(x[2]) == 2:
            return "expr", x[2][1]
        if x[0] == "param":
            return "len", x
        if x[0] == "call" and x[1] in ("index_mut", "index") and len(x[2]) == 2:
            base, rng = _strip(x[2][0]), _strip(x[2][1])
            if rng[0] == "agg" and rng[1].endswith("RangeFrom") and base[0] == "call" and base[1] == "from_elem":
                return "minus", (base[2][1], rng[3][0][1])
            if rng[0] == "agg" and rng[1].endswith("RangeFrom") and base[0] == "param":
                return "lenminus", (base, rng[3][0][1])
        return None
    if b[0] == "bin" and b[1] == "Add":
        # (iovs[i].iov_base as usize) + k
        x, k = _strip(b[2]), b[3]
        if x[0] == "field" and x[2] == "iov_base":
            return "sub", (x[1], k)
        return None
    if t[0] == "cast" and t[1][0] == "ref":
        return "sizeof", None
    return None


def v5(fb, chk, tag=""):
    """Every iovec handed to recvmsg describes memory inside the buffer it points into: `iov_len` is exactly the length of
    the slice `iov_base` was taken from (for a sub-slice `buf[k..]` the length minus k; for a typed value its size_of)."""
    chk.rule("V5", "receive iovecs: iov_len equals the extent of the buffer iov_base points into (no write or read beyond the message buffer)")
    n = 0
    for f in sorted(fb.fns.values(), key=lambda g: g.key):
        if not (f.self_adt or "").endswith("Endpoint"):
            continue
        sym = None
        k = 0
        for bi, b in enumerate(f.blocks):
            if b["cleanup"]:
                continue
            for st in b["stmts"]:
                if not (st["k"] == "assign" and st["rv"]["k"] == "agg" and st["rv"].get("ak") == "adt" and st["rv"]["adt"].endswith("iovec")):
                    continue
                sym = Sym(f, fb)     # fresh per aggregate (loop-carried offsets)
                v = sym.rvalue(st["rv"])
                flds = dict(v[3])
                base, ln = flds.get("iov_base"), flds.get("iov_len")
                k += 1
                key = "%siovec:%s:%d" % (tag, f.short, k)
                if base is None or ln is None:
                    continue
                ext = iovec_extent(base)
                if ext is None:
                    chk.ok("V5", key, "unclassified buffer form (not decided)", f.loc(st.get("line")))
                    continue
                kind, want = ext
                lnp = ln
                good = False
                if kind == "expr":
                    good = lnp == want
                elif kind == "len":
                    good = lnp[0] == "call" and lnp[1] == "len" and _strip(lnp[2][0]) == want
                elif kind == "minus":
                    good = lnp[0] == "bin" and lnp[1] == "Sub" and lnp[2] == want[0] and lnp[3] == want[1]
                elif kind == "lenminus":
                    good = lnp[0] == "bin" and lnp[1] == "Sub" and lnp[2][0] == "call" and lnp[2][1] == "len" and \
                        _strip(lnp[2][2][0]) == want[0] and lnp[3] == want[1]
                elif kind == "sub":
                    x = _strip(lnp[2]) if lnp[0] == "bin" and lnp[1] == "Sub" else None
                    good = x is not None and x[0] == "field" and x[2] == "iov_len" and x[1] == want[0] and lnp[3] == want[1]
                elif kind == "sizeof":
                    good = lnp[0] == "call" and lnp[1] == "size_of"
                n += 1
                chk.check(good, "V5", key, "iov_len = extent of the buffer (%s)" % kind,
                          "iovec in %s: iov_len is `%s`, which is not the extent of the buffer iov_base points into (%s form); the "
                          "kernel may write past the buffer / into bytes of the next message" % (f.short, show(ln)[:80], kind),
                          f.loc(st.get("line")))
    return n
