"""Role discovery shared by several properties (anchors are public API / trait names;
private helpers and fields are found by role)."""
from vlint.facts import callee_of, resolved, AnchorMissing
from vlint.util import must_of, field_writes, sites, enum_variant_of
from vlint.terms import show, subterms, peel
from vlint.gates import root_of, field_of

FRONTEND_REQ_TY = "vhost::vhost_user::message::FrontendReq"
BACKEND_REQ_TY = "vhost::vhost_user::message::BackendReq"
GPU_REQ_TY = "vhost::vhost_user::gpu_message::GpuBackendReq"
BE_HANDLER_TRAIT = "VhostUserBackendReqHandler"
FE_HANDLER_TRAIT = "VhostUserFrontendReqHandler"


def frontend_methods(fb):
    """Public operations of the frontend endpoint: trait impl methods on `Frontend`."""
    out = {}
    for f in fb.find(self_adt="Frontend"):
        if f.trait and (f.trait.endswith("::VhostBackend") or f.trait.endswith("::VhostUserFrontend")):
            out[f.name] = fb.inl(f)
    return out


def request_sender_sites(fn, req_ty=FRONTEND_REQ_TY):
    """Call sites in fn that pass a request-code enum by value to a workspace function
    (role: request sender)."""
    out = []
    for bb, t in fn.calls():
        c = callee_of(t)
        if c is None or not c.get("local", False) and not resolved(c).get("local", False):
            continue
        atys = t.get("atys", [])
        if req_ty in atys:
            out.append((bb, t, c, atys.index(req_ty)))
    return out


def dispatch_fn(fb, server="BackendReqHandler"):
    return fb.one(name="handle_request", self_adt=server)


def arm_codes(must, bb):
    """Request-code variants that the dispatch `match hdr.get_code()` pins at block bb."""
    out = None
    for a in must.atoms_at(bb):
        if a[0] == "variant" and not a[3]:
            x = a[1]
            # (get_code(..) as Ok).0
            inner = x
            ok = False
            for s in subterms(inner):
                if s[0] == "call" and s[1] == "get_code":
                    ok = True
                    break
            if ok:
                out = set(a[2]) if out is None else (out & set(a[2]))
    return out or set()


def handler_sites(fb, fn, trait=BE_HANDLER_TRAIT):
    """Calls to methods of the handler trait inside fn: list of (bb, term, callee)."""
    return sites(fn, of_trait=trait)


def frontend_state_roles(fb):
    """Discover which FrontendInternal fields hold offered/acked virtio/protocol features,
    from the public negotiation methods (field names are private => found by role)."""
    fm = frontend_methods(fb)
    roles = {}

    def written(method, want_param=None, want_call=None):
        f = fm.get(method)
        if f is None:
            raise AnchorMissing("Frontend::%s not found" % method)
        m = must_of(fb, f)
        res = []
        for w in field_writes(f):
            if not (w["adt"] or "").endswith("FrontendInternal"):
                continue
            rv = m.sym.rvalue(w["rv"])
            names = {s[2] for s in subterms(rv) if s[0] == "param"}
            calls = {s[1] for s in subterms(rv) if s[0] == "call"}
            if want_param and want_param not in names:
                continue
            if want_call and want_call not in calls:
                continue
            res.append(w["field"])
        return res

    r = written("get_features", want_call="recv_reply")
    if len(set(r)) == 1:
        roles["offered_virtio"] = r[0]
    r = written("set_features", want_param="features")
    if len(set(r)) == 1:
        roles["acked_virtio"] = r[0]
    r = written("get_protocol_features", want_call="recv_reply")
    if len(set(r)) == 1:
        roles["offered_proto"] = r[0]
    r = written("set_protocol_features", want_param="features")
    if len(set(r)) == 1:
        roles["acked_proto"] = r[0]
    return roles


def backend_state_roles(fb):
    """Fields of BackendReqHandler holding negotiation state, found by the dispatch arm that
    writes them."""
    hr = dispatch_fn(fb)
    m = must_of(fb, hr)
    roles = {}
    arm_role = {"GET_FEATURES": "offered_virtio", "SET_FEATURES": "acked_virtio",
                "SET_PROTOCOL_FEATURES": "acked_proto"}
    for w in field_writes(hr):
        if not (w["adt"] or "").endswith("BackendReqHandler"):
            continue
        codes = arm_codes(m, w["bb"])
        if len(codes) == 1:
            code = next(iter(codes))
            if code in arm_role:
                roles.setdefault(arm_role[code], set()).add(w["field"])
    out = {}
    for k, v in roles.items():
        if len(v) == 1:
            out[k] = next(iter(v))
    return out


# ---------------------------------------------------------------------------------------------------------------------
# Received-file count classes.  A request arrives with `files: Option<Vec<File>>`; the classes are
#   'none' (no ancillary data), 0 (Some(empty)), 1 (exactly one), 2 (two or more).
# `file_classes` returns the classes that remain feasible under a set of must-atoms.  Atoms it does not understand
# exclude nothing (so the answer is a superset of the truly feasible classes: a rule demanding "only {none, 0}" or
# "only {1}" is sound).
FILE_CLASSES = ("none", 0, 1, 2)


def _is_files(t, pname):
    from vlint.gates import root_of
    r = root_of(t)
    while r[0] in ("down", "unwrap"):
        r = root_of(r[1])
    return r[0] == "param" and r[2] == pname


def _cmp3(op, n, k):
    """three-valued `n op k` where n == 2 stands for 'two or more'."""
    if n != 2:
        return {"Eq": n == k, "Ne": n != k, "Lt": n < k, "Le": n <= k, "Gt": n > k, "Ge": n >= k}[op]
    if op == "Eq":
        return None if k >= 2 else False
    if op == "Ne":
        return None if k >= 2 else True
    if op in ("Gt", "Ge"):
        return True if k <= (1 if op == "Gt" else 2) else None
    if op in ("Lt", "Le"):
        return False if k <= (2 if op == "Lt" else 1) else None
    return None


FLIP = {"Eq": "Eq", "Ne": "Ne", "Lt": "Gt", "Le": "Ge", "Gt": "Lt", "Ge": "Le"}


def file_classes(fb, sym, atoms, pname="files", single=("take_single_file",)):
    from vlint.absint import const_eval
    feas = set(FILE_CLASSES)
    for a in atoms:
        k = a[0]
        if k in ("ok", "notok"):
            t = a[1]
            if t[0] == "call" and t[1] in single and t[2] and _is_files(t[2][0], pname):
                if k == "ok":
                    feas &= {1}
                continue
            if t[0] == "param" and t[2] == pname or (t[0] in ("ref", "deref") and _is_files(t, pname) and
                                                      not any(s[0] == "call" for s in _walk(t))):
                feas &= ({0, 1, 2} if k == "ok" else {"none"})
        elif k == "variant":
            t, names, comp = a[1], a[2], a[3]
            if _is_files(t, pname) and not any(s[0] == "call" for s in _walk(t)):
                some = ("Some" in names) != comp
                none = ("None" in names) != comp
                if some and not none:
                    feas &= {0, 1, 2}
                elif none and not some:
                    feas &= {"none"}
        elif k in ("true", "false"):
            t = a[1]
            if t[0] == "call" and t[1] == "is_empty" and t[2] and _is_files(t[2][0], pname):
                feas &= ({"none", 0} if k == "true" else {"none", 1, 2})
        elif k == "cmp":
            op, l, r = a[1], a[2], a[3]
            for x, y, o in ((l, r, op), (r, l, FLIP.get(op))):
                if o and x[0] == "call" and x[1] == "len" and x[2] and _is_files(x[2][0], pname):
                    kv = const_eval(fb, sym, y)
                    if isinstance(kv, int):
                        for c in (0, 1, 2):
                            if c in feas and _cmp3(o, c, kv) is False:
                                feas.discard(c)
    return feas


def _walk(t):
    from vlint.terms import subterms
    return subterms(t)
