"""C16 — daemon shutdown and teardown always complete, whatever the timing (partial)."""
from vlint.absint import const_eval
from vlint.cfg import CFG
from vlint.facts import callee_of, resolved, AnchorMissing
from vlint.gates import field_of, root_of
from vlint.paths import Summariser, ret_okness
from vlint.terms import Sym, show, subterms
from vlint.util import must_of, sites, field_writes
from . import daemon

EXPLANATION = (
    "Decides the structural clauses: (H1) ShutdownHandle::shutdown stores the flag (Release or stronger) before it shuts "
    "the cloned socket down, and wait reads it with Acquire or stronger; (H2) the daemon thread leaves its request loop "
    "only through a failing handle_request and shuts the connection down (both directions) on every exit, so the peer "
    "observes end-of-stream whenever the daemon stops serving; (H3) wait returns Ok for a thread that ended Ok, for "
    "SocketBroken, and for any request error once shutdown was requested, otherwise the error; it resets the connection "
    "state on every path (the daemon can start again); with no thread it returns Ok; (H4) serve raises every worker's exit "
    "event on every path after wait and maps Disconnected / PartialMessage to Ok; (H5) dropping the handler signals every "
    "worker's exit event and then joins every worker; dropping the daemon shuts the connection down."
    ' Also: (H3) every request error is returned only after the shutdown flag was seen false, Error::SocketBroken is constructed only in the errno conversion and the sticky-error accessors, the state reset is recognised as the store of None (helper or inline); (H5) no iteration of the join loop can skip the join; (H6) C08/S8.'
    " Round 4/5: (H3) the shutdown flag is read after join() returned (closure or expanded form); (H4) serve creates its listener with unlink = true; (H5) the drained range is the full range; (H9) the workers' exit events are raised only by serve and Drop; (H8, H10, H11) C05/V2, C08/S1, C17/E2.")
NOT_DECIDED = "Bounded time, the races themselves, what the peer observes on the wire."

ORDER = {"Relaxed": 0, "Release": 1, "Acquire": 1, "AcqRel": 2, "SeqCst": 3}


def ordering_of(t):
    while t[0] in ("ref", "deref"):
        t = t[1]
    if t[0] == "agg":
        return t[2]
    return None


def run(ctx, chk):
    fb = ctx.fb("full")
    chk.explanation = EXPLANATION
    chk.not_decided = NOT_DECIDED
    chk.cfgs["full"] = fb.hashes
    chk.rule("H1", "flag store (>= Release) before socket shutdown; wait loads with >= Acquire")
    chk.rule("H2", "daemon thread: loop exit only on request error; connection shut down on every exit")
    chk.rule("H3", "wait(): result classification and connection-state reset on every path")
    chk.rule("H4", "serve(): exit events raised on every path; clean disconnects map to Ok")
    chk.rule("H5", "Drop: signal all workers, then join all; daemon drop shuts the connection down")
    run_on(fb, chk)
    # the daemon thread leaves its read when the socket is shut down only if every receive loop stops at end of stream
    from vlint.report import Renamed
    from . import c08
    chk.rule("H6", "end of stream (0 bytes) leaves every receive loop: a shut-down socket unblocks the daemon thread")
    c08.s7s8(fb, Renamed(chk, {"S8": "H6"}))
    h9(fb, chk)
    from . import xlist
    xlist.apply("C16", fb, chk)
    n = lambda r: len([i for i in chk.instances if i[0] == r])
    chk.floor("H3", n("H3"), 5)


def run_on(fb, chk, tag=""):
    # ------------------------------------------------------------------ H1
    f = fb.one(name="shutdown", self_adt="ShutdownHandle")
    chk.fn_seen(f)
    m = must_of(fb, f)
    st = sites(f, name="store")
    sh = sites(f, name="shutdown")
    ok = len(st) == 1 and len(sh) == 1
    detail = ""
    if ok:
        sa = m.sym.arg_terms(st[0][0])
        ha = m.sym.arg_terms(sh[0][0])
        o = ordering_of(sa[2])
        both = ordering_of(ha[1])
        dom = m.cfg.dominators()
        ok = const_eval(fb, m.sym, sa[1]) == 1 and o in ("Release", "AcqRel", "SeqCst") and both == "Both" \
            and st[0][0] in dom.get(sh[0][0], ()) and "shutdown_requested" in show(sa[0]) or (
                const_eval(fb, m.sym, sa[1]) == 1 and o in ("Release", "AcqRel", "SeqCst") and both == "Both" and st[0][0] in dom.get(sh[0][0], ()))
        detail = "store(true, %s) dominates conn.shutdown(%s)" % (o, both)
    chk.check(ok, "H1", tag + "shutdown-order", detail, "ShutdownHandle::shutdown does not store the flag (Release) before shutting the socket down: %s" % detail, f.loc())
    w = fb.one(name="wait", self_adt="VhostUserDaemon")
    loads = []
    for cl in [w] + fb.closures_of(w) + [c2 for c in fb.closures_of(w) for c2 in fb.closures_of(c)]:
        cm = must_of(fb, cl)
        for bb, t, c in sites(cl, name="load"):
            loads.append(ordering_of(cm.sym.arg_terms(bb)[1]))
    # closures of closures are keyed by closure_of = root; collect every closure whose key starts with wait's key
    for g in fb.fns.values():
        if g.rec.get("dk") == "Closure" and g.key.startswith(w.key + "::") and g not in fb.closures_of(w):
            cm = must_of(fb, g)
            for bb, t, c in sites(g, name="load"):
                loads.append(ordering_of(cm.sym.arg_terms(bb)[1]))
    chk.check(loads and all(o in ("Acquire", "AcqRel", "SeqCst") for o in loads), "H1", tag + "flag-load", "wait reads the flag with %s" % loads,
              "wait reads the shutdown flag with ordering %s (Acquire needed to pair with the store)" % loads, w.loc())
    # ------------------------------------------------------------------ H2
    sd = fb.one(name="start_daemon", self_adt="VhostUserDaemon")
    cls = fb.closures_of(sd)
    thread_cl = [c for c in cls if any((callee_of(t) or {}).get("name") == "handle_request" for _b, t in c.calls())]
    if len(thread_cl) != 1:
        chk.anchor_missing("H2", tag + "daemon thread closure")
    else:
        cl = thread_cl[0]
        chk.fn_seen(cl)
        cm = must_of(fb, cl)
        cfg = cm.cfg
        hs = sites(cl, name="handle_request")
        shs = [bb for bb, t, c in sites(cl, name="shutdown") if ordering_of(cm.sym.arg_terms(bb)[1]) == "Both"]
        in_loop = all(cfg.in_loop(bb) for bb, _t, _c in hs)
        every_exit = cfg.all_paths_pass_through(0, cfg.returns, set(shs)) and bool(shs)
        # loop exits: blocks in the loop with a successor outside must carry the fact that handle_request failed
        loopb = cfg.loop_blocks()
        exits_ok = True
        for b in loopb:
            for s in cfg.succ[b]:
                if s not in loopb:
                    if cl.blocks[s]["term"]["k"] == "unreachable" and not cl.blocks[s]["stmts"]:
                        continue   # the `otherwise` arm of an exhaustive match on the result
                    atoms = cm.atoms_at(s)
                    if not any(a[0] == "notok" and "handle_request" in show(a[1]) for a in atoms):
                        exits_ok = False
        # ... and every request error leaves the loop: from an edge on which handle_request is known to have failed the
        # loop head is not reachable again (no error class is swallowed - reply-bearing requests are answered by closing)
        heads = {h for (_t, h) in cfg.back_edges()}
        outside = set(range(len(cl.blocks))) - loopb
        for d_ in sorted(loopb):
            if cl.blocks[d_]["term"]["k"] != "switch":
                continue
            for sx in cfg.succ[d_]:
                if sx not in loopb:
                    continue
                ea = cm.edge_atoms(d_, sx) + [a for a in cm.atoms_at(sx)]
                failed = any(a[0] == "notok" and "handle_request" in show(a[1]) for a in ea) or \
                    any(a[0] == "variant" and not a[3] and "handle_request" in show(a[1]) and "Err" in show(a[1]) for a in ea)
                if failed and (heads & (cfg.reach(sx, removed=outside) | {sx})):
                    exits_ok = False
        chk.check(in_loop and every_exit and exits_ok and len(hs) == 1, "H2", tag + "thread-epilogue",
                  "loop left only on a request error; conn.shutdown(Both) on every exit",
                  "daemon thread: handle_request in loop=%s, every exit shuts the connection down=%s, loop exits only on error=%s"
                  % (in_loop, every_exit, exits_ok), cl.loc())
        ret = cm.sym.local(0)
        chk.check("handle_request" in show(ret), "H2", tag + "thread-result", "the thread returns the request error", "thread result is %s" % show(ret)[:60], cl.loc())
    # shutdown can be requested whenever a connection state exists (also after the daemon thread has already finished):
    # the accessor hands out a handle iff conn_state is Some
    for g in fb.find(name="shutdown_handle", self_adt="VhostUserDaemon"):
        chk.fn_seen(g)
        outs_, _sy = Summariser(fb, no_inline=lambda h: True).paths(g)
        bad = 0
        nsome = 0
        for o in outs_:
            if o.ret is None:
                continue
            has_state = any(a[0] == "ok" and "conn_state" in show(a[1]) for a in o.atoms)
            is_some = ret_okness(o.ret)
            if is_some is True:
                nsome += 1
            if has_state and is_some is False:
                bad += 1
        chk.check(nsome >= 1 and bad == 0, "H1", tag + "handle-available", "Some(handle) whenever a connection state exists",
                  "shutdown_handle() can return None although a connection state exists (%d paths): a shutdown requested at that moment is "
                  "not recorded and the following wait() reports the peer disconnect as an error" % bad, g.loc())
    # ------------------------------------------------------------------ H3
    chk.fn_seen(w)
    wm = must_of(fb, w)
    summ = Summariser(fb, no_inline=lambda g: True)
    outs, sym = summ.paths(w)
    # reset = the connection-state field is set to None: directly, or through a helper of the daemon that does
    # exactly that on all its paths
    resets = set()
    for g in fb.find(self_adt="VhostUserDaemon"):
        gsym = must_of(fb, g).sym
        ws_ = []
        for x in field_writes(g):
            if x["field"] != "conn_state":
                continue
            v = gsym.rvalue(x["rv"])
            if v[0] == "agg" and v[2] == "None":
                ws_.append(x)
        if not ws_:
            continue
        gc = CFG(g)
        if g.key == w.key:
            resets |= {x["bb"] for x in ws_}
        elif gc.all_paths_pass_through(0, gc.returns, {x["bb"] for x in ws_}):
            resets |= {bb for bb, t, c in sites(w, name=g.name) if resolved(c)["key"] == g.key}
    cases = {"nothread": None, "thread_ok": None, "broken": None, "requested": None, "not_requested": None, "other_err": None}
    all_reset = True
    for o in outs:
        if o.ret is None:
            continue
        if not (set(o.path) & resets):
            # join failure (`?`) returns before the reset: acceptable only for the panic case
            # (the join itself failing = the daemon thread panicked; a request error reported BY the thread is not exempt)
            if not any(a[0] == "notok" and show(a[1]).startswith(("map_err(join(", "join(")) for a in o.atoms):
                all_reset = False
        okr = ret_okness(o.ret)
        txt = [(a[0], show(a[1]) if isinstance(a[1], tuple) else "", a) for a in o.atoms]
        if any(a[0] == "notok" and show(a[1]).startswith("take(") for a in o.atoms):
            cases["nothread"] = okr
            continue
        inner_ok = any(a[0] == "ok" and show(a[1]).startswith("unwrap(map_err(join(") for a in o.atoms)
        if inner_ok:
            cases["thread_ok"] = okr
            continue
        variants = [a for a in o.atoms if a[0] == "variant"]
        names = [set(a[2]) for a in variants]
        if {"SocketBroken"} in names:
            cases["broken"] = okr
        elif _flag(o) is True:
            cases["requested"] = okr
        elif _flag(o) is False:
            if cases["not_requested"] is not True:
                cases["not_requested"] = okr
        elif any("HandleRequest" not in n and n for n in names):
            cases["other_err"] = okr
    # any other way of turning a thread error into Ok is a violation
    stray = []
    for o in outs:
        if o.ret is None or ret_okness(o.ret) is not True:
            continue
        if any(a[0] == "notok" and show(a[1]).startswith("unwrap(map_err(join(") for a in o.atoms):
            names = [set(a[2]) for a in o.atoms if a[0] == "variant" and not a[3]]
            requested = _flag(o) is True
            if {"SocketBroken"} not in names and not requested:
                stray.append(sorted(n for ns in names for n in ns if n not in ("HandleRequest",))[:3])
    # ... and, the other way round, EVERY request error is forgiven once shutdown was requested: an error return for a
    # request error must have seen the shutdown flag false (whatever the error: the request hit by the shutdown can fail
    # in any position - header, body, validation)
    unforgiven = []
    for o in outs:
        if o.ret is None or ret_okness(o.ret) is not False:
            continue
        if not any(a[0] == "notok" and show(a[1]).startswith("unwrap(map_err(join(") for a in o.atoms):
            continue
        vs = [a for a in o.atoms if a[0] == "variant" and not a[3]]
        is_req = any("HandleRequest" in a[2] and len(a[2]) == 1 for a in vs)
        if not is_req:
            continue
        tested = _flag(o) is False
        if not tested:
            unforgiven.append(sorted(n for a in vs for n in a[2] if n != "HandleRequest")[:4])
    chk.check(not unforgiven, "H3", tag + "requested-forgives-all", "every request error is returned only after the shutdown flag was seen false",
              "wait() returns a request error (%s) without consulting the shutdown flag: a wait following a shutdown request fails when the "
              "interrupted request ends with that error" % unforgiven, w.loc())
    chk.check(not stray, "H3", tag + "no-other-ok", "a thread error becomes Ok only for SocketBroken or after a shutdown request",
              "wait() returns Ok for thread errors %s without a shutdown request (a peer disconnect must be reported as an error)" % stray, w.loc())
    chk.check(cases["nothread"] is True, "H3", tag + "no-thread", "no thread -> Ok", "wait without a thread returns %s" % cases["nothread"], w.loc())
    chk.check(cases["thread_ok"] is True, "H3", tag + "thread-ok", "thread Ok -> Ok", "thread Ok maps to %s" % cases["thread_ok"], w.loc())
    chk.check(cases["broken"] is True, "H3", tag + "socket-broken", "HandleRequest(SocketBroken) -> Ok", "SocketBroken maps to %s" % cases["broken"], w.loc())
    chk.check(cases["requested"] is True, "H3", tag + "shutdown-requested", "any request error after a shutdown request -> Ok",
              "a request error after a shutdown request maps to %s (wait must succeed once shutdown was requested)" % cases["requested"], w.loc())
    chk.check(cases["not_requested"] is False, "H3", tag + "peer-disconnect", "request error without a shutdown request -> Err",
              "a request error without shutdown request maps to %s (a peer disconnect must be reported)" % cases["not_requested"], w.loc())
    # the flag is read after the daemon thread was joined (a request may arrive, and the flag be set, while wait() blocks)
    wm = must_of(fb, w)
    joins = [bb for bb, t, c in sites(w, name="join")]
    lds = [bb for bb, t, c in sites(w, name="load")] + [bb for bb, t in w.calls() if (callee_of(t) or {}).get("name") in ("call", "call_mut", "call_once")]
    dom = wm.cfg.dominators()
    if lds and joins:
        late = all(any(j in dom.get(l, ()) for j in joins) for l in lds)
        chk.check(late, "H3", tag + "flag-read-after-join", "the shutdown flag is read only after join() returned",
                  "wait() reads the shutdown flag before joining the daemon thread: a shutdown requested while wait() is blocked is missed and "
                  "reported as an error", w.loc())
    chk.check(all_reset, "H3", tag + "state-reset", "connection state reset on every path", "a path of wait() keeps the old connection state (the daemon could not accept a new connection)", w.loc())
    # the flag the closure reads is the shutdown flag
    # wait() forgives SocketBroken unconditionally, so that class must mean what it says: it is produced only by the
    # errno conversion and by the endpoints' sticky-error accessors, never for protocol-level conditions (short body...)
    nsb = 0
    for g in fb.fns.values():
        if g.crate != "vhost" or "::tests::" in g.key or "/tests/" in (g.file or ""):
            continue
        for b in g.blocks:
            if b["cleanup"]:
                continue
            for st in b["stmts"]:
                if st["k"] == "assign" and st["rv"]["k"] == "agg" and st["rv"].get("variant") == "SocketBroken" \
                        and (st["rv"].get("adt") or "").endswith("vhost_user::Error"):
                    nsb += 1
                    role_ok = (g.trait or "").endswith("From") or g.name == "check_state"
                    if not role_ok:
                        # the sticky-error accessor expanded into its caller: the payload is built from the endpoint's recorded
                        # `error` (an errno kept from an earlier socket failure)
                        try:
                            gs = Sym(g, fb)
                            pv = gs.rvalue(st["rv"])
                            role_ok = any(x[0] == "field" and x[2] == "error" and any(y[0] == "param" and y[1] == 1 for y in subterms(x))
                                          for x in subterms(pv))
                        except Exception:
                            role_ok = False
                    chk.check(role_ok, "H3", "%ssocket-broken-source:%s" % (tag, g.short), "SocketBroken built from a socket errno / the sticky error only",
                              "%s reports Error::SocketBroken for a condition that is not a socket error: VhostUserDaemon::wait() maps this "
                              "class to Ok even without a shutdown request, so the condition (e.g. a peer disconnect inside a request body) "
                              "is no longer reported" % g.short, g.loc(st.get("line")))
    chk.check(nsb >= 3, "H3", tag + "socket-broken-sources", "%d construction sites" % nsb, "SocketBroken construction sites not found")
    # ------------------------------------------------------------------ H4
    sv = fb.one(name="serve", self_adt="VhostUserDaemon")
    chk.fn_seen(sv)
    sm = must_of(fb, sv)
    ws = [bb for bb, t, c in sites(sv, name="wait")]
    es = [bb for bb, t, c in sites(sv, name="send_exit_event")]
    ok = len(ws) == 1 and len(es) == 1
    if ok:
        cfg = sm.cfg
        nxt = cfg.succ[ws[0]][0]
        ok = cfg.all_paths_pass_through(nxt, cfg.returns, set(es))
    chk.check(ok, "H4", tag + "exit-events", "send_exit_event on every path after wait", "serve can return after wait without raising the workers' exit events", sv.loc())
    outs, sym = summ.paths(sv)
    mapped = {}
    for o in outs:
        if o.ret is None or not (set(o.path) & set(es)):
            continue
        for a in o.atoms:
            if a[0] == "variant" and not a[3]:
                # one arm per variant, or one or-pattern arm for both
                for nm in a[2]:
                    if nm in ("Disconnected", "PartialMessage"):
                        mapped[nm] = ret_okness(o.ret) if mapped.get(nm, True) is True else mapped[nm]
    chk.check(mapped.get("Disconnected") is True and mapped.get("PartialMessage") is True, "H4", tag + "disconnect-mapping",
              "Disconnected / PartialMessage -> Ok", "serve maps clean disconnects to %s" % mapped, sv.loc())
    # serve() binds its own listener and owns the socket path: a stale path left by an earlier connection is unlinked first
    # (unlink = true), otherwise the daemon cannot accept the next connection on the same path
    for lb, lt, lc in sites(sv, name="new"):
        if "Listener" not in (lc.get("self_ty") or lc.get("path") or ""):
            continue
        la = sm.sym.arg_terms(lb)
        flag = const_eval(fb, sm.sym, la[1]) if len(la) > 1 else None
        chk.check(flag == 1, "H4", tag + "serve:listener-unlinks", "Listener::new(path, unlink = true)",
                  "serve() creates its listener without unlinking a stale socket path (unlink = %s): after an earlier connection the "
                  "daemon cannot be served again on that path" % flag, sv.loc(lt["line"]))
    # ------------------------------------------------------------------ H5
    drops = [g for g in fb.find(name="drop") if (g.trait or "").endswith("::Drop")]
    hd = [g for g in drops if (g.self_adt or "").endswith("::VhostUserHandler")]
    dd = [g for g in drops if (g.self_adt or "").endswith("::VhostUserDaemon")]
    if len(hd) == 1:
        g = hd[0]
        chk.fn_seen(g)
        gm = must_of(fb, g)
        se = [bb for bb, t, c in sites(g, name="send_exit_event")]
        jn = [bb for bb, t, c in sites(g, name="join")]
        dom = gm.cfg.dominators()
        ok = len(se) == 1 and len(jn) == 1 and se[0] in dom.get(jn[0], ()) and gm.cfg.in_loop(jn[0]) and not gm.cfg.in_loop(se[0])
        src = any("drain(" in show(gm.sym.arg_terms(jn[0])[0]) or "worker_threads" in show(gm.sym.arg_terms(jn[0])[0]) for _ in [0]) if jn else False
        # every drained worker is joined: no iteration of the loop can go round without the join (no timeout / skip)
        from .c11 import _skippable_in_loop
        skip = bool(jn) and _skippable_in_loop(gm.cfg, jn[0])
        # ... and the traversal covers the whole list: a `drain` takes the full range, an iterator is not shortened
        for db_, dt_, dc_ in sites(g, name="drain"):
            ra = gm.sym.arg_terms(db_)[1] if len(gm.sym.arg_terms(db_)) > 1 else None
            if ra is not None and not (ra[0] == "agg" and ra[1].endswith("RangeFull")) and not (ra[0] == "const" and "RangeFull" in str(ra)):
                skip = True
        if jn and any(nm_ in show(gm.sym.arg_terms(jn[0])[0]) for nm_ in ("skip(", "take(", "step_by(", "skip_while(", "rev(")):
            skip = True
        chk.check(ok and src and not skip, "H5", tag + "handler-drop", "signal every worker's exit event, then join every worker",
                  "Drop for VhostUserHandler: exit events before joins=%s, joins all workers=%s, a worker can be left un-joined=%s "
                  "(a detached worker keeps its clones of the rings, the backend and the received descriptors alive)" % (ok, src, skip), g.loc())
        sef = fb.one(name="send_exit_event", self_adt="VhostUserHandler")
        sem = must_of(fb, sef)
        inner = sites(sef, name="send_exit_event")
        chk.check(len(inner) == 1 and sem.cfg.in_loop(inner[0][0]) and "handlers" in show(sem.sym.arg_terms(inner[0][0])[0]), "H5", tag + "all-workers",
                  "exit event sent to every worker handler", "send_exit_event does not reach every worker", sef.loc())
    else:
        chk.anchor_missing("H5", tag + "Drop for VhostUserHandler")
    if len(dd) == 1:
        g = dd[0]
        gm = must_of(fb, g)
        shs = [bb for bb, t, c in sites(g, name="shutdown") if ordering_of(gm.sym.arg_terms(bb)[1]) == "Both"]
        chk.check(len(shs) == 1, "H5", tag + "daemon-drop", "dropping the daemon shuts the connection down", "Drop for VhostUserDaemon does not shut the connection down", g.loc())
    else:
        chk.anchor_missing("H5", tag + "Drop for VhostUserDaemon")


# ---------------------------------------------------------------------------- H9

def _is_flag(t):
    txt = show(t)
    return "closure" in txt or ("load(" in txt and "shutdown_requested" in txt)


def _flag(o):
    """What a path of wait() saw of the shutdown flag: True (read, set), False (read, clear / no connection state to read
    it from), None (not consulted).  The flag is read by a local closure (kept as a call) or, when that closure is expanded
    in place, by the atomic load itself."""
    if any(a[0] == "true" and _is_flag(a[1]) for a in o.atoms):
        return True
    if any(a[0] == "false" and _is_flag(a[1]) for a in o.atoms):
        return False
    if any(a[0] == "notok" and "conn_state" in show(a[1]) for a in o.atoms):
        return False
    return None


def h9(fb, chk, tag=""):
    """Who may tell the workers to exit: the handler's send_exit_event is called when serving ends (serve) and when the
    handler is dropped, nowhere else; the per-worker notifier is raised by the handler's send_exit_event only."""
    chk.rule("H9", "the workers' exit events are raised only when serving ends or the handler is dropped (never per connection)")
    callers = {"handler": set(), "worker": set()}
    for f in fb.fns.values():
        for bb, t in f.calls():
            c = callee_of(t)
            if not c or c.get("name") != "send_exit_event":
                continue
            sa = (c.get("self_adt") or resolved(c).get("self_adt") or "")
            kind = "handler" if sa.endswith("VhostUserHandler") else ("worker" if sa.endswith("VringEpollHandler") else None)
            if kind:
                callers[kind].add((f.name, (f.self_adt or "").split("::")[-1], f.short))
    okh = {c for c in callers["handler"] if (c[0] == "serve" and c[1] == "VhostUserDaemon") or (c[0] == "drop" and c[1] == "VhostUserHandler")}
    chk.check(callers["handler"] == okh and okh, "H9", tag + "exit-callers:handler", "called by %s" % sorted(c[2] for c in okh),
              "VhostUserHandler::send_exit_event is also called by %s: the workers stop while the daemon can still serve a connection, "
              "so later kicks are handled by no worker" % sorted(c[2] for c in callers["handler"] - okh))
    okw = {c for c in callers["worker"] if c[0] == "send_exit_event" and c[1] == "VhostUserHandler"}
    chk.check(callers["worker"] == okw and okw, "H9", tag + "exit-callers:worker", "called by %s" % sorted(c[2] for c in okw),
              "VringEpollHandler::send_exit_event is also called by %s" % sorted(c[2] for c in callers["worker"] - okw))
