"""Path model of the two request servers (BackendReqHandler, FrontendReqHandler): per CFG path of
the dispatch function, the request code, the ordered events (handler calls, sends, receives,
helper calls) and the result; helper functions are summarised the same way and composed."""
from vlint.facts import callee_of, resolved
from vlint.paths import Summariser, ret_okness
from vlint.terms import show, subterms
from vlint.util import must_of
from . import common

ENDPOINT_SENDS = {"send_header", "send_message", "send_message_with_payload"}
ENDPOINT_RECVS = {"recv_header", "recv_data", "recv_body", "recv_into_buf", "recv_body_into_buf",
                  "recv_payload_into_buf"}


def same_call(x, y):
    return x[0] == "call" and y[0] == "call" and x[1] == y[1] and x[3] == y[3] and x[4] == y[4]


class Ev:
    __slots__ = ("kind", "bb", "name", "term", "fn", "sub", "line", "via")

    def __init__(self, kind, bb, name, term, fn, sub=None, line=None, via=()):
        self.via = tuple(via)
        self.kind = kind      # 'send' | 'recv' | 'handler' | 'helper' | 'call'
        self.bb = bb
        self.name = name
        self.term = term
        self.fn = fn
        self.sub = sub        # helper summary alternatives
        self.line = line

    def __repr__(self):
        return "%s:%s" % (self.kind, self.name)


class PathInfo:
    __slots__ = ("fn", "outcome", "events", "ok", "codes", "sym")

    def __init__(self, fn, outcome, events, ok, codes, sym):
        self.fn = fn
        self.outcome = outcome
        self.events = events
        self.ok = ok
        self.codes = codes
        self.sym = sym


class ServerModel:
    def __init__(self, fb, server="BackendReqHandler", trait=common.BE_HANDLER_TRAIT):
        self.fb = fb
        self.server = server
        self.trait = trait
        self.summ = Summariser(fb, max_paths=50000)
        self.dispatch = common.dispatch_fn(fb, server)
        self.helpers = {f.key: f for f in fb.find(self_adt=server) if not f.trait and f.key != self.dispatch.key}
        self._fnpaths = {}

    def classify(self, fn, bb, t, sym):
        c = callee_of(t)
        if c is None:
            return None
        r = resolved(c)
        name = c.get("name")
        sa = c.get("self_adt") or r.get("self_adt") or ""
        ot = c.get("of_trait") or ""
        if sa.endswith("::Endpoint") and name in ENDPOINT_SENDS:
            return "send"
        if sa.endswith("::Endpoint") and name in ENDPOINT_RECVS:
            return "recv"
        if ot.endswith("::" + self.trait):
            return "handler"
        if r["key"] in self.helpers:
            return "helper"
        return None

    def fn_paths(self, fn):
        """[PathInfo] for fn: every entry->return path with its events."""
        if fn.key in self._fnpaths:
            return self._fnpaths[fn.key]
        outs, sym = self.summ.paths(fn)
        res = []
        for o in outs:
            if o.cut:
                res.append(PathInfo(fn, o, None, None, set(), sym))
                continue
            evs = []
            for bb in o.path[:-1] if False else o.path:
                t = fn.blocks[bb]["term"]
                if t["k"] != "call":
                    continue
                # the call must have completed on this path: its target is the next block
                kind = self.classify(fn, bb, t, sym)
                if kind is None:
                    continue
                evs.append(Ev(kind, bb, callee_of(t).get("name"), sym.call_at(bb), fn, line=t.get("line")))
            ok = ret_okness(o.ret) if o.ret is not None else None
            codes = None
            for a in o.atoms:
                if a[0] == "variant" and not a[3] and any(s[0] == "call" and s[1] == "get_code" for s in subterms(a[1])):
                    codes = set(a[2]) if codes is None else codes & set(a[2])
            res.append(PathInfo(fn, o, evs, ok, codes or set(), sym))
        self._fnpaths[fn.key] = res
        return res

    def helper_alternatives(self, ev, atoms):
        """Summaries (list of flattened event lists with okness) of a helper call compatible with
        the caller's path atoms about the call's result."""
        c = self.fb.fns[resolved(self.sym_info(ev))["key"]]
        want = None
        for a in atoms:
            if a[0] in ("ok", "notok") and same_call(a[1], ev.term):
                want = (a[0] == "ok")
        alts = []
        for p in self.fn_paths(c):
            if p.events is None:
                continue
            if want is not None and p.ok is not None and p.ok != want:
                continue
            for flat in self.flatten(p):
                alts.append((flat, p.ok, p))
        return alts

    def sym_info(self, ev):
        from vlint.terms import CALLINFO
        return CALLINFO[ev.term[4]]

    def flatten(self, p, depth=0):
        """Expand helper events into their own events: yields lists of primitive events."""
        results = [[]]
        for ev in p.events:
            if ev.kind != "helper" or depth > 4:
                results = [r + [ev] for r in results]
                continue
            alts = self.helper_alternatives(ev, p.outcome.atoms)
            if not alts:
                results = [r + [ev] for r in results]
                continue
            new = []
            seen = set()
            for r in results:
                for flat, ok, sub in alts:
                    sig = tuple((e.kind, e.name, e.bb, e.fn.key) for e in flat)
                    if sig in seen:
                        continue
                    seen.add(sig)
                    marker = Ev("helper", ev.bb, ev.name, ev.term, ev.fn, sub=(flat, ok), line=ev.line, via=ev.via)
                    inner = [Ev(e.kind, e.bb, e.name, e.term, e.fn, sub=e.sub, line=e.line, via=(ev.name,) + e.via)
                             for e in flat]
                    new.append(r + [marker] + inner)
            results = new
            if len(results) > 2000:
                break
        return results
