"""C04 — the backend emits exactly the replies the protocol prescribes."""
from spec import wire
from vlint.absint import const_eval, Eval, Undecided
from vlint.facts import callee_of, resolved, AnchorMissing
from vlint.gates import atom_gate, field_of, root_of
from vlint.must import bool_atoms
from vlint.paths import Summariser, ret_okness, pick
from vlint.terms import Sym, show, subterms, peel
from vlint.util import must_of, sites, field_writes
from . import common
from .server import ServerModel

EXPLANATION = (
    "Decides the reply discipline of the backend server on every CFG path of every dispatch arm (helpers "
    "composed interprocedurally): requests with a defined reply send exactly one reply (built from the request "
    "header by the reply-header constructor) on every path that reports success and never an acknowledgement; "
    "requests without a defined reply send at most one message, only through the acknowledgement helper, and "
    "every path that called the handler passes through that helper exactly once after the call; the helper "
    "sends iff reply_ack_enabled and NEED_REPLY, with value 0 iff the handler succeeded, and returns the handler's "
    "result; reply_ack_enabled is recomputed as (offered virtio & PROTOCOL_FEATURES != 0) && (acked protocol & "
    "REPLY_ACK != 0) after every change of its inputs; the reply header echoes the request code with REPLY only "
    "and the exact payload size; the server reads the header once and exactly hdr.size body bytes."
    ' Also: (P5) decided on the header value the constructor returns (flags exactly 0x5, code from the request, size = size_of body + payload); (P9) the payload length given to the reply-header constructor is the length of the payload sent with that header; (P7, P8) C20/X2 for headers, C03/R1-R2.')
NOT_DECIDED = ("'the k-th reply answers the k-th request' as a trace property: it follows from one request -> at most one "
               "send on every path only by a manual induction over the session.")


def run(ctx, chk):
    fb = ctx.fb("full")
    chk.explanation = EXPLANATION
    chk.not_decided = NOT_DECIDED
    chk.cfgs["full"] = fb.hashes
    chk.rule("P1", "typed-reply requests: every success path has exactly one reply send and no ack; failure paths at most one send; handler before send")
    chk.rule("P2", "ack-able requests: at most one send per path, only via the ack helper; handler-calling paths pass the ack helper exactly once, after the handler")
    chk.rule("P3", "ack helper: sends iff reply_ack_enabled && NEED_REPLY; value 0 iff Ok; returns the handler result")
    chk.rule("P4", "reply_ack_enabled = offered virtio PROTOCOL_FEATURES && acked protocol REPLY_ACK; recomputed after every input change")
    chk.rule("P9", "the payload length given to the reply-header constructor is the length of the payload sent with that header")
    chk.rule("P5", "reply header: request's code, flags REPLY, size = size_of body + payload length")
    chk.rule("P6", "one header receive and one body receive of exactly hdr.size bytes per request; no other reads")
    run_on(fb, chk)
    from . import xlist
    xlist.apply("C04", fb, chk)
    n = lambda r: len([i for i in chk.instances if i[0] == r])
    chk.floor("P1", n("P1"), 13)
    chk.floor("P2", n("P2"), 20)


def thorough(ctx, chk):
    fb = ctx.fb("base")
    chk.cfgs["base"] = fb.hashes
    run_on(fb, chk, tag="base/")


def ack_helper(fb, server="BackendReqHandler"):
    """Role: server method whose last parameter is the handler's Result and which reaches a send."""
    out = []
    for f in fb.find(self_adt=server):
        if f.trait:
            continue
        si = f.rec.get("sig_in") or []
        if len(si) == 3 and si[-1].startswith("std::result::Result<") and "MsgHeader" in si[1]:
            out.append(f)
    return out


def run_on(fb, chk, tag=""):
    has_postcopy = bool(fb.find(name="postcopy_advise", self_adt="Frontend"))
    sm = ServerModel(fb)
    hr = sm.dispatch
    chk.fn_seen(hr)
    ah = ack_helper(fb)
    if len(ah) != 1:
        chk.anchor_missing("P3", tag + "ack helper", "found %s" % [f.short for f in ah])
        return
    ackf = ah[0]
    chk.fn_seen(ackf)
    paths = sm.fn_paths(hr)
    chk.paths_enumerated += len(paths)
    by_code = {}
    for p in paths:
        if p.events is None:
            chk.bad("P1", tag + "dispatch:loop", "loop in the dispatch function: cannot enumerate paths", hr.loc())
            continue
        for code in p.codes:
            by_code.setdefault(code, []).append(p)
    for code, row in sorted(wire.FRONTEND_TABLE.items()):
        if "B" not in row["impl"] or (row.get("feature") == "postcopy" and not has_postcopy):
            continue
        ps = by_code.get(code, [])
        typed = row["reply"] != "ack"
        rule = "P1" if typed else "P2"
        key = "%sarm:%s" % (tag, code)
        if not ps:
            chk.bad(rule, key, "no path for request %s" % code, hr.loc())
            continue
        probs = set()
        nflat = 0
        for p in ps:
            for flat in sm.flatten(p):
                nflat += 1
                sends = [e for e in flat if e.kind == "send"]
                handlers = [e for e in flat if e.kind == "handler"]
                acks = [e for e in sends if ackf.name in e.via]
                replies = [e for e in sends if ackf.name not in e.via]
                pos = {id(e): i for i, e in enumerate(flat)}
                if typed:
                    if acks:
                        probs.add("an acknowledgement is sent for a request that has a defined reply")
                    if p.ok is True and len(replies) != 1:
                        probs.add("a path reporting success sends %d replies (exactly one required)" % len(replies))
                    if p.ok is not True and len(sends) > 1:
                        probs.add("a failing path sends %d messages" % len(sends))
                    for s_ in replies:
                        for h in handlers:
                            if pos[id(h)] > pos[id(s_)]:
                                probs.add("reply sent before the handler is invoked")
                    if p.ok is True and not handlers:
                        probs.add("a success path does not invoke the handler")
                else:
                    if replies:
                        probs.add("a message is sent outside the acknowledgement helper (%s)" % replies[0].name)
                    if len(sends) > 1:
                        probs.add("%d messages sent on one path" % len(sends))
                    ack_calls = [e for e in flat if e.kind == "helper" and e.name == ackf.name]
                    if handlers:
                        if len(ack_calls) != 1:
                            probs.add("a path that invoked the handler passes the acknowledgement helper %d times" % len(ack_calls))
                        else:
                            if pos[id(ack_calls[0])] < max(pos[id(h)] for h in handlers):
                                probs.add("acknowledgement before the handler call")
                            # the helper receives the handler's result
                            hres = handlers[-1].term
                            aarg = ack_calls[0].term[2][2] if len(ack_calls[0].term[2]) > 2 else None
                            if aarg is not None and not _derives(aarg, hres, sm, flat):
                                probs.add("the acknowledgement helper is not given the handler's result")
                    if len(ack_calls) > 1:
                        probs.add("acknowledgement helper called %d times on one path" % len(ack_calls))
        chk.check(not probs, rule, key, "%d paths (%d with helpers expanded): discipline holds" % (len(ps), nflat),
                  "request %s: %s" % (code, "; ".join(sorted(probs))), hr.loc())
    # paths outside any arm (prelude failures) and the unknown-code arm must not send
    stray = 0
    for p in paths:
        if p.events is None or p.codes:
            continue
        for flat in sm.flatten(p):
            if any(e.kind == "send" for e in flat):
                stray += 1
    chk.check(stray == 0, "P2", tag + "no-arm-paths", "paths that match no request send nothing",
              "%d paths outside any request arm put a message on the wire" % stray, hr.loc())
    p3(fb, chk, ackf, tag)
    p4(fb, chk, hr, tag)
    p5(fb, chk, tag)
    p6(fb, chk, sm, tag)
    p9(fb, chk, tag)


def _derives(arg, hres, sm, flat):
    """arg is the handler call's result, possibly routed through a helper that returns it."""
    if any(s == hres for s in subterms(arg)):
        return True
    # handler invoked inside a helper whose call term is the argument
    for e in flat:
        if e.kind == "helper" and any(s == e.term for s in subterms(arg)):
            return True
    return False


def p3(fb, chk, ackf, tag):
    summ = Summariser(fb)
    outs, sym = summ.paths(ackf)
    m = must_of(fb, ackf)
    names = ackf.arg_names()
    res_param = ("param", 3, names[2])
    req_param = ("param", 2, names[1])
    send_paths, quiet_paths = 0, 0
    probs = set()
    for o in outs:
        if o.cut:
            probs.add("loop")
            continue
        sends = [bb for bb in o.path if ackf.blocks[bb]["term"]["k"] == "call"
                 and (callee_of(ackf.blocks[bb]["term"]) or {}).get("name") in ("send_message", "send_header", "send_message_with_payload")]
        enabled = need = None
        for a in o.atoms:
            if a[0] in ("true", "false"):
                b, f = field_of(a[1])
                if f is not None and root_of(a[1])[0] == "param" and a[1][0] != "call":
                    enabled = (a[0] == "true")
                if a[1][0] == "call" and a[1][1] == "is_need_reply":
                    need = (a[0] == "true")
        if sends:
            send_paths += 1
            if not (enabled is True and need is True):
                probs.add("an acknowledgement is sent without the facts reply_ack_enabled && NEED_REPLY (enabled=%s, need_reply=%s)" % (enabled, need))
            if len(sends) != 1:
                probs.add("%d sends on one path" % len(sends))
        else:
            quiet_paths += 1
            rk = ret_okness(o.ret) if o.ret else None
            if enabled is True and need is True and o.ret == res_param:
                probs.add("a path with reply_ack_enabled && NEED_REPLY returns without sending")
        # result
        if o.ret is not None and ret_okness(o.ret) is not False:
            if o.ret != res_param:
                probs.add("returns %s instead of the handler's result" % show(o.ret)[:60])
    chk.check(not probs and send_paths >= 1 and quiet_paths >= 1, "P3", tag + "ack-helper:condition",
              "%d sending / %d silent paths; sends iff enabled && need_reply; returns res" % (send_paths, quiet_paths),
              "ack helper %s: %s" % (ackf.short, "; ".join(sorted(probs)) or "no sending or no silent path"), ackf.loc())
    # value mapping 0 iff Ok
    ok = False
    detail = ""
    for bb, t, c in sites(ackf, name={"send_message"}):
        body = m.sym.arg_terms(bb)[2]
        vals = {}
        for s in subterms(body):
            if s[0] == "phi" and len(s) >= 4:
                for term, dbb in zip(s[2], s[3]):
                    if term[0] == "const" and isinstance(term[1], int):
                        for a in m.atoms_at(dbb):
                            if a[0] in ("ok", "notok") and a[1] == res_param:
                                vals[a[0]] = term[1]
                            if a[0] == "variant" and a[1] == res_param:
                                vals["ok" if a[2] == frozenset(["Ok"]) else "notok"] = term[1]
        detail = str(vals)
        ok = vals.get("ok") == 0 and vals.get("notok") not in (None, 0)
    chk.check(ok, "P3", tag + "ack-helper:value", "ack value: Ok -> 0, Err -> non-zero %s" % detail,
              "ack value mapping is %s (required: 0 iff the handler succeeded)" % detail, ackf.loc())


def p4(fb, chk, hr, tag):
    roles = common.backend_state_roles(fb)
    # the flag field = the bool field tested by the ack helper; the updater = the only writer of it
    writers = []
    for f in fb.find(self_adt="BackendReqHandler"):
        for w in field_writes(f):
            if (w["adt"] or "").endswith("::BackendReqHandler") and f.locals and w["field"] not in roles.values():
                # the flag is a bool; counters and other bookkeeping fields added to the struct are not candidates
                fty = (w["proj"][-1].get("ty") or "") if w.get("proj") else ""
                if fty and fty != "bool":
                    continue
                writers.append((f, w))
    upd = [(f, w) for (f, w) in writers if f.name not in ("new", "set_failed") and f.key != hr.key]
    flag_writers = {}
    for f, w in upd:
        flag_writers.setdefault(f.key, []).append(w)
    if len(flag_writers) != 1:
        chk.anchor_missing("P4", tag + "reply-ack flag updater", "candidates %s" % sorted(flag_writers))
        return
    uf = fb.fns[next(iter(flag_writers))]
    chk.fn_seen(uf)
    # before any negotiation nothing is acknowledged: the constructor starts with the flag off
    flag_name = flag_writers[uf.key][0]["field"]
    for g in fb.find(name="new", self_adt="BackendReqHandler"):
        gs = Sym(g, fb)
        for b_ in g.blocks:
            for st_ in b_["stmts"]:
                if st_["k"] == "assign" and st_["rv"]["k"] == "agg" and st_["rv"].get("ak") == "adt" and \
                        (st_["rv"].get("adt") or "").endswith("::BackendReqHandler"):
                    v_ = dict(gs.rvalue(st_["rv"])[3]).get(flag_name)
                    init = const_eval(fb, gs, v_) if v_ is not None else None
                    chk.check(init == 0, "P4", tag + "flag:initial", "%s starts as false" % flag_name,
                              "BackendReqHandler::new starts with %s = %s: requests carrying NEED_REPLY are acknowledged before REPLY_ACK "
                              "was negotiated" % (flag_name, init), g.loc(st_.get("line")))
    summ = Summariser(fb)
    outs, sym = summ.paths(uf)
    want = {(roles.get("offered_virtio"), wire.VIRTIO_FEATURES["PROTOCOL_FEATURES"]),
            (roles.get("acked_proto"), wire.PROTOCOL_FEATURES["REPLY_ACK"])}
    probs = set()
    true_paths = 0
    for o in outs:
        pos = {b: i for i, b in enumerate(o.path)}
        # last write on the path
        val = None
        for bb in o.path:
            for st in uf.blocks[bb]["stmts"]:
                if st["k"] == "assign" and st["lhs"]["p"] and st["lhs"]["p"][-1]["k"] == "field" \
                        and (st["lhs"]["p"][-1].get("adt") or "").endswith("::BackendReqHandler"):
                    val = pick(sym.rvalue(st["rv"]), pos)
        if val is None:
            probs.add("a path does not store the flag")
            continue
        atoms = list(o.atoms)
        if val[0] == "const":
            if val[1]:
                true_paths += 1
                gates = {(g[0], g[2]) for g in (atom_gate(fb, sym, a) for a in atoms) if g}
                if gates != want:
                    probs.add("flag set true under %s" % sorted(map(str, gates)))
            else:
                # false must be stored only when one of the two tests fails
                negs = set()
                for a in atoms:
                    if a[0] == "cmp" and a[1] == "Eq":
                        g = atom_gate(fb, sym, ("cmp", "Ne", a[2], a[3]))
                        if g:
                            negs.add((g[0], g[2]))
                if not (negs & want):
                    probs.add("flag cleared without a failing feature test")
        else:
            true_paths += 1
            gates = {(g[0], g[2]) for g in (atom_gate(fb, sym, a) for a in atoms + bool_atoms(val, True)) if g}
            if gates != want:
                probs.add("flag = %s under %s; required tests %s" % (show(val)[:60], sorted(map(str, gates)), sorted(map(str, want))))
    chk.check(not probs and true_paths >= 1, "P4", tag + "flag:formula",
              "reply_ack_enabled <=> offered_virtio & PROTOCOL_FEATURES != 0 && acked_proto & REPLY_ACK != 0",
              "%s computes the reply-ack flag wrongly: %s" % (uf.short, "; ".join(sorted(probs))), uf.loc())
    # recomputation after every input change, before the arm's ack
    m = must_of(fb, hr)
    inputs = {roles.get("offered_virtio"), roles.get("acked_proto")}
    for w in field_writes(hr):
        if not (w["adt"] or "").endswith("::BackendReqHandler") or w["field"] not in inputs:
            continue
        ups = [bb for bb, t, c in sites(hr, name=uf.name)]
        after = m.cfg.reach(w["bb"])
        ok = (w["bb"] in ups) or (m.cfg.all_paths_pass_through(w["bb"], m.cfg.returns, set(ups)) if ups else False)
        # and no ack send between the store and the recomputation
        acks = [bb for bb, t, c in sites(hr, name="send_ack_message") if bb in after]
        early = [a for a in acks if w["bb"] not in ups and not m.cfg.all_paths_pass_through(w["bb"], {a}, set(ups))]
        codes = sorted(common.arm_codes(m, w["bb"]))
        # the record is taken for every request of that kind that is acknowledged: no path of the arm reaches its ack
        # around the store (the frontend records what it sent before it waits, whatever the handler answers)
        dom_ = m.cfg.dominators()
        arm_acks = [a for a in acks if set(common.arm_codes(m, a)) == set(codes)]
        skipped = [a for a in arm_acks if w["bb"] not in dom_.get(a, ())]
        chk.check(not skipped, "P4", "%sflag:store-unconditional:%s:%s" % (tag, w["field"], "/".join(codes)),
                  "the arm's acknowledgement is dominated by the store of %s" % w["field"],
                  "arm %s can acknowledge the request without having recorded %s (e.g. only when the handler succeeded): the "
                  "two ends then disagree on whether acknowledgements are in use" % (codes, w["field"]), hr.loc(w["line"]))
        chk.check(ok and not early, "P4", "%sflag:recompute:%s:%s" % (tag, w["field"], "/".join(codes)),
                  "store of %s is followed by the recomputation on every path, before any acknowledgement" % w["field"],
                  "after storing %s (arm %s) the reply-ack flag is not recomputed on every path before the acknowledgement is decided"
                  % (w["field"], codes), hr.loc(w["line"]))


def p5_sends(fb, chk, tag):
    """Every message the backend server writes is sent with a header obtained from the reply-header constructor (never the
    request's own header, whose REPLY bit is clear and whose size is the request's)."""
    for f in fb.find(self_adt="BackendReqHandler"):
        if f.trait or f.name == "new":
            continue
        m = None
        for bb, t, c in sites(f, name={"send_message", "send_message_with_payload", "send_header"}):
            if not ((c.get("self_adt") or "").endswith("::Endpoint") or "Endpoint" in (c.get("self_ty") or "")):
                continue
            m = m or must_of(fb, f)
            h = m.sym.arg_terms(bb)[1]
            made = any(s_[0] == "call" and s_[1] == "new_reply_header" for s_ in subterms(h))
            chk.check(made, "P5", "%ssend-header:%s@%d" % (tag, f.short, len([1 for i_ in chk.instances if i_[0] == "P5" and ("send-header:" + f.short) in i_[1]])),
                      "header <- new_reply_header(..)",
                      "%s writes a message whose header is `%s`, not one built by the reply-header constructor (REPLY flag, reply size)"
                      % (f.short, show(h)[:70]), f.loc(t["line"]))


def p5(fb, chk, tag):
    p5_sends(fb, chk, tag)
    from . import headers
    fs = [f for f in fb.find(self_adt="BackendReqHandler") if not f.trait and "MsgHeader" in (f.rec.get("sig_out") or "")
          and f.name != "new"]
    if len(fs) != 1:
        chk.anchor_missing("P5", tag + "reply-header constructor", "found %s" % [f.short for f in fs])
        return
    f = fs[0]
    chk.fn_seen(f)
    names = f.arg_names()
    hs = headers.built_headers(fb, f)
    if not hs:
        chk.bad("P5", tag + "reply-header", "no success path of %s yields a header value that can be read field by field" % f.short, f.loc())
        return
    probs = set()
    for h in hs:
        if not headers.from_request(h["request"], names[1]) or not any(s[0] == "field" and s[2] == "request" for s in subterms(h["request"]) if s[0] == "field"):
            probs.add("request code is %s (must be the request's own code)" % show(h["request"])[:60])
        if h["flags_value"] != (wire.FLAG_REPLY | wire.FLAG_VERSION):
            probs.add("flags are %s (must be exactly version 1 | REPLY = 0x5: NEED_REPLY clear, no bit taken over from the request)"
                      % (hex(h["flags_value"]) if h["flags_value"] is not None else show(h["flags"])[:70]))
        size = h["size"]
        inner = size
        while inner is not None and inner[0] == "cast":
            inner = inner[1]
        sz_ok = False
        if inner is not None and inner[0] == "bin" and inner[1] == "Add":
            parts = [inner[2], inner[3]]
            has_sizeof = any(p[0] == "call" and p[1] == "size_of" for p in parts)
            has_payload = any(p[0] == "param" and p[2] == names[2] for p in parts)
            sz_ok = has_sizeof and has_payload
            for p_ in parts:
                if p_[0] == "call" and p_[1] == "size_of":
                    ga = (h["sym"].info(p_).get("gargs") or [""])[-1]
                    if ga in ("S", "Self"):
                        sz_ok = False      # the server's own type parameter, not the reply body type
        if not sz_ok:
            probs.add("size is %s (must be size_of::<T>() + payload length)" % (show(size)[:60] if size is not None else None))
    chk.check(not probs, "P5", tag + "reply-header", "code <- request's, flags = version|REPLY, size = size_of::<T>() + payload (%d success paths)" % len(hs),
              "reply header: %s" % "; ".join(sorted(probs)), f.loc())


def p9(fb, chk, tag):
    """The size announced in a reply header is the size of what the same send puts on the wire: body only (payload
    length 0) for send_message, body + payload.len() for send_message_with_payload."""
    n = 0
    for adt in ("BackendReqHandler", "FrontendReqHandler"):
        for f in fb.find(self_adt=adt):
            if f.trait:
                continue
            m = None
            for bb, t, c in sites(f, name={"send_message", "send_message_with_payload"}):
                if not (resolved(c).get("self_adt") or c.get("self_adt") or "").endswith("::Endpoint"):
                    continue
                m = m or must_of(fb, f)
                args = m.sym.arg_terms(bb)
                hdr = args[1]
                ctor = None
                for x in subterms(hdr):
                    if x[0] == "call" and x[1] == "new_reply_header" and len(x[2]) >= 3:
                        ctor = x
                if ctor is None:
                    continue
                n += 1
                size_arg = ctor[2][2]
                if c["name"] == "send_message":
                    ok = const_eval(fb, m.sym, size_arg) == 0
                    want = "0 (no payload is sent)"
                else:
                    pay = args[3]
                    pr, _c = peel(pay)
                    sr = size_arg
                    while sr[0] == "cast":
                        sr = sr[1]
                    ok = sr[0] == "call" and sr[1] == "len" and peel(sr[2][0])[0] == pr
                    want = "payload.len() of the payload sent (%s)" % show(pay)[:40]
                chk.check(ok, "P9", "%s%s:%s@%d" % (tag, f.short, c["name"], n), "header size = body + what is sent",
                          "%s sends a reply whose header was sized with payload length %s, but the send carries %s: the peer reads past the "
                          "reply (or waits for bytes that never come) and the next reply is misparsed" % (f.short, show(size_arg)[:50], want),
                          f.loc(t["line"]))
    chk.floor("P9", n, 2)


def p6(fb, chk, sm, tag):
    hr = sm.dispatch
    m = must_of(fb, hr)
    recvs = []
    for bb, t in hr.calls():
        c = callee_of(t)
        if c and (c.get("self_adt") or "").endswith("::Endpoint") and c.get("name", "").startswith("recv"):
            recvs.append((bb, t, c))
    names = sorted(c["name"] for _b, _t, c in recvs)
    chk.check(names == ["recv_data", "recv_header"], "P6", tag + "receives", "one header receive, one body receive",
              "the dispatch performs receives %s (exactly one header and one body receive required)" % names, hr.loc())
    for bb, t, c in recvs:
        if c["name"] == "recv_data":
            a = m.sym.arg_terms(bb)[1]
            x, ch = peel(a)
            ok = x[0] == "call" and x[1] == "get_size" and not m.cfg.in_loop(bb)
            chk.check(ok, "P6", tag + "body-length", "body length <- hdr.get_size()",
                      "the body receive length is %s, not the header's size field" % show(a)[:60], hr.loc(t["line"]))
    # helpers must not read from the socket
    for k, f in sm.helpers.items():
        for bb, t in f.calls():
            c = callee_of(t)
            if c and (c.get("self_adt") or "").endswith("::Endpoint") and c.get("name", "").startswith("recv"):
                chk.bad("P6", tag + "helper-read:" + f.short, "server helper %s reads from the socket" % f.short, f.loc(t["line"]))
