"""C09 — every descriptor received is handed over exactly once or closed; none leak."""
from spec import wire
from vlint.cfg import CFG
from vlint.facts import callee_of, resolved, AnchorMissing
from vlint.gates import root_of
from vlint.terms import show, subterms, peel
from vlint.util import must_of, sites
from . import common

EXPLANATION = (
    "Decides descriptor ownership by Rust's ownership discipline plus an audit of every raw-descriptor escape hatch in "
    "both crates: (O1) every received raw descriptor is wrapped into an owning File in the receiving function before any "
    "fallible step; (O2) every into_raw_fd result flows directly into a from_raw_fd of an owning type with nothing fallible in "
    "between; (O3) no forget/leak/ManuallyDrop on descriptor owners; (O4) from_raw_fd / close are applied only to descriptors "
    "the library owns (received, just unwrapped, or just duplicated) — never to descriptors lent by the caller for sending; "
    "(O5) handler traits take received descriptors by value (or borrowed from a vector the server drops after the call); "
    "(O6) on every path of the two servers the received file vector is either moved to its consumer or dropped."
    ' Also: (O1) every other raw receive passes an empty descriptor buffer; (O7) teardown joins every worker (no iteration of the join loop can skip it) and shuts the connection down (C16/H5).')
NOT_DECIDED = ("Kernel behaviour beyond MAX_ATTACHED_FD_ENTRIES (vmm-sys-util closes truncated control data — assumed), equality of "
               "/proc/self/fd snapshots.")

OWNING = ("UnixStream", "EventConsumer", "EventNotifier", "File", "OwnedFd", "UnixListener", "EventFd")


def run(ctx, chk):
    fb = ctx.fb("full")
    chk.explanation = EXPLANATION
    chk.not_decided = NOT_DECIDED
    chk.cfgs["full"] = fb.hashes
    chk.rule("O1", "received raw descriptors are wrapped into File immediately, all of them (count = returned n)")
    chk.rule("O2", "into_raw_fd flows directly into from_raw_fd of an owning type")
    chk.rule("O3", "no forget / leak / ManuallyDrop on values owning descriptors")
    chk.rule("O4", "from_raw_fd / close only on descriptors the library owns")
    chk.rule("O5", "handler traits take received descriptors by value or borrowed from a server-owned vector")
    chk.rule("O6", "the received file vector is moved to its consumer or dropped on every path")
    run_on(fb, chk)
    # descriptors held by the workers (ring kick/call/err, backend-request socket) are closed at teardown only if every
    # worker is joined and the connection is shut down (C16/H5)
    from vlint.report import Renamed
    from . import c16
    chk.rule("O7", "teardown joins every worker and shuts the connection down, releasing the descriptors they hold (C16/H5)")
    c16.run_on(fb, Renamed(chk, {"H5": "O7"}))
    from . import xlist
    xlist.apply("C09", fb, chk)
    n = lambda r: len([i for i in chk.instances if i[0] == r])
    chk.floor("O2", n("O2"), 6)
    chk.floor("O4", n("O4"), 8)
    chk.floor("O5", n("O5"), 10)
    chk.assumptions.append("vmm_sys_util::sock_ctrl_msg closes descriptors it cannot deliver (truncated control data)")


def thorough(ctx, chk):
    fb = ctx.fb("base")
    chk.cfgs["base"] = fb.hashes
    run_on(fb, chk, tag="base/")


def workspace_fns(fb):
    return [f for f in fb.fns.values() if f.file and "/tests/" not in f.file]


def _is_recv_buffer(fb, g, gm, a):
    """`a` reads an element of the array that this function passed to recv_with_fds as the descriptor buffer."""
    for bb, t, c in sites(g, name="recv_with_fds"):
        args = gm.sym.arg_terms(bb)
        if len(args) > 2:
            buf = root_of(args[2])
            if any(x == buf for x in subterms(a)):
                return True
    return False


def run_on(fb, chk, tag=""):
    # ------------------------------------------------------------------ O1
    f = fb.one(name="recv_into_iovec", self_adt="Endpoint")
    chk.fn_seen(f)
    m = must_of(fb, f)
    rs = sites(f, name="recv_with_fds")
    chk.check(len(rs) == 1, "O1", tag + "recv:site", "one raw receive with a descriptor array", "expected one raw receive, found %d" % len(rs), f.loc())
    if len(rs) == 1:
        bb, t, c = rs[0]
        call = m.sym.call_at(bb)
        # the wrapping call: File::from_raw_fd applied to an element of the descriptor array that was handed to the
        # receive (in the function itself once the iterator chain is expanded, or in its closure)
        fdbuf = root_of(m.sym.arg_terms(bb)[2])
        wraps = []
        for g2 in [f] + fb.closures_of(f):
            for cb, ct, cc in sites(g2, name="from_raw_fd"):
                cm = must_of(fb, g2)
                a = cm.sym.arg_terms(cb)[0]
                r = root_of(a)
                is_file = (cc.get("gargs") or [""])[0].endswith("fs::File")
                from_buf = (g2 is not f and r[0] == "param") or any(x == fdbuf for x in subterms(a))
                if is_file and from_buf:
                    wraps.append(g2)
        # iterator: fd_array.iter().take(n) with n = count returned by the receive
        take = sites(f, name="take")
        ok = False
        for tb, tt, tc in take:
            args = m.sym.arg_terms(tb)
            it = show(args[0])
            n = args[1]
            ok = "iter(" in it and any(s == call or (s[0] == "call" and s[1] == "recv_with_fds") for s in subterms(n))
        chk.check(ok, "O1", tag + "recv:count", "exactly the returned number of descriptors is wrapped (take(n))",
                  "the number of descriptors wrapped is not the count returned by the receive", f.loc())
        # ... in the order they were received: the i-th file is the i-th descriptor of the message (region i <-> file i)
        reorder = sorted({c_["name"] for _b, _t, c_ in sites(f, name={"rev", "skip", "step_by", "sort", "sort_unstable", "reverse", "swap",
                                                                      "rotate_left", "rotate_right", "sort_by_key", "sort_by"})})
        chk.check(not reorder, "O1", tag + "recv:order", "descriptors are wrapped in the order received",
                  "%s wraps the received descriptors through %s: the files reach the handler in another order / not all of them "
                  "(descriptor i no longer belongs to region i)" % (f.short, reorder), f.loc())
        # no early return between the receive and the wrapping
        cfg = m.cfg
        coll = [b for b, _t, _c in sites(f, name="collect")]
        if not coll:
            # expanded form: the loop that takes the descriptors one by one (`next` over take(iter(array)))
            coll = [b for b, _t, _c in sites(f, name="next") if any(x == fdbuf for x in subterms(m.sym.arg_terms(b)[0]))]
        nxt = t.get("t")
        good = True
        if coll and nxt is not None:
            # every path from the Ok continuation to a return passes the collect or the `0 descriptors` arm
            zero_blocks = set()
            for bi in cfg.reach(nxt):
                for a in m.atoms_at(bi):
                    if a[0] == "in" and not a[3] and a[2] == frozenset([0]):
                        zero_blocks.add(bi)
                    # the same test spelled `fds == 0` / `!(fds != 0)` on the count returned by the receive
                    if a[0] == "cmp" and a[1] == "Eq" and a[3][0] == "const" and a[3][1] == 0 and a[2][0] == "field" and a[2][2] == "1" \
                            and any(x[0] == "call" and x[1] == "recv_with_fds" for x in subterms(a[2])):
                        zero_blocks.add(bi)   # field 1 of the receive's result = the number of descriptors
            # paths that leave through the `?` error edge of the receive itself carry no descriptors
            err_blocks = {bi for bi in cfg.reach(nxt) if any(a[0] == "notok" and a[1][0] == "call" and a[1][1] == "recv_with_fds" for a in m.atoms_at(bi))}
            good = cfg.all_paths_pass_through(nxt, cfg.returns, set(coll) | zero_blocks | err_blocks)
        chk.check(good and bool(coll), "O1", tag + "recv:no-early-exit", "no return between the receive and the wrapping",
                  "a path returns after descriptors were received but before they are wrapped (they would leak)", f.loc())
    # every other raw receive passes an EMPTY descriptor buffer (the kernel then installs no descriptor at all):
    # a site that offers room for descriptors must be the wrapping site checked above
    nother = 0
    for g in workspace_fns(fb):
        if g.key == f.key:
            continue
        for gb, gt in g.calls():
            gc = callee_of(gt)
            if gc is None or gc.get("name") != "recv_with_fds":
                continue
            nother += 1
            gm = must_of(fb, g)
            a = gm.sym.arg_terms(gb)
            buf = a[2] if len(a) > 2 else None
            x = buf
            while x is not None and x[0] in ("cast", "ref", "deref"):
                x = x[1]
            empty = x is not None and x[0] == "array" and len(x[1]) == 0
            chk.check(empty, "O1", "%srecv:other-site:%s" % (tag, g.short), "raw receive with an empty descriptor buffer",
                      "%s receives with room for descriptors (%s) but is not the function that wraps them into File: "
                      "descriptors installed by this receive are never closed" % (g.short, show(buf)[:60] if buf else "?"), g.loc(gt["line"]))
    # ------------------------------------------------------------------ O2 / O3 / O4
    for g in workspace_fns(fb):
        gm = None
        for bb, t in g.calls():
            c = callee_of(t)
            if c is None:
                continue
            nm = c.get("name")
            path = c.get("path") or ""
            if nm == "into_raw_fd":
                gm = gm or must_of(fb, g)
                chk.fn_seen(g)
                key = "%s%s" % (tag, g.short)
                # the result must be the argument of a from_raw_fd whose block directly follows
                call = gm.sym.call_at(bb)
                users = []
                for b2, t2, c2 in sites(g, name="from_raw_fd"):
                    a = gm.sym.arg_terms(b2)[0]
                    if a == call:
                        users.append((b2, t2, c2))
                if g.self_adt and g.self_adt.endswith("::VringEpollHandler") and g.name == "new" and not users:
                    eps = [b2 for b2, t2, c2 in sites(g, name="ctl") if any(s == call for s in subterms(gm.sym.arg_terms(b2)[2]))]
                    chk.check(len(eps) == 1, "O2", key + ":exit-event", "exit-event consumer (supplied by the backend, not received from a socket) "
                              "is registered with epoll and stays open for the worker's lifetime (reviewed exception)",
                              "exit-event descriptor released by into_raw_fd without being registered", g.loc(t["line"]))
                    continue
                direct = False
                for b2, t2, c2 in users:
                    # straight-line: target of into_raw_fd reaches b2 through gotos only
                    x = t.get("t")
                    hops = 0
                    while x is not None and x != b2 and hops < 4 and g.blocks[x]["term"]["k"] == "goto":
                        x = g.blocks[x]["term"]["t"]
                        hops += 1
                    ty = (c2.get("gargs") or [""])[0]
                    # `T::from_raw_fd` of the std FromRawFd trait takes ownership by contract, also when T is a type
                    # parameter of a generic helper (the instantiations are EventFd-like owners; a raw fd type does
                    # not implement FromRawFd)
                    generic = (c2.get("of_trait") or c2.get("trait") or "").endswith("FromRawFd") and c2.get("trait_decl")
                    if x == b2 and (any(o in ty for o in OWNING) or generic):
                        direct = True
                chk.check(direct, "O2", key, "into_raw_fd -> from_raw_fd of an owning type, nothing in between",
                          "%s releases a descriptor with into_raw_fd and does not immediately re-wrap it in an owning type "
                          "(an early return or panic in between leaks it)" % g.short, g.loc(t["line"]))
            if nm in ("forget", "leak") or (nm == "new" and "ManuallyDrop" in path) or nm == "into_raw":
                if path.startswith(("std::mem", "core::mem", "alloc::boxed", "std::boxed")) or "ManuallyDrop" in path:
                    chk.bad("O3", "%s%s:%s" % (tag, g.short, nm), "%s calls %s: a value owning a descriptor may be leaked" % (g.short, path), g.loc(t["line"]))
            if nm in ("from_raw_fd", "close") and (path.startswith("libc::close") or "FromRawFd" in path or "from_raw_fd" in path):
                gm = gm or must_of(fb, g)
                chk.fn_seen(g)
                a = gm.sym.arg_terms(bb)[0]
                r = a
                while r[0] in ("ref", "deref", "cast"):
                    r = r[1]
                src = None
                if r[0] == "call" and r[1] == "into_raw_fd":
                    src = "just released by into_raw_fd"
                elif r[0] == "call" and r[1] == "dup":
                    src = "fresh duplicate"
                elif r[0] == "param" and g.rec.get("dk") == "Closure" and "recv_into_iovec" in g.key:
                    src = "received from the socket"
                elif any(x[0] == "call" and x[1] == "next" for x in subterms(a)) and _is_recv_buffer(fb, g, gm, a):
                    src = "received from the socket"
                elif r[0] == "param" and (g.trait or "").endswith("FromRawFd"):
                    src = "FromRawFd constructor: ownership transferred by contract"
                chk.check(src is not None, "O4", "%s%s:%s" % (tag, g.short, nm), src or "",
                          "%s applies %s to %s: a descriptor the library was only lent (or does not own) would be closed"
                          % (g.short, nm, show(a)[:60]), g.loc(t["line"]))
    chk.ok("O3", tag + "scan", "no forget/leak/ManuallyDrop in %d functions" % len(workspace_fns(fb)))
    # ------------------------------------------------------------------ O5
    be_trait = [t for p, t in fb.traits.items() if p.endswith("::VhostUserBackendReqHandler")]
    for tr in be_trait:
        for it in tr["items"]:
            f2 = fb.fns.get(it["key"])
            sig = None
            # trait method declarations without bodies are not in fns; use an impl
    # use the Mutex adapter impl signatures (same as the trait's)
    for code, row in sorted(wire.FRONTEND_TABLE.items()):
        if "B" not in row["impl"] or not row["handler"] or row["fds"] == 0:
            continue
        impls = [g for g in fb.find(name=row["handler"]) if (g.trait or "").endswith("::VhostUserBackendReqHandlerMut")
                 and (g.self_adt or "").endswith("::VhostUserHandler")]
        if not impls:
            if row.get("feature") == "postcopy":
                continue
            chk.bad("O5", tag + row["handler"], "daemon handler method %s not found" % row["handler"])
            continue
        g = impls[0]
        si = g.rec.get("sig_in") or []
        owned = [s for s in si if ("std::fs::File" in s and not s.startswith("&")) or s.endswith("::Backend")
                 or s.endswith("::GpuBackend")]
        chk.check(bool(owned), "O5", tag + row["handler"], "descriptor parameter by value: %s" % owned,
                  "handler %s does not take its descriptor(s) by value: %s" % (row["handler"], si), g.loc())
    # frontend-side handler: lent from the server's vector, which is dropped after the call
    fr = common.dispatch_fn(fb, "FrontendReqHandler")
    mf = must_of(fb, fr)
    for bb, t, c in common.handler_sites(fb, fr, common.FE_HANDLER_TRAIT):
        if c["name"] not in ("shared_object_lookup", "shmem_map"):
            continue
        aty = t["atys"][2] if len(t["atys"]) > 2 else ""
        lent = "dyn std::os::fd::AsRawFd" in aty or "AsRawFd" in aty
        # the unwrapped vector local is dropped on the normal and the unwind path after the call
        vec_locals = [l for l, d in enumerate(fr.locals) if d["ty"] == "std::vec::Vec<std::fs::File>"]
        after = mf.cfg.reach(t["t"]) if t.get("t") is not None else set()
        dropped = any(fr.blocks[b]["term"]["k"] == "drop" and fr.blocks[b]["term"]["pl"]["l"] in vec_locals for b in after)
        unwind_drop = False
        if isinstance(t.get("unwind"), int):
            cfgu = CFG(fr)
            # cleanup chain from the unwind block
            seen, work = set(), [t["unwind"]]
            while work:
                x = work.pop()
                if x in seen:
                    continue
                seen.add(x)
                tt = fr.blocks[x]["term"]
                if tt["k"] == "drop" and tt["pl"]["l"] in vec_locals:
                    unwind_drop = True
                for k in ("t",):
                    if tt.get(k) is not None:
                        work.append(tt[k])
                if tt["k"] == "goto":
                    work.append(tt["t"])
        chk.check(lent and dropped and unwind_drop, "O5", tag + "fe:" + c["name"], "descriptor lent from the server's Vec<File>, dropped after the call (normal and unwind)",
                  "descriptor for %s: lent=%s, vector dropped after call=%s, on unwind=%s" % (c["name"], lent, dropped, unwind_drop), fr.loc(t["line"]))
    # ------------------------------------------------------------------ O6
    for srv in ("BackendReqHandler", "FrontendReqHandler"):
        hr = common.dispatch_fn(fb, srv)
        m2 = must_of(fb, hr)
        chk.fn_seen(hr)
        # the files local: defined from recv_header's result .1
        cands = []
        for l, ds in m2.sym.defs.items():
            if hr.locals[l]["ty"].startswith("std::option::Option<std::vec::Vec<std::fs::File>>") and hr.locals[l].get("name") == "files":
                cands.append(l)
        if len(cands) != 1:
            # fall back: any Option<Vec<File>> user local defined from the header receive
            cands = [l for l, ds in m2.sym.defs.items() if hr.locals[l]["ty"].startswith("std::option::Option<std::vec::Vec<std::fs::File>>")
                     and any("recv_header" in show(m2.sym._def_term(d, 0, ())) for d in ds)][:1]
        if not cands:
            chk.anchor_missing("O6", tag + srv + ":files local")
            continue
        L = cands[0]
        defbb = m2.sym.defs[L][0][1]
        moves, drops = set(), set()
        bad_moves = []
        for bi, b in enumerate(hr.blocks):
            if b["cleanup"]:
                continue
            t = b["term"]
            if t["k"] == "drop" and t["pl"]["l"] == L and not t["pl"]["p"]:
                drops.add(bi)
            if t["k"] == "call":
                for a in t["args"]:
                    if a["k"] == "move" and a["pl"]["l"] == L and not a["pl"]["p"]:
                        moves.add(bi)
                        nm = (callee_of(t) or {}).get("name")
                        if nm not in ("take_single_file", "ok_or", "unwrap", "set_mem_table", "handle_vring_fd_request",
                                      "set_backend_req_fd", "set_gpu_socket", "expect", "unwrap_or_default"):
                            bad_moves.append(nm)
            for st in b["stmts"]:
                if st["k"] == "assign" and st["rv"]["k"] == "use" and st["rv"]["op"]["k"] == "move" and st["rv"]["op"]["pl"]["l"] == L \
                        and not st["rv"]["op"]["pl"]["p"]:
                    moves.add(bi)
        cfg = m2.cfg
        # drop flags: bool locals assigned only constants, switched on right before a drop of L. The
        # "skip the drop" edge is feasible only after the flag was cleared, which happens where L is moved.
        flag_clear = set()
        skip_edges = set()
        for d in drops:
            for p_ in cfg.pred[d]:
                tt = hr.blocks[p_]["term"]
                if tt["k"] == "switch" and tt["op"]["k"] in ("copy", "move") and not tt["op"]["pl"]["p"]:
                    F = tt["op"]["pl"]["l"]
                    fdefs = m2.sym.defs.get(F, [])
                    if hr.locals[F]["ty"] == "bool" and fdefs and all(x[0] == "assign" and x[3]["k"] == "use" and x[3]["op"]["k"] == "const" for x in fdefs):
                        for x in fdefs:
                            if x[3]["op"].get("v") == 0:
                                flag_clear.add(x[1])
                        for s_ in cfg.succ[p_]:
                            if s_ != d:
                                skip_edges.add((p_, s_))
        succ2 = [[s_ for s_ in ss if (i, s_) not in skip_edges] for i, ss in enumerate(cfg.succ)]
        avoid = (moves | drops | flag_clear) - {defbb}
        reach = cfg.reach(defbb, removed=avoid, succ=succ2)
        ok = not (reach & set(cfg.returns))
        chk.check(ok and not bad_moves, "O6", tag + srv, "on every path the received files are moved to a consumer (%d sites) or dropped (%d sites)"
                  % (len(moves), len(drops)),
                  "%s: a path returns without moving or dropping the received files%s" % (hr.short, ("; moved into unexpected callee %s" % bad_moves) if bad_moves else ""),
                  hr.loc())
