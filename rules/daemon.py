"""Shared discovery for the vhost-user-backend daemon rules (C11-C17)."""
from vlint.facts import callee_of, resolved, AnchorMissing
from vlint.terms import show, subterms
from vlint.util import must_of, sites

HANDLER_ADT = "VhostUserHandler"
VRING_TRAIT = "VringT"
STATE_MUTATORS = {"set_enabled", "set_queue_ready", "set_kick", "set_call"}
REG_INPUTS = {"set_enabled", "set_queue_ready", "set_kick"}


def control_handlers(fb):
    """name -> fn for the daemon's implementation of the backend request handler trait."""
    out = {}
    for f in fb.fns.values():
        if (f.trait or "").endswith("::VhostUserBackendReqHandlerMut") and (f.self_adt or "").endswith("::" + HANDLER_ADT):
            out[f.name] = f
    return out


def handler_helpers(fb):
    return {f.name: f for f in fb.find(self_adt=HANDLER_ADT) if not f.trait}


def registration_fn(fb):
    """Role: daemon-handler method taking a ring and its index that reaches both epoll add and delete."""
    cands = []
    for f in fb.find(self_adt=HANDLER_ADT):
        if f.trait:
            continue
        names = {(callee_of(t) or {}).get("name") for _b, t in f.calls()}
        if "register_event" in names and "unregister_event" in names:
            cands.append(f)
    if len(cands) != 1:
        raise AnchorMissing("registration update function: %d candidates" % len(cands))
    return cands[0]


def ring_calls(fb, f, names=None):
    """Calls of VringT methods in f: (bb, term, callee)."""
    out = []
    for bb, t in f.calls():
        c = callee_of(t)
        if c is None:
            continue
        if (c.get("of_trait") or "").endswith("::" + VRING_TRAIT) or (c.get("trait") or "").endswith("::" + VRING_TRAIT):
            if names is None or c.get("name") in names:
                out.append((bb, t, c))
    return out


def ring_of(m, bb):
    """Term of the ring (receiver) of a VringT call / registration call."""
    a = m.sym.arg_terms(bb)
    r = a[0]
    while r[0] in ("ref", "deref"):
        r = r[1]
    return r
