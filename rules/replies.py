"""Reply receivers (frontend endpoint, backend->frontend proxy, GPU proxy): discovery by role
and path summaries with the acceptance facts on every Ok path."""
from vlint.facts import callee_of, resolved
from vlint.paths import Summariser, ret_okness
from vlint.terms import show, subterms
from . import server

GUARDED = ("::FrontendInternal", "::BackendInternal")
KEEP = {"take_single_file", "is_reply_for", "is_valid", "is_reply", "is_need_reply", "get_code", "get_size", "check_state",
        "recv_body", "recv_payload_into_buf", "recv_header", "recv_data", "recv_into_iovec_all"}


def receivers(fb):
    """Functions of the guarded endpoint states that (transitively, within the type) call an
    endpoint receive."""
    cands = [f for f in fb.fns.values() if f.self_ty and f.self_ty.endswith(GUARDED) and f.rec.get("dk") == "AssocFn"]
    direct = set()
    for f in cands:
        for bb, t in f.calls():
            c = callee_of(t)
            if c and (c.get("self_adt") or "").endswith("::Endpoint") and c.get("name") in server.ENDPOINT_RECVS:
                direct.add(f.key)
    out = set(direct)
    changed = True
    while changed:
        changed = False
        for f in cands:
            if f.key in out:
                continue
            for bb, t in f.calls():
                c = callee_of(t)
                if c and resolved(c)["key"] in out:
                    out.add(f.key)
                    changed = True
    # exclude functions that also send (request+reply wrappers such as the proxy's send_message)
    res = []
    for k in sorted(out):
        f = fb.fns[k]
        sends = any((callee_of(t) or {}).get("name") in server.ENDPOINT_SENDS for _b, t in f.calls())
        res.append((f, sends))
    return res


def summarise_receiver(fb, f):
    summ = Summariser(fb, no_inline=lambda g: g.name in KEEP or (g.self_adt or "").endswith("::Endpoint")
                      or g.rec.get("trait_decl"))
    outs, sym = summ.summarise(f)
    return outs, sym, summ


def did_receive(o):
    for a in o.atoms:
        if a[0] in ("ok", "notok") and a[1][0] == "call" and a[1][1] in server.ENDPOINT_RECVS:
            return a[1]
    return None


def acceptance(o, recv_call):
    """Facts present on the path: dict(reply_for=bool, valid=bool, fds='none'|'some'|None, extra=[atoms])."""
    res = {"reply_for": False, "valid": False, "fds": None, "size_match": False, "len_match": False}
    for a in o.atoms:
        if a[0] == "true" and a[1][0] == "call" and a[1][1] == "is_reply_for":
            args = a[1][2]
            # receiver = the received header (component of the receive result); argument = a parameter
            r0 = args[0]
            while r0[0] in ("ref", "deref"):
                r0 = r0[1]
            r1 = args[1]
            while r1[0] in ("ref", "deref"):
                r1 = r1[1]
            from_recv = any(server.same_call(s, recv_call) for s in subterms(r0) if s[0] == "call")
            req_from_recv = any(server.same_call(s, recv_call) for s in subterms(r1) if s[0] == "call")
            if from_recv and not req_from_recv:
                res["reply_for"] = True
        if a[0] == "true" and a[1][0] == "call" and a[1][1] == "is_valid":
            x = a[1][2][0]
            if any(server.same_call(s, recv_call) for s in subterms(x) if s[0] == "call"):
                res["valid"] = True
        if a[0] in ("ok", "notok"):
            x = a[1]
            while x[0] in ("ref", "deref"):
                x = x[1]
            if x[0] == "field" and any(server.same_call(s, recv_call) for s in subterms(x) if s[0] == "call"):
                # which tuple component? files are the last component of the receive result
                res["fds"] = "some" if a[0] == "ok" else "none"
    return res
