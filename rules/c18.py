"""C18 — backend-initiated requests reach the frontend handler faithfully, with status."""
from spec import wire
from vlint.absint import const_eval
from vlint.facts import callee_of, resolved, AnchorMissing
from vlint.gates import field_of, root_of
from vlint.paths import Summariser, ret_okness, okness
from vlint.terms import Sym, show, subterms, peel
from vlint.util import must_of, sites, enum_variant_of, option_shape, field_writes
from . import common, replies, server
from .server import ServerModel

EXPLANATION = (
    "Decides, for the backend->frontend channel: the proxy composes each request with the protocol's code, body and "
    "descriptor (C01/W4) under the negotiated flag (C07/G3), sets NEED_REPLY iff reply-ack is negotiated, waits for the "
    "acknowledgement iff negotiated and succeeds only when its value is 0; the frontend-side server calls exactly the "
    "handler the protocol names with the decoded body and element 0 of the received files, sends exactly one "
    "acknowledgement iff negotiated and NEED_REPLY after the handler call — value n for Ok(n), -errno for a handler error "
    "carrying an errno, -EINVAL otherwise — and returns the handler's result."
    " Also: (B1, B3) header flags of the proxy's requests and of the acknowledgement decided on the header VALUE that reaches the socket; ack value classes read structurally (payload / -errno / -EINVAL / -(errno or EINVAL)); (B4-B6) C01/W6, C20/X2, C14/Q5.")
NOT_DECIDED = "Run-time equality of values and fd identity; 'the k-th ack answers the k-th request' as a trace property (one request -> at most one send per path is decided)."


def run(ctx, chk):
    fb = ctx.fb("full")
    chk.explanation = EXPLANATION
    chk.not_decided = NOT_DECIDED
    chk.cfgs["full"] = fb.hashes
    chk.rule("B1", "proxy: NEED_REPLY iff negotiated; waits iff negotiated; Ok only for ack value 0; method result = transaction result")
    chk.rule("B2", "server: arm -> protocol's handler, arguments from the decoded body and files[0], once per request")
    chk.rule("B3", "server: exactly one ack iff negotiated && NEED_REPLY, after the handler; value n / -errno / -EINVAL; returns the handler's result")
    b1(fb, chk)
    b2(fb, chk)
    b3(fb, chk)
    from . import xlist
    xlist.apply("C18", fb, chk)
    n = lambda r: len([i for i in chk.instances if i[0] == r])
    # the descriptor of a request travels with its first byte on every (re)try of the send (C01/W6)
    from vlint.report import Renamed as _Renamed
    from . import c01 as _c01
    chk.rule("B4", "descriptors are attached to the first byte of a message on every attempt of the send loop (C01/W6)")
    _c01.w6(fb, _Renamed(chk, {"W6": "B4"}))
    chk.floor("B1", n("B1"), 8)
    chk.floor("B2", n("B2"), 6)
    chk.floor("B3", n("B3"), 6)


def b1(fb, chk):
    fs = fb.find(name="send_message", self_adt="BackendInternal")
    fs = [f for f in fs if "::backend_req::" in f.key]
    if len(fs) != 1:
        chk.anchor_missing("B1", "proxy transaction function")
        return
    f = fs[0]
    chk.fn_seen(f)
    m = must_of(fb, f)
    flag_field = None
    for g in fb.find(name="set_reply_ack_flag", self_adt="Backend"):
        ws = [w for w in field_writes(g) if (w["adt"] or "").endswith("BackendInternal")]
        if len(ws) == 1:
            flag_field = ws[0]["field"]
            # the setter installs the value it is given (turning the flag off again works)
            gv = Sym(g, fb).rvalue(ws[0]["rv"])
            while gv[0] in ("ref", "deref"):
                gv = gv[1]
            chk.check(gv[0] == "param", "B1", "proxy:setter:set_reply_ack_flag", "flag <- the parameter",
                      "Backend::set_reply_ack_flag stores `%s`, not the value it was given: once on, the proxy keeps asking and waiting for "
                      "acknowledgements after REPLY_ACK was negotiated away" % show(gv)[:60], g.loc(ws[0]["line"]))
    if flag_field is None:
        chk.anchor_missing("B1", "reply-ack flag of the proxy")
        return
    # the flags word of the request actually handed to the socket, on every path: version only (0x1) when the reply-ack
    # flag is off, version | NEED_REPLY (0x9) when it is on - whatever way the header is put together
    from . import headers
    fi, hs = headers.sent_headers(fb, f)
    probs = set()
    on = off = 0
    for h in hs:
        t_on = any(a[0] == "true" and field_of(a[1])[1] == flag_field for a in h["atoms"])
        t_off = any(a[0] == "false" and field_of(a[1])[1] == flag_field for a in h["atoms"])
        want = (wire.FLAG_VERSION | wire.FLAG_NEED_REPLY) if t_on else (wire.FLAG_VERSION if t_off else None)
        if want is None:
            probs.add("a request is sent on a path that never tested %s" % flag_field)
        elif h["flags_value"] != want:
            probs.add("flags %s with %s=%s (want %#x)" % (hex(h["flags_value"]) if h["flags_value"] is not None else show(h["flags"])[:50], flag_field, t_on, want))
        on += 1 if t_on else 0
        off += 1 if t_off else 0
    chk.check(bool(hs) and not [p_ for p_ in probs if "flags " in p_], "B1", "proxy:header-flags",
              "request flags word is 0x1 / 0x9 by the reply-ack flag (%d send paths)" % len(hs),
              "proxy request header: %s" % "; ".join(sorted(probs)), f.loc())
    chk.check(on >= 1 and off >= 1 and not [p_ for p_ in probs if "never tested" in p_], "B1", "proxy:need-reply",
              "NEED_REPLY is set exactly when %s is true; the request is sent either way" % flag_field,
              "proxy does not set NEED_REPLY exactly under the negotiated reply-ack flag (paths with flag on: %d, off: %d; %s)" % (on, off, "; ".join(sorted(probs))), f.loc())
    # order: send then wait; result is the wait's result
    ret = m.sym.local(0)
    alts = list(ret[2]) if ret[0] == "phi" else [ret]
    waits = [a for a in alts if a[0] == "call" and a[1] == "wait_for_ack"]
    others = [a for a in alts if a not in waits]
    chk.check(len(waits) == 1 and all(ret_okness(a) is False for a in others), "B1", "proxy:result",
              "transaction result = wait_for_ack(..) (errors of the send propagate)", "proxy transaction returns %s" % show(ret)[:80], f.loc())
    # wait_for_ack summary
    for g, sends in replies.receivers(fb):
        if g.name != "wait_for_ack" or "::backend_req::" not in g.key:
            continue
        chk.fn_seen(g)
        outs, sym, summ = replies.summarise_receiver(fb, g)
        probs = set()
        nread = nskip = 0
        for o in outs:
            if o.ret is None or ret_okness(o.ret) is False:
                continue
            rc = replies.did_receive(o)
            flag_true = any(a[0] == "true" and field_of(a[1])[1] == flag_field for a in o.atoms)
            flag_false = any(a[0] == "false" and field_of(a[1])[1] == flag_field for a in o.atoms)
            if rc is None:
                nskip += 1
                if not flag_false:
                    probs.add("returns success without reading although reply-ack may be negotiated")
            else:
                nread += 1
                if not flag_true:
                    probs.add("reads an acknowledgement although reply-ack is not negotiated")
                if not any(a[0] == "cmp" and a[1] == "Eq" and const_eval(fb, sym, a[3]) == 0 and show(a[2]).endswith(".value") for a in o.atoms):
                    probs.add("accepts a non-zero acknowledgement")
        errs = [o for o in outs if o.ret is not None and "FrontendInternalError" in show(o.ret)]
        chk.check(not probs and nread == 1 and nskip == 1 and errs, "B1", "proxy:wait", "waits iff negotiated; Ok iff value == 0; non-zero -> error",
                  "%s: %s" % (g.short, "; ".join(sorted(probs)) or "unexpected path structure"), g.loc())
    # each proxy method returns the transaction's result
    for code, row in sorted(wire.BACKEND_TABLE.items()):
        if not row.get("proxy"):
            continue
        ps = [p for p in fb.find(name=row["proxy"], self_adt="Backend") if p.trait]
        if len(ps) != 1:
            continue
        p = ps[0]
        chk.fn_seen(p)
        summ = Summariser(fb, no_inline=lambda h: True)
        outs, sym = summ.paths(p)
        good = False
        for o in outs:
            if o.ret is not None and ret_okness(o.ret) is True:
                good = "send_message" in show(o.ret) and any(a[0] == "ok" and a[1][0] == "call" and a[1][1] == "send_message" for a in o.atoms)
        chk.check(good, "B1", "proxy:%s:result" % code, "Ok(value) only from a successful transaction",
                  "%s can return Ok without a successful transaction" % p.short, p.loc())


ARGS = {
    "handle_config_change": [],
    "shared_object_add": ["body"], "shared_object_remove": ["body"],
    "shared_object_lookup": ["body", "file0"], "shmem_map": ["body", "file0"], "shmem_unmap": ["body"],
}


def b2(fb, chk):
    fr = common.dispatch_fn(fb, "FrontendReqHandler")
    m = must_of(fb, fr)
    chk.fn_seen(fr)
    by = {}
    for bb, t, c in common.handler_sites(fb, fr, common.FE_HANDLER_TRAIT):
        for code in common.arm_codes(m, bb):
            by.setdefault(code, []).append((bb, t, c))
    for code, row in sorted(wire.BACKEND_TABLE.items()):
        cs = by.get(code, [])
        key = "arm:" + code
        if len(cs) != 1 or cs[0][2]["name"] != row["handler"]:
            chk.bad("B2", key, "arm %s calls %s; the protocol's handler is %s (exactly once)" % (code, [c["name"] for _b, _t, c in cs], row["handler"]), fr.loc())
            continue
        bb, t, c = cs[0]
        args = m.sym.arg_terms(bb)[1:]
        got = []
        for a in args:
            x = a
            while x[0] in ("ref", "deref") or (x[0] == "cast" and x[4].startswith("PointerCoercion")):
                x = x[1]
            txt = show(x)
            if x[0] == "unwrap" and x[1][0] == "call" and x[1][1] == "extract_msg_body":
                got.append("body")
            elif "recv_header" in txt and (x[0] == "index" or (x[0] == "call" and x[1] == "index")):
                idx = x[2] if x[0] == "index" else x[2][1]
                got.append("file%s" % (idx[1] if idx[0] == "const" else "?"))
            else:
                got.append("?" + txt[:40])
        chk.check(got == ARGS[row["handler"]] and not m.cfg.in_loop(bb), "B2", key, "%s(%s)" % (row["handler"], ", ".join(got)),
                  "handler %s for %s receives %s; expected %s" % (row["handler"], code, got, ARGS[row["handler"]]), fr.loc(t["line"]))
    # a handler's failure stays a handler failure (its own errno is what gets acknowledged): every arm converts the result
    # with the same constructor, Error::ReqHandlerError
    for code, cs in sorted(by.items()):
        for bb, t, c in cs:
            hcall = m.sym.call_at(bb)
            conv = []
            for mb, mt, mc in sites(fr, name="map_err"):
                a = m.sym.arg_terms(mb)
                if a and any(x == hcall for x in subterms(a[0])):
                    conv.append(show(a[1]))
            if conv:
                chk.check(all("ReqHandlerError" in x for x in conv), "B2", "arm:%s:error-class" % code, "handler error -> ReqHandlerError",
                          "arm %s converts the handler's error with %s: the acknowledgement then carries -EINVAL instead of the handler's own "
                          "errno, and the application sees a socket error" % (code, conv), fr.loc(t["line"]))
    extra = set(by) - set(wire.BACKEND_TABLE)
    chk.check(not extra, "B2", "arm:others", "no handler for requests outside the table", "handlers called for %s" % sorted(extra), fr.loc())


def _ack_value_class(fb, sym, body):
    """Class of the 64-bit value acknowledged: 'payload' (the handler's Ok value), 'errno' (-raw_os_error),
    'einval' (-EINVAL), 'errno|einval' (-(raw_os_error or EINVAL)), or '?'."""
    t = body
    while t[0] in ("ref", "deref"):
        t = t[1]
    if t[0] == "call" and t[1] == "new" and len(t[2]) == 1:
        t = t[2][0]
    while t[0] in ("cast", "ref", "deref"):
        t = t[1]
    if t[0] == "un" and t[1] == "Neg":
        x = t[2]
        while x[0] in ("cast", "ref", "deref"):
            x = x[1]
        if x[0] in ("unwrap", "field", "down"):
            return "errno" if any(s_[0] == "call" and s_[1] == "raw_os_error" for s_ in subterms(x)) else "?"
        if x[0] == "call" and x[1] == "unwrap_or" and len(x[2]) == 2:
            a0, a1 = x[2]
            if a0[0] == "call" and a0[1] == "raw_os_error" and const_eval(fb, sym, a1) == 22:
                return "errno|einval"
            return "?"
        v = const_eval(fb, sym, x)
        if v == 22 or (x[0] == "cname" and x[1].endswith("EINVAL")):
            return "einval"
        return "?"
    if any(s_[0] == "down" and s_[2] == "Ok" for s_ in subterms(t)) and not any(s_[0] == "un" for s_ in subterms(t)):
        return "payload"
    return "?"


def b3(fb, chk):
    fr = common.dispatch_fn(fb, "FrontendReqHandler")
    sm = ServerModel(fb, "FrontendReqHandler", common.FE_HANDLER_TRAIT)
    ackfs = [f for f in fb.find(self_adt="FrontendReqHandler") if not f.trait and len(f.rec.get("sig_in") or []) == 3
             and "Result<" in (f.rec.get("sig_in") or ["", "", ""])[2]]
    if len(ackfs) != 1:
        chk.anchor_missing("B3", "frontend-side ack helper")
        return
    ackf = ackfs[0]
    chk.fn_seen(ackf)
    paths = sm.fn_paths(fr)
    chk.paths_enumerated += len(paths)
    probs = set()
    n = 0
    for p in paths:
        if p.events is None:
            probs.add("loop in dispatch")
            continue
        hs = [e for e in p.events if e.kind == "handler"]
        acks = [e for e in p.events if e.kind == "helper" and e.name == ackf.name]
        sends = [e for e in p.events if e.kind == "send"]
        if sends:
            probs.add("the dispatch sends outside the ack helper")
        if hs:
            n += 1
            pos = {id(e): i for i, e in enumerate(p.events)}
            if len(acks) != 1:
                probs.add("a path that invoked the handler calls the ack helper %d times" % len(acks))
            elif pos[id(acks[0])] < pos[id(hs[-1])]:
                probs.add("ack before the handler")
            else:
                arg = acks[0].term[2][2]
                if not any(server.same_call(s, hs[-1].term) for s in subterms(arg) if s[0] == "call"):
                    probs.add("ack helper not given the handler's result")
            # the dispatch returns the handler's (mapped) result on success of the ack
            if p.ok is not False and p.outcome.ret is not None:
                if not any(server.same_call(s, hs[-1].term) for s in subterms(p.outcome.ret) if s[0] == "call"):
                    probs.add("dispatch result %s is not the handler's result" % show(p.outcome.ret)[:50])
    chk.check(not probs and n >= 6, "B3", "dispatch:ack-discipline", "%d handler paths: one ack helper call after the handler, handler result returned" % n,
              "FrontendReqHandler::handle_request: %s" % "; ".join(sorted(probs)), fr.loc())
    # helper summary
    summ = Summariser(fb, no_inline=lambda g: True)
    outs, sym = summ.paths(ackf)
    names = ackf.arg_names()
    flag_atoms = lambda o: (any(a[0] == "true" and field_of(a[1])[1] is not None and root_of(a[1])[0] == "param" for a in o.atoms),
                            any(a[0] == "true" and a[1][0] == "call" and a[1][1] == "is_need_reply" for a in o.atoms))
    cond_probs = set()
    values = {}
    for o in outs:
        sends = [bb for bb in o.path if ackf.blocks[bb]["term"]["k"] == "call" and (callee_of(ackf.blocks[bb]["term"]) or {}).get("name") == "send_message"]
        en, need = flag_atoms(o)
        if sends and not (en and need):
            cond_probs.add("ack sent without reply_ack_negotiated && NEED_REPLY")
        if not sends and en and need and o.ret is not None and ret_okness(o.ret) is True:
            cond_probs.add("no ack although negotiated && NEED_REPLY")
        if sends:
            body = sym.arg_terms(sends[0])[2]
            from vlint.paths import pick
            body = pick(body, {b: i for i, b in enumerate(o.path)})
            is_ok = any(a[0] == "ok" and root_of(a[1])[0] == "param" and a[1][0] != "call" for a in o.atoms)
            has_errno = any(a[0] == "ok" and a[1][0] == "call" and a[1][1] == "raw_os_error" for a in o.atoms)
            no_errno = any(a[0] == "notok" and a[1][0] == "call" and a[1][1] == "raw_os_error" for a in o.atoms)
            values.setdefault("ok" if is_ok else "err", []).append((_ack_value_class(fb, sym, body), has_errno, no_errno, show(body)[:90]))
    chk.check(not cond_probs, "B3", "ack-helper:condition", "ack sent iff negotiated && NEED_REPLY", "; ".join(sorted(cond_probs)), ackf.loc())
    okv = values.get("ok", [])
    errv = values.get("err", [])
    good_ok = okv and all(c == "payload" for c, _h, _n, _s in okv)
    # errno known on the path -> -errno; errno absent (or not a handler error) -> -EINVAL; `unwrap_or(errno, EINVAL)` is both
    good_errno = any(c in ("errno", "errno|einval") for c, _h, _n, _s in errv) and \
        all(c in ("errno", "errno|einval") for c, h, _n, _s in errv if h)
    good_other = any(c in ("einval", "errno|einval") for c, _h, _n, _s in errv) and \
        all(c in ("einval", "errno|einval") if (n or not h) and c != "errno|einval" else True for c, h, n, _s in errv) and \
        all(c in ("errno", "einval", "errno|einval") for c, _h, _n, _s in errv)
    chk.check(bool(good_ok), "B3", "ack-helper:value:ok", "Ok(n) -> n", "ack value for Ok is %s" % sorted({s_ for _c, _h, _n, s_ in okv}), ackf.loc())
    chk.check(bool(good_errno), "B3", "ack-helper:value:errno", "handler error with errno e -> -e",
              "ack value for handler errors carrying an errno is %s" % sorted({(c, s_) for c, h, _n, s_ in errv}), ackf.loc())
    chk.check(bool(good_other), "B3", "ack-helper:value:other", "other errors -> -EINVAL",
              "ack value for other errors is %s" % sorted({(c, s_) for c, _h, _n, s_ in errv}), ackf.loc())
    # reply header of the ack: REPLY, request's code, size_of::<u64>
    from . import headers
    for g in fb.find(self_adt="FrontendReqHandler"):
        if g.trait or g.name == "new" or "MsgHeader" not in (g.rec.get("sig_out") or ""):
            continue
        hs = headers.built_headers(fb, g)
        names = g.arg_names()
        probs = set()
        for h in hs:
            if h["flags_value"] != (wire.FLAG_REPLY | wire.FLAG_VERSION):
                probs.add("flags %s" % (hex(h["flags_value"]) if h["flags_value"] is not None else show(h["flags"])[:50]))
            if not headers.from_request(h["request"], names[1]):
                probs.add("code %s" % show(h["request"])[:50])
            if h["size"] is None or not any(x[0] == "call" and x[1] == "size_of" for x in subterms(h["size"])):
                probs.add("size %s" % (show(h["size"])[:40] if h["size"] is not None else None))
            else:
                # size_of::<T>() of the BODY type parameter of the constructor (the method's own generic), not of a type
                # parameter of the server (its handler type)
                own = [p_ for p_ in (g.rec.get("generics") or [])]
                for x in subterms(h["size"]):
                    if x[0] == "call" and x[1] == "size_of":
                        ga = (h["sym"].info(x).get("gargs") or [""])[-1]
                        if ga in ("S", "Self") or (own and ga not in own and len(ga) <= 2):
                            probs.add("size is size_of::<%s>(), the server's type parameter, not the reply body's" % ga)
        chk.check(bool(hs) and not probs, "B3", "ack-header", "ack header: request's code, flags 0x5, size_of body",
                  "ack header built with %s" % sorted(probs), g.loc())
