"""C06 — frontend-side parsers accept only the matching reply, survive hostile peers."""
from spec import wire
from vlint.absint import const_eval
from vlint.facts import callee_of, resolved, AnchorMissing
from vlint.gates import atom_gate, field_of, root_of
from vlint.paths import Summariser, ret_okness, TooManyPaths
from vlint.terms import show, subterms
from vlint.must import show_atom
from vlint.util import must_of, sites
from . import common, replies, server

EXPLANATION = (
    "Decides: (A1) on every CFG path on which a reply receiver of the frontend endpoint, the backend->frontend "
    "proxy or the GPU proxy returns success after reading from the socket, the facts `received header "
    "is_reply_for(request)`, `body.is_valid()` and `no descriptors` (unless the receiver hands the descriptors to "
    "its caller) hold; success without reading is possible only when no acknowledgement is owed; (A2) is_reply_for "
    "returns true only if REPLY is set on the reply, clear on the request, both codes decode and are equal; (A3) in "
    "the frontend's server for backend-initiated requests the set of requests whose arm dereferences the received "
    "files equals the set for which the attached-file policy demands exactly one file, and equals the protocol's; "
    "every handler call site is dominated by the size check and the body validator; (A4) every panic-capable "
    "operation reachable from these parsers is discharged."
    " Also: (A3) no handler of the frontend's request server is reached for a header with the REPLY flag (directly or through a size-check helper all of whose Ok paths carry the fact); (A5, A6) C20/X2 and C08/S7.")
NOT_DECIDED = "That every mutated byte string is rejected: this is the union of the conjuncts above with C20's exact validator regions."


def run(ctx, chk):
    fb = ctx.fb("full")
    chk.explanation = EXPLANATION
    chk.not_decided = NOT_DECIDED
    chk.cfgs["full"] = fb.hashes
    chk.rule("A1", "reply receivers: every success path that read a reply carries is_reply_for, body validity and the descriptor condition")
    chk.rule("A2", "is_reply_for true => reply has REPLY, request has not, both codes decode and are equal")
    chk.rule("A3", "frontend-request server: attached-file policy == use of files == protocol table; handler calls validated")
    chk.rule("A4", "panic-capable operations reachable from the frontend-side parsers are discharged")
    a1(fb, chk)
    a2(fb, chk)
    a3(fb, chk)
    a4(fb, chk)
    from . import xlist
    xlist.apply("C06", fb, chk)
    n = lambda r: len([i for i in chk.instances if i[0] == r])
    # reply/request headers and bodies are accepted through validators whose exactness is decided by C20/X2
    from vlint.report import Renamed as _Renamed
    from spec import validity as _validity
    from . import c20 as _c20
    chk.rule("A5", "header and body validators applied by the frontend-side parsers accept exactly the protocol-valid encodings (C20/X2)")
    _c20.run_on(fb, _Renamed(chk, {"X2": "A5", "X1": "A5"}), _validity.VALID)
    chk.floor("A1", n("A1"), 7)
    chk.floor("A3", n("A3"), 10)


def a1(fb, chk, tag=""):
    rs = replies.receivers(fb)
    nrecv = 0
    for f, sends in rs:
        if sends:
            continue
        nrecv += 1
        chk.fn_seen(f)
        try:
            outs, sym, summ = replies.summarise_receiver(fb, f)
        except TooManyPaths as e:
            chk.bad("A1", tag + f.short, "too many paths: %s" % e, f.loc())
            continue
        chk.paths_enumerated += summ.paths_enumerated
        returns_files = "std::fs::File" in (f.rec.get("sig_out") or "")
        who = "%s::%s" % (f.self_ty.split("::")[-2], f.name)
        probs = set()
        npaths = 0
        for o in outs:
            if o.cut:
                probs.add("loop in receiver")
                continue
            if o.ret is None or ret_okness(o.ret) is False:
                continue
            npaths += 1
            rc = replies.did_receive(o)
            if rc is None:
                # success without reading: only when no acknowledgement is owed
                owed_neg = False
                for a in o.atoms:
                    if a[0] == "false" and (a[1][0] == "call" and a[1][1] == "is_need_reply" or field_of(a[1])[1]):
                        owed_neg = True
                    if a[0] == "cmp" and a[1] == "Eq":
                        g = atom_gate(fb, sym, ("cmp", "Ne", a[2], a[3]))
                        if g and g[2] == wire.PROTOCOL_FEATURES["REPLY_ACK"]:
                            owed_neg = True
                if not owed_neg:
                    probs.add("returns success without reading a reply although one may be owed")
                continue
            acc = replies.acceptance(o, rc)
            if not acc["reply_for"]:
                probs.add("a success path lacks the fact reply.is_reply_for(request)")
            if not acc["valid"]:
                probs.add("a success path lacks the fact body.is_valid()")
            if not returns_files and acc["fds"] != "none":
                probs.add("a success path accepts a reply carrying descriptors (fact `no descriptors` missing)")
            probs |= set(payload_framing(o, rc))
        chk.check(not probs and npaths >= 1, "A1", tag + who, "%d success paths carry the acceptance facts" % npaths,
                  "%s: %s" % (f.short, "; ".join(sorted(probs)) or "no success path"), f.loc())
    chk.floor("A1-receivers", nrecv, 7)


PAYLOAD_RECVS = {"recv_payload", "recv_payload_into_buf", "recv_data"}


def payload_framing(o, first_recv):
    """Problems with how a variable-length payload is received on this success path: its length must
    come from the *received* header's size field and the bytes received must equal that length."""
    probs = []
    for a in o.atoms:
        if a[0] != "ok" or a[1][0] != "call" or a[1][1] not in PAYLOAD_RECVS:
            continue
        call = a[1]
        if call[1] == "recv_payload_into_buf" and server.same_call(call, first_recv):
            probs.append("the payload is received together with the header, so its length cannot come from the reply's own "
                         "size field (a reply with a shorter payload, e.g. the failure encoding, blocks the caller)")
            continue
        ln = call[2][1] if len(call[2]) > 1 else None
        if ln is None:
            continue
        from_reply = False
        for s_ in subterms(ln):
            if s_[0] == "call" and s_[1] == "get_size" and s_[2]:
                if any(server.same_call(x, first_recv) for x in subterms(s_[2][0]) if x[0] == "call"):
                    from_reply = True
        if not from_reply:
            probs.append("payload length %s does not derive from the received reply header's size field" % show(ln)[:80])
        tied = False
        for b in o.atoms:
            if b[0] == "cmp" and b[1] == "Eq":
                txt = show(b[2]) + "|" + show(b[3])
                if "len(" in txt and call[1] in txt:
                    tied = True
        if not tied:
            probs.append("payload accepted without the fact `bytes received == declared payload length`")
    return probs


def a2(fb, chk):
    fs = [f for f in fb.find(name="is_reply_for")]
    chk.check(len(fs) == 2, "A2", "is_reply_for:impls", "two header types", "expected 2 is_reply_for implementations, found %d" % len(fs))
    for f in fs:
        chk.fn_seen(f)
        who = (f.self_adt or "").split("::")[-1]
        summ = Summariser(fb, no_inline=lambda g: g.name in ("get_code", "is_reply"))
        outs, sym = summ.summarise(f)
        chk.paths_enumerated += summ.paths_enumerated
        probs = set()
        ntrue = 0
        for o in outs:
            if o.ret != ("bool", True):
                if o.ret is None or o.ret[0] != "bool":
                    probs.add("undecided result %s" % (show(o.ret) if o.ret else None))
                continue
            ntrue += 1
            have = {"code_self": False, "code_req": False, "reply_self": False, "noreply_req": False, "eq": False}
            for a in o.atoms:
                if a[0] == "ok" and a[1][0] == "call" and a[1][1] == "get_code":
                    r = root_of(a[1][2][0])
                    if r[0] == "param" and r[1] == 1:
                        have["code_self"] = True
                    if r[0] == "param" and r[1] == 2:
                        have["code_req"] = True
                if a[0] in ("true", "false") and a[1][0] == "call" and a[1][1] == "is_reply":
                    r = root_of(a[1][2][0])
                    if r[0] == "param" and r[1] == 1 and a[0] == "true":
                        have["reply_self"] = True
                    if r[0] == "param" and r[1] == 2 and a[0] == "false":
                        have["noreply_req"] = True
                if a[0] == "cmp" and a[1] == "Eq":
                    txt = show(a[2]) + show(a[3])
                    if txt.count("get_code") >= 2:
                        have["eq"] = True
                if a[0] == "true" and a[1][0] == "call" and a[1][1] == "eq" and show(a[1]).count("get_code") >= 2:
                    have["eq"] = True
            for k, v in have.items():
                if not v:
                    probs.add("a true-returning path lacks `%s`" % k)
        chk.check(not probs and ntrue >= 1, "A2", "is_reply_for:" + who, "%d true path(s) carry all five facts" % ntrue,
                  "%s: %s" % (f.short, "; ".join(sorted(probs))), f.loc())
    # is_reply tests the REPLY bit
    for f in fb.find(name="is_reply"):
        sym = must_of(fb, f).sym
        ret = sym.local(0)
        ok = False
        if ret[0] == "bin" and ret[1] == "Ne" and ret[3][0] == "const" and ret[3][1] == 0 and ret[2][0] == "bin" and ret[2][1] == "BitAnd":
            ok = const_eval(fb, sym, ret[2][3]) == wire.FLAG_REPLY and field_of(ret[2][2])[1] is not None
        chk.check(ok, "A2", "is_reply:" + (f.self_adt or "").split("::")[-1], "tests flags & REPLY != 0",
                  "is_reply computes %s" % show(ret), f.loc())


def policy_sets(fb, f):
    """From the attached-file policy function: (codes allowed with exactly one file, codes allowed with
    any files, whether all other codes are rejected when files are present)."""
    summ = Summariser(fb, no_inline=lambda g: True)
    outs, sym = summ.paths(f)
    one, anyf, others_ok = set(), set(), True
    for o in outs:
        if o.ret is None or ret_okness(o.ret) is not True:
            continue
        codes = None
        files_none = files_some = len1 = False
        for a in o.atoms:
            if a[0] == "variant" and not a[3] and any(s[0] == "call" and s[1] == "get_code" for s in subterms(a[1])):
                codes = set(a[2])
            if a[0] == "notok" and _is_files(a[1]):
                files_none = True
            if a[0] == "ok" and _is_files(a[1]):
                files_some = True
            if a[0] == "variant" and _is_files(a[1]):
                if a[2] == frozenset(["Some"]) and not a[3]:
                    files_some = True
                if a[2] == frozenset(["None"]) and not a[3]:
                    files_none = True
            if a[0] == "cmp" and a[1] == "Eq" and a[3][0] == "const" and a[3][1] == 1 and "len(" in show(a[2]):
                len1 = True
        if codes:
            if len1:
                one |= codes
            elif not files_none:
                anyf |= codes
        else:
            if not files_none:
                others_ok = False
    return one, anyf, others_ok


def policy_accepts_without_files(fb, f):
    """Codes (None = every code not named in an arm) for which the attached-file policy has an accepting path that does
    not require descriptors to be present."""
    summ = Summariser(fb, no_inline=lambda g: True)
    outs, sym = summ.paths(f)
    acc = set()
    for o in outs:
        if o.ret is None or ret_okness(o.ret) is not True:
            continue
        codes = None
        needs = False
        for a in o.atoms:
            if a[0] == "variant" and not a[3] and any(s[0] == "call" and s[1] == "get_code" for s in subterms(a[1])):
                codes = set(a[2])
            if a[0] == "ok" and _is_files(a[1]):
                needs = True
            if a[0] == "variant" and _is_files(a[1]) and ((a[2] == frozenset(["Some"]) and not a[3]) or (a[2] == frozenset(["None"]) and a[3])):
                needs = True
            if a[0] == "cmp" and "len(" in show(a[2]) and a[1] in ("Eq", "Ge", "Gt") and a[3][0] == "const" and a[3][1] >= 1:
                needs = True
        if not needs:
            acc |= codes if codes else {None}
    return acc


def _is_files(t):
    while t[0] in ("ref", "deref"):
        t = t[1]
    return t[0] == "param" and t[2] == "files"


def a3(fb, chk):
    fs = fb.find(name="check_attached_files", self_adt="FrontendReqHandler")
    if len(fs) != 1:
        chk.anchor_missing("A3", "FrontendReqHandler attached-file policy")
        return
    pol = fs[0]
    chk.fn_seen(pol)
    one, anyf, others_ok = policy_sets(fb, pol)
    chk.check(one == wire.BACKEND_FD_CARRYING and not anyf and others_ok, "A3", "policy:table",
              "exactly-one-file codes %s; every other code rejected when files are present" % sorted(one),
              "file policy: one-file codes %s (protocol: %s), any-file codes %s, others rejected with files: %s"
              % (sorted(one), sorted(wire.BACKEND_FD_CARRYING), sorted(anyf), others_ok), pol.loc())
    fr = common.dispatch_fn(fb, "FrontendReqHandler")
    m = must_of(fb, fr)
    chk.fn_seen(fr)
    # the policy is applied before any body read / handler call
    pol_sites = [bb for bb, t, c in sites(fr, name=pol.name)]
    for bb, t in fr.calls():
        c = callee_of(t)
        if c is None:
            continue
        isrecv = (c.get("self_adt") or "").endswith("::Endpoint") and c.get("name") == "recv_data"
        ishandler = (c.get("of_trait") or "").endswith("::" + common.FE_HANDLER_TRAIT)
        if isrecv or ishandler:
            ok = any(a[0] == "ok" and a[1][0] == "call" and a[1][1] == pol.name for a in m.atoms_at(bb))
            chk.check(ok, "A3", "policy-before:%s@%s" % (c["name"], "/".join(sorted(common.arm_codes(m, bb))) or "prelude"),
                      "dominated by policy == Ok", "%s is reachable without the attached-file policy having accepted" % c["name"],
                      fr.loc(t["line"]))
    # uses of the files: Option::unwrap on the received files
    use_codes = set()
    for bb, t in fr.calls():
        c = callee_of(t)
        if c and c.get("name") in ("unwrap", "expect") and "Option<std::vec::Vec<std::fs::File>>" in (t["atys"][0] if t["atys"] else ""):
            use_codes |= common.arm_codes(m, bb)
    chk.check(use_codes <= one, "A3", "policy:use", "files dereferenced only in arms %s" % sorted(use_codes),
              "arms %s dereference the received files, but the policy guarantees a file only for %s" % (sorted(use_codes), sorted(one)),
              fr.loc())
    # handler calls: size check + validator
    for bb, t, c in common.handler_sites(fb, fr, common.FE_HANDLER_TRAIT):
        codes = common.arm_codes(m, bb)
        code = next(iter(codes)) if len(codes) == 1 else None
        row = wire.BACKEND_TABLE.get(code)
        key = "handler:%s" % (code or c["name"])
        if row is None:
            chk.bad("A3", key, "handler %s called for request %s which has no row in the protocol table" % (c["name"], sorted(codes)), fr.loc(t["line"]))
            continue
        okh = c["name"] == row["handler"]
        atoms = m.atoms_at(bb)
        if row["body"]:
            val = any(a[0] == "ok" and a[1][0] == "call" and a[1][1] == "extract_msg_body" for a in atoms)
        else:
            # a request without body: the size check is made against 0 (the expected size is the constant, not the size
            # that happened to arrive)
            val = any(a[0] == "ok" and a[1][0] == "call" and a[1][1] == "check_msg_size" and len(a[1][2]) >= 4 and
                      const_eval(fb, m.sym, a[1][2][3]) == 0 for a in atoms)
        chk.check(okh and val, "A3", key, "handler %s under size/validity facts" % c["name"],
                  "arm %s calls %s (protocol: %s) with size/validity fact present: %s" % (code, c["name"], row["handler"], val),
                  fr.loc(t["line"]))
    # a message with the REPLY flag is not a request: no handler runs for it.  The header validator accepts the flag (it
    # is legal in replies), so the request servers must test it themselves - directly or through a size-check helper
    # all of whose Ok paths carry the fact.
    def _no_reply_helpers(server_adt):
        good = set()
        for g in fb.find(self_adt=server_adt):
            if g.trait or not g.blocks:
                continue
            summ_ = Summariser(fb, no_inline=lambda h: True)
            try:
                outs_, _sym = summ_.paths(g)
            except Exception:
                continue
            oks = [o for o in outs_ if o.ret is not None and ret_okness(o.ret) is True]
            if oks and all(any(a[0] == "false" and a[1][0] == "call" and a[1][1] == "is_reply" for a in o.atoms) for o in oks):
                good.add(g.name)
        return good
    # (C06 states this for the frontend's server of backend-initiated requests; C05 enumerates the backend server's rules)
    for server_adt, trait_, disp in (("FrontendReqHandler", common.FE_HANDLER_TRAIT, fr),):
        helpers = _no_reply_helpers(server_adt)
        # helpers that always go through such a helper (e.g. the body extractor calling the size check)
        for g in fb.find(self_adt=server_adt):
            if g.trait or g.name in helpers:
                continue
            gm = must_of(fb, g)
            rets = [bi for bi, b in enumerate(g.blocks) if b["term"]["k"] == "ret" and not b["cleanup"]]
            summ_ = Summariser(fb, no_inline=lambda h: True)
            try:
                outs_, _sym = summ_.paths(g)
            except Exception:
                continue
            oks = [o for o in outs_ if o.ret is not None and ret_okness(o.ret) is True]
            if oks and all(any(a[0] == "ok" and a[1][0] == "call" and a[1][1] in helpers for a in o.atoms) for o in oks):
                helpers.add(g.name)
        dm = must_of(fb, disp)
        for bb, t, c in common.handler_sites(fb, disp, trait_):
            atoms = dm.atoms_at(bb)
            direct = any(a[0] == "false" and a[1][0] == "call" and a[1][1] == "is_reply" for a in atoms)
            via = any(a[0] == "ok" and a[1][0] == "call" and a[1][1] in helpers for a in atoms)
            codes = sorted(common.arm_codes(dm, bb))
            chk.check(direct or via, "A3", "not-a-reply:%s:%s" % (server_adt, "/".join(codes) or c["name"]),
                      "handler reached only for headers without the REPLY flag",
                      "%s calls %s for a message whose REPLY flag was never tested: a reply-flagged message is dispatched as a request"
                      % (disp.short, c["name"]), disp.loc(t["line"]))
    # the body extractor validates: Ok => size check Ok and is_valid true
    for ex in fb.find(name="extract_msg_body", self_adt="FrontendReqHandler") + fb.find(name="extract_request_body", self_adt="BackendReqHandler"):
        summ = Summariser(fb, no_inline=lambda g: True)
        outs, sym = summ.paths(ex)
        probs = set()
        for o in outs:
            if o.ret is None or ret_okness(o.ret) is not True:
                continue
            sz = any(a[0] == "ok" and a[1][0] == "call" and a[1][1] in ("check_msg_size", "check_request_size") for a in o.atoms)
            vd = any(a[0] == "true" and a[1][0] == "call" and a[1][1] == "is_valid" for a in o.atoms)
            if not sz:
                probs.add("Ok path without the size check")
            if not vd:
                probs.add("Ok path without body.is_valid()")
            # size check compares with size_of::<T>()
        chk.check(not probs, "A3", "extractor:" + ex.short, "Ok => size check and validator passed",
                  "%s: %s" % (ex.short, "; ".join(sorted(probs))), ex.loc())


def _req_file_policy(fb, o):
    pol = fb.one(name="check_attached_files", self_adt="FrontendReqHandler")
    one, anyf, others_ok = policy_sets(fb, pol)
    fr = common.dispatch_fn(fb, "FrontendReqHandler")
    m = must_of(fb, fr)
    codes = common.arm_codes(m, o["bb"])
    applied = any(a[0] == "ok" and a[1][0] == "call" and a[1][1] == pol.name for a in m.atoms_at(o["bb"]))
    return bool(codes) and codes <= one and applied


def _req_payload_bounded(fb, o):
    """every caller of the payload receiver passes a length bounded by MAX_MSG_SIZE (must-facts)."""
    from .panics import upper_bound
    n = 0
    for f in fb.fns.values():
        for bb, t, c in sites(f, name="recv_payload", self_adt="Endpoint"):
            n += 1
            m = must_of(fb, f)
            ub = upper_bound(fb, m, m.sym.arg_terms(bb)[1], m.atoms_at(bb))
            if ub is None or ub > wire.MAX_MSG_SIZE:
                return False
    return n >= 1


A4_TABLE = {
    "Endpoint::recv_payload:from_elem:*": ("C", "callers bound the payload length by the requested length <= MAX_MSG_SIZE", _req_payload_bounded, 1),
    "FrontendReqHandler::handle_request:unwrap:*": ("C", "the attached-file policy accepted: exactly one file for this request code (A3)", _req_file_policy, 2),
    "FrontendReqHandler::handle_request:index:*": ("C", "the attached-file policy accepted: exactly one file for this request code (A3)", _req_file_policy, 2),
    "FrontendReqHandler::send_ack_message:OverflowNeg:*": ("C", "negated value is an errno supplied by the application's handler (never i32::MIN), not peer input", None, 2),
    "FrontendInternal::recv_reply_with_payload:Overflow(Add):*": ("C", "bytes <= buf.len() <= MAX_MSG_SIZE: payload count is the receive count minus the fixed part", None, 1),
}


def a4(fb, chk):
    from . import panics
    roots = [common.dispatch_fn(fb, "FrontendReqHandler")]
    for f, sends in replies.receivers(fb):
        roots.append(f)
    table = dict(panics.COMMON_TABLE)
    table.update(A4_TABLE)
    panics.audit(fb, chk, "A4", roots, scope="frontend-side parsers (reply receivers, backend-request server)", table=table)
