"""Cross-listing: clauses of one property that are decided by a rule written for a sibling property are filed under
both.  Each entry names the borrowed rule code, the rule ids taken over (optionally only the instances whose key
matches), the new id and its text.  The borrowed code runs unchanged; only the filing differs."""
import importlib

from vlint.report import Renamed


def _call(name, fb, chk):
    mod, _, fn = name.partition(".")
    m = importlib.import_module("rules." + mod)
    if mod == "c20":
        from spec import validity
        return m.run_on(fb, chk, validity.VALID)
    if name == "c01.w1":
        from spec import wire
        return m.w1(fb, chk, wire.STRUCTS)
    if name == "c04.p4":
        from . import common
        return m.p4(fb, chk, common.dispatch_fn(fb), "")
    if fn in ("d1d2", "r1r2", "r3r4", "d3", "d4", "p9"):
        return getattr(m, fn)(fb, chk, "")
    if name == "c05.take_single":
        return m.take_single_rule(fb, chk)
    if fn:
        return getattr(m, fn)(fb, chk)
    return m.run_on(fb, chk)


def has(*subs):
    return lambda k: any(s in k for s in subs)


XLIST = {
    "C01": [
        ("c08.fd_bound", {"S14": "W15"}, {"W15": "a conformant message carrying exactly MAX_ATTACHED_FD_ENTRIES (32) descriptors / regions is encoded and sent, not refused: every test against the bound is inclusive (sibling agreement of the count tests)"}),
        ("c11", {"T1": ("W13", has("get_vring_base:result"))}, {"W13": "the GET_VRING_BASE reply carries (index, next-available) in that order (C11/T1)"}),
        ("c05.v1", {"V1": ("W14", has("vringfd"))}, {"W14": "the notifier requests' u64 is decoded as the specification says: bit 8 set means no descriptor travels (C05/V1)"}),
        ("c18.b3", {"B3": ("W11", has("ack-helper:value"))}, {"W11": "the acknowledgement written on the backend-request channel carries 0 for success and a non-zero status for every failure (C18/B3)"}),
        ("c14", {"Q5": "W12"}, {"W12": "the backend-request proxy sets NEED_REPLY only when REPLY_ACK was negotiated: its flags come from the negotiated set (C14/Q5)"}),
        ("c20", {"X2": "W9"}, {"W9": "every specification-conformant encoding (headers: size up to and including the maximum, version 1; bodies: the protocol's alignment and range rules, no stricter) is accepted by the receiving side's validator (C20/X2)"}),
        ("c03.r1r2", {"R1": ("W10", has("SET_DEVICE_STATE_FD", "CHECK_DEVICE_STATE", "GET_CONFIG")), "R2": ("W10", has("SET_DEVICE_STATE_FD", "CHECK_DEVICE_STATE", "GET_CONFIG"))},
         {"W10": "status words and in-band failure encodings of replies are the specified ones (C03/R1, R2)"}),
        ("c07", {"G1": ("W7", has("SET_LOG_BASE"))}, {"W7": "the descriptor-carrying form of SET_LOG_BASE is composed only when LOG_SHMFD was negotiated (C07/G1)"}),
        ("c08.loops", {"S2": "W8"}, {"W8": "a message delivered in several segments is decoded with the descriptors of its first byte (C08/S2)"}),
    ],
    "C02": [
        ("c09", {"O1": ("D19", has("recv:order", "recv:count"))}, {"D19": "received descriptors reach the handler complete and in wire order (C09/O1)"}),
        ("c08.s9", {"S9": "D18"}, {"D18": "both ends bound a message by the same inclusive MAX_MSG_SIZE: what the frontend sends the dispatcher does not refuse (C08/S9)"}),
        ("c07", {"G5": ("D16", has("backend:"))}, {"D16": "the dispatcher's record of the negotiated features changes only in the negotiation arms, so a call the frontend accepts is not dropped later (C07/G5)"}),
        ("c06.a1", {"A1": ("D17", has("wait_for_ack"))}, {"D17": "an acknowledgement that was asked for is awaited before the call returns (C06/A1)"}),
        ("c01.w6", {"W6": "D13"}, {"D13": "the caller's descriptors travel with the first byte on every attempt of the send loop (C01/W6)"}),
        ("c01.w3", {"W3": ("D14", has("caller:"))}, {"D14": "every request header is built with the configured NEED_REPLY setting, so acknowledged calls wait for the handler (C01/W3)"}),
        ("c04", {"P1": "D10"}, {"D10": "the backend answers each request with exactly the replies the frontend call consumes (C04/P1)"}),
        ("c20", {"X2": "D11", "X1": "D11"}, {"D11": "both ends validate with the same predicates: what the frontend API accepts the backend does not drop (C20/X2)"}),
        ("c03.r3r4", {"R3": ("D12", has("GET_QUEUE_NUM"))}, {"D12": "the queue limit used by the local rejections is updated only from an accepted reply (C03/R3)"}),
        ("c07.exact_gates", {"GX": "D15"}, {"D15": "the dispatcher refuses a request for a missing feature only where the protocol ties it to that feature, so an accepted call is not dropped (C07 gate table, exactness)"}),
    ],
    "C03": [
        ("c06.a1", {"A1": ("R17", has("wait_for_ack"))}, {"R17": "an acknowledgement that carries the handler's verdict is awaited whenever REPLY_ACK applies (C06/A1)"}),
        ("c08.s9", {"S9": "R18"}, {"R18": "a reply of exactly the maximum message size can be built and sent (inclusive bound on every side) (C08/S9)"}),
        ("c02.d1d2", {"D2": "R15"}, {"R15": "the handler is asked about the ring / region / object the request names, so the value reported is that one's (C02/D2)"}),
        ("c08.s4", {"S4": "R16"}, {"R16": "a closed connection is an error for the caller in bounded time: EPIPE/ECONNRESET are not retried (C08/S4)"}),
        ("c10", {"L1": ("R12", has("Frontend as"))}, {"R12": "request and reply are exchanged under one acquisition of the connection lock, so a caller receives its own reply (C10/L1)"}),
        ("c04", {"P2": "R13"}, {"R13": "acknowledged requests are answered only through the ack helper: no stray reply is left for a later call to misread (C04/P2)"}),
        ("c07", {"G5": ("R14", has("frontend:"))}, {"R14": "the frontend's record of the acked features is what it sent, so it awaits the acknowledgements that carry failures (C07/G5)"}),
        ("c08.loops", {"S2": "R10"}, {"R10": "a reply delivered in several segments keeps its descriptor and is retried, not dropped (C08/S2)"}),
        ("c02.d3", {"D3": "R11"}, {"R11": "the Arc/Mutex/RwLock adapters forward every operation, so the device's own result is what is reported (C02/D3)"}),
        ("c20", {"X2": "R8"}, {"R8": "header and body validators accept exactly the protocol-valid encodings: a good reply is not turned into an error, an invalid one not into a success (C20/X2)"}),
        ("c16", {"H2": "R9"}, {"R9": "the daemon stops serving and closes the connection on a request error, so a caller waiting for a reply gets an error (C16/H2)"}),
    ],
    "C04": [
        ("c08.loops", {"S2": "P16"}, {"P16": "a request delivered in several segments is reassembled at the running offset, so it is consumed and answered (C08/S2)"}),
        ("c02.d1d2", {"D2": "P17"}, {"P17": "each request's arguments are decoded from its own fields: a well-formed request is not refused for another field's value (C02/D2)"}),
        ("c07", {"G5": ("P18", has("backend:"))}, {"P18": "the acked protocol features are the last value sent, so acknowledgements stop when REPLY_ACK is negotiated away (C07/G5)"}),
        ("c01.w6", {"W6": "P10"}, {"P10": "replies are written completely (looping send, descriptors with the first byte) (C01/W6)"}),
        ("c08.loops", {"S1": "P11"}, {"P11": "reply senders loop over partial writes and compare the total (C08/S1)"}),
        ("c02.d3", {"D3": ("P12", has("ReqHandler"))}, {"P12": "the handler adapters invoke the same-named method, so the acknowledgement reports that method's result (C02/D3)"}),
        ("c08.s7s8", {"S8": "P13"}, {"P13": "a request body arriving in several segments is read completely (C08/S8 and the looping receiver)"}),
        ("c20", {"X2": "P7"}, {"P7": "well-formed headers and bodies are accepted by the validators (no stricter than the protocol), so their requests are consumed and answered (C20/X2)"}),
        ("c03.r1r2", {"R1": "P8", "R2": "P8"}, {"P8": "reply size and payload agree for success and in-band failure encodings (C03/R1, R2)"}),
        ("c05.v1", {"V1": ("P15", has("policy:optional-fd"))}, {"P15": "a notifier request without a descriptor (bit 8 set) passes the attached-file policy, so it is consumed and acknowledged (C05/V1)"}),
        ("c07.exact_gates", {"GX": "P14"}, {"P14": "a well-formed request is refused for a missing feature only where the protocol ties it to that feature; otherwise it is handled and answered (C07 gate table, exactness)"}),
    ],
    "C06": [
        ("c03.r3r4", {"R4": "A11"}, {"A11": "a reply receiver's result is not discarded: a malformed reply is not reported as success (C03/R4)"}),
        ("c08.s3", {"S3": "A10"}, {"A10": "a reply is accepted only if its header AND its body pass their validators (C08/S3)"}),
        ("c03.r3r4", {"R3": "A9"}, {"A9": "a reply value outside the protocol's accept set is never turned into a success (C03/R3)"}),
        ("c05.take_single", {"V1": ("A7", has("take_single_file"))}, {"A7": "a reply's descriptor is taken only when exactly one was attached (C05/V1 take_single_file)"}),
        ("c08.loops", {"S2": "A8"}, {"A8": "descriptors attached to the first segment are not lost or laundered by later segments (C08/S2)"}),
        ("c08.s7s8", {"S7": "A6"}, {"A6": "a truncated reply cannot pass for a complete one: receive counts are never discarded (C08/S7)"}),
    ],
    "C07": [
        ("c14", {"Q5": "G6"}, {"G6": "the backend-request proxy's feature flags are the negotiated ones, so its own gates (G3) test the negotiated state (C14/Q5)"}),
    ],
    "C08": [
        ("c16", {"H3": ("S14", has("no-other-ok", "socket-broken"))}, {"S14": "a stream cut inside a message is reported as an error by the daemon, never as a clean end (C16/H3)"}),
        ("c04.p9", {"P9": "S13"}, {"S13": "the size a reply header announces is the size of what follows it, so a peer framing by the header stays in step (C04/P9)"}),
        ("c05.v5", {"V5": "S12"}, {"S12": "a receive never runs past the buffer of the message being read into the bytes of the next message (C05/V5)"}),
    ],
    "C05": [
        ("c02.d1d2", {"D2": "V6"}, {"V6": "each value the validator checked reaches the handler parameter it was checked for (an address checked for the available ring's alignment is not handed over as the used ring's): handler arguments are the named fields of the validated body (C02/D2)"}),
    ],
    "C10": [
        ("c08.loops", {"S2": ("L20", has("recv_into_iovec_all", "recv_data", "recv_into_bufs"))}, {"L20": "a reply arriving in several segments is reassembled at the running offset, so the read ends having consumed exactly the reply's bytes: the caller neither blocks holding the lock nor takes bytes of the next caller's reply (C08/S2)"}),
        ("c01.w1", {"W1": ("L19", has("Gpu", "VhostUserU64", "VhostUserVringState", "VhostUserConfig", "VhostUserInflight", "VhostUserLog", "VhostUserMemory"))}, {"L19": "reply structures have the specified size: a reply is read completely, nothing of it is left for the next caller (C01/W1)"}),
        ("c05.v1", {"V1": ("L18", has("vringfd"))}, {"L18": "a well-formed notifier request is decoded, not refused before its acknowledgement (the caller waits holding the lock) (C05/V1)"}),
        ("c03.r1r2", {"R1": ("L16", has("GET_CONFIG"))}, {"L16": "a reply never carries more than its header announces: no stray bytes are left for the next caller (C03/R1)"}),
        ("c07", {"G1": ("L17", has("SET_LOG_BASE"))}, {"L17": "the reply-bearing form of SET_LOG_BASE is used only when the backend will answer it, so the caller does not wait holding the lock (C07/G1)"}),
        ("c18.b3", {"B3": ("L13", has("ack-helper:condition"))}, {"L13": "the frontend-side service acknowledges exactly the requests that asked for it: no stray acknowledgement for the next caller to consume (C18/B3)"}),
        ("c03.r3r4", {"R4": "L14"}, {"L14": "each call waits for exactly the kind of reply the backend writes for it, so no caller blocks holding the lock (C03/R4)"}),
        ("c14", {"Q4": ("L15", has("proto-store"))}, {"L15": "the daemon's record of the acked protocol features is the last value sent, so the proxy never waits for an acknowledgement that was negotiated away (C14/Q4)"}),
        ("c08.s4", {"S4": "L10"}, {"L10": "interrupted system calls are retried inside the transaction (errno classes, C08/S4)"}),
        ("c07", {"G5": ("L11", has("frontend:"))}, {"L11": "the frontend awaits exactly the acknowledgements the backend writes (C07/G5)"}),
        ("c14", {"Q5": "L12"}, {"L12": "the proxy's reply-ack setting is the negotiated one, so a proxy call never waits for an acknowledgement that is not written (C14/Q5)"}),
        ("c08.s3", {"S3": "L7"}, {"L7": "a reply is consumed completely (all segments) before the lock is released (C08/S3)"}),
        ("c18.b1", {"B1": "L8"}, {"L8": "both halves of a proxy transaction consult the same reply-ack state, held under the endpoint mutex (C18/B1)"}),
        ("c04.p4", {"P4": "L9"}, {"L9": "an acknowledgement the caller waits for (holding the lock) is always written (C04/P4)"}),
    ],
    "C11": [
        ("c17.e5e6", {"E5": "T11"}, {"T11": "a kick of a disabled ring does not end the worker: retained kicks are delivered after re-enable (C17/E5)"}),
        ("c12", {"K3": ("T12", has("wait-interrupted"))}, {"T12": "an interrupted epoll wait is retried, so started and enabled rings keep being polled (C12/K3)"}),
        ("c02.d1d2", {"D2": ("T8", has("GET_VRING_BASE", "SET_VRING_ENABLE", "SET_VRING_KICK", "SET_VRING_CALL", "SET_VRING_ERR"))}, {"T8": "ring requests act on the ring named by the message (index from the index field) (C02/D2)"}),
        ("c07", {"G2": ("T9", has("RESET_DEVICE", "SET_VRING_ENABLE"))}, {"T9": "the reset / enable transitions are tied to their own protocol feature only (C07/G2)"}),
        ("c17", {"E3": ("T10", has("slice"))}, {"T10": "each worker dispatches on the rings of its own mask, so the registered id names the ring that was started (C17/E3)"}),
        ("c02.d3", {"D3": ("T6", has("Vring"))}, {"T6": "the lock-backed ring types forward every setter to the same-named state method (C02/D3)"}),
        ("c14.q12", {"Q12": "T7"}, {"T7": "the ring state's setters perform exactly the queue operation they are named after (C14/Q12)"}),
    ],
    "C20": [
        ("c02.d4", {"D4": ("X4", has("set_mem_table"))}, {"X4": "the frontend accepts memory tables of 1 to 32 regions, the protocol's range (C02/D4)"}),
        ("c05.v1", {"V1": ("X3", has("site:SET_MEM_TABLE"))}, {"X3": "the region validator is applied to every region of a memory table before it is accepted (C05/V1)"}),
    ],
    "C12": [
        ("c17.e12e13", {"E12": "K19", "E13": "K20"}, {"K19": "with the default mapping every queue below 32 has a worker, so its kicks are registered (C17/E12)",
                                                      "K20": "ring objects exist for exactly the queue indices 0 .. num_queues (C17/E13)"}),
        ("c05.v2", {"V2": ("K16", has("VringEpollHandler", "VringT<", "VringState"))}, {"K16": "no panic in the worker loop or the ring accessors: a dead worker handles no kick (C05/V2)"}),
        ("c14.q12", {"Q12": "K17"}, {"K17": "the ring state's setters store / forward the caller's value: a disable really disables (C14/Q12)"}),
        ("c02.d1d2", {"D2": ("K15", has("GET_VRING_BASE", "SET_VRING_ENABLE", "SET_VRING_KICK"))}, {"K15": "a stop / enable / kick request acts on the ring it names (C02/D2)"}),
        ("c17.e5e6", {"E5": "K13"}, {"K13": "a ring event never makes the worker leave its loop, so later kicks still find a worker (C17/E5)"}),
        ("c16.h9", {"H9": "K14"}, {"K14": "the workers are told to exit only when serving ends or the handler is dropped, never per connection (C16/H9)"}),
        ("c16", {"H4": ("K12", has("exit-events"))}, {"K12": "the workers are told to exit when serving ends, and only then (C16/H4)"}),
        ("c02.d3", {"D3": ("K10", has("VhostUserBackend<", "VringT<"))}, {"K10": "the backend adapters forward handle_event unconditionally (blocking lock), so a consumed kick is processed (C02/D3)"}),
        ("c17", {"E2": "K11"}, {"K11": "a custom listener cannot take the exit id and stop the worker (C17/E2)"}),
        ("c17", {"E3": ("K9", has("id-source", "first-thread", "one-worker", "slice", "thread-order"))}, {"K9": "the registered event id and worker are the ring's own, so its wake-ups reach its handler (C17/E3)"}),
    ],
    "C13": [
        ("c01.w1", {"W1": ("M15", has("MemoryRegion", "VhostUserMemory"))}, {"M15": "memory-region messages have the specified layout: guest address, size, user address and offset are read from their own bytes (C01/W1)"}),
        ("c02.d4", {"D4": ("M14", has("set_mem_table"))}, {"M14": "the frontend sends exactly the regions it was given or fails: an invalid region is not silently left out (C02/D4)"}),
        ("c02.d1d2", {"D2": ("M12", has("SET_MEM_TABLE", "ADD_MEM_REG", "REM_MEM_REG"))}, {"M12": "the memory-table handlers receive the regions and descriptors of the message (C02/D2)"}),
        ("c09", {"O1": ("M13", has("recv:order", "recv:count"))}, {"M13": "received descriptors keep their wire order, so region i is backed by file i (C09/O1)"}),
        ("c05.v1", {"V1": ("M10", has("site:SET_MEM_TABLE"))}, {"M10": "a memory table is accepted only with exactly one descriptor per region (C05/V1)"}),
        ("c01.w5", {"W5": ("M11", has("Region"))}, {"M11": "the frontend announces a region with its guest address and user address in their own fields (C01/W5)"}),
        ("c14", {"Q3": ("M8", has("set_vring_addr"))}, {"M8": "each ring address is translated by its own lookup in the table (C14/Q3)"}),
        ("c20", {"X2": ("M7", has("MemoryRegion"))}, {"M7": "only regions whose guest/user/mmap ranges do not wrap are accepted into the table (C20/X2)"}),
    ],
    "C14": [
        ("c20", {"X2": ("Q17", has("VringAddr", "VringState", "VhostUserU64"))}, {"Q17": "ring configuration messages are accepted exactly when protocol-valid (no stricter alignment, no laxer flags) (C20/X2)"}),
        ("c13", {"M5": "Q16"}, {"Q16": "a removed region's translation entry is removed with it (keyed by the guest address) (C13/M5)"}),
        ("c19.u5", {"U5": "Q15"}, {"Q15": "kernel backends: a ring part is accepted only if [addr, addr + its virtio length) lies in guest memory (C19/U5)"}),
        ("c13", {"M4": "Q13"}, {"Q13": "every accepted memory table replaces the mappings and is announced to the device: ring operations act on the latest table (C13/M4)"}),
        ("c11", {"T1": ("Q10", has("set_features"))}, {"Q10": "an accepted SET_FEATURES always delivers its effects (no early return) (C11/T1)"}),
        ("c13", {"M1": ("Q11", lambda k: "after-commit" in k and "update_memory" not in k)}, {"Q11": "translation entries and memory table change together (C13/M1)"}),
        ("c02.d1d2", {"D2": ("Q9", has("SET_FEATURES", "SET_VRING_NUM", "SET_VRING_ADDR", "SET_VRING_BASE", "GET_VRING_BASE", "SET_PROTOCOL_FEATURES", "SET_BACKEND_REQ_FD"))}, {"Q9": "the ring-configuration and feature handlers receive the values on the wire, field by field (C02/D2)"}),
    ],
    "C15": [
        ("c02.d1d2", {"D2": ("B12", has("SET_LOG_BASE", "SET_LOG_FD"))}, {"B12": "the SET_LOG_BASE handler receives the log area of the message and its descriptor (C02/D2)"}),
        ("c20", {"X2": ("B13", has("VhostUserLog"))}, {"B13": "a log area is accepted exactly when it is non-empty and does not wrap (C20/X2)"}),
        ("c19.u3_vring_addr", {"U3": ("B11", has("log_guest_addr"))}, {"B11": "kernel backends: the used-ring log address handed to the kernel is the configured log address (C19/U3)"}),
        ("c03.r1r2", {"R1": ("B6", has("SET_LOG_BASE"))}, {"B6": "SET_LOG_BASE is confirmed to the frontend only after the handler accepted the log (C03/R1)"}),
    ],
    "C18": [
        ("c08.loops", {"S1": "B15"}, {"B15": "a request is written completely: a transient send failure is retried, not turned into a dropped request (C08/S1)"}),
        ("c08.s5", {"S5": ("B16", has("part-receiver"))}, {"B16": "the acknowledgement is read by a looping receiver (C08/S5)"}),
        ("c08.s3", {"S3": "B17"}, {"B17": "an acknowledgement is accepted only complete and valid (C08/S3)"}),
        ("c02.d3", {"D3": ("B14", has("FrontendReqHandler"))}, {"B14": "the Mutex adapter of the frontend-side handler forwards every request to the same-named method (C02/D3)"}),
        ("c08.s4", {"S4": "B9"}, {"B9": "an interrupted wait for the acknowledgement is retried (EINTR is the retry class) (C08/S4)"}),
        ("c14", {"Q4": ("B7", has("proto-store"))}, {"B7": "the daemon records the acknowledged protocol features unmasked, so the proxy inherits REPLY_ACK (C14/Q4)"}),
        ("c08.loops", {"S2": "B8"}, {"B8": "the acknowledgement is read with unconditional retry on EINTR/EAGAIN (C08/S2)"}),
        ("c20", {"X2": ("B5", has("MMap", "SharedMsg"))}, {"B5": "validators of the backend-request bodies accept exactly the protocol-valid encodings (C20/X2)"}),
        ("c14", {"Q5": "B6"}, {"B6": "the proxy handed to the device inherits the negotiated reply-ack setting (C14/Q5)"}),
    ],
    "C16": [
        ("c20", {"X2": ("H12", has("MemoryRegion"))}, {"H12": "regions whose ranges wrap are refused, so the translation arithmetic cannot overflow (a panic skips the connection shutdown) (C20/X2)"}),
        ("c14", {"Q5": "H13", "Q4": ("H14", has("proto-store"))}, {"H13": "the proxy waits for acknowledgements only when they were negotiated: no thread is parked forever at teardown (C14/Q5)",
                                                                   "H14": "the acked protocol features are the last value sent (C14/Q4)"}),
        ("c08.loops", {"S1": ("H10", has("retry"))}, {"H10": "a write to a closed peer ends the reply loop (only SocketRetry re-iterates), so the daemon thread exits (C08/S1)"}),
        ("c17", {"E2": ("H11", has("fits-event-id"))}, {"H11": "a listener id cannot alias a ring's event id: the worker is not parked on an idle kick descriptor at teardown (C17/E2)"}),
        ("c05.v2", {"V2": ("H8", has("VhostUserHandler"))}, {"H8": "no request can panic the daemon thread: a panic would skip the shutdown of the connection and the state reset (C05/V2)"}),
        ("c08.s4", {"S4": "H7"}, {"H7": "errno classes: a closed peer (EPIPE/ECONNRESET) is a broken socket, not a retry (C08/S4)"}),
    ],
    "C17": [
        ("c12", {"K3": ("E9", has("wait-interrupted"))}, {"E9": "an interrupted epoll wait is retried: a signal does not end the worker that owns the queues (C12/K3)"}),
        ("c05.v2", {"V2": ("E10", has("VringEpollHandler"))}, {"E10": "the dispatcher's ring lookup is bounded by the event id it was given, unnarrowed (C05/V2)"}),
        ("c11", {"T1": "E11"}, {"E11": "the control handlers change exactly the prescribed ring state (started / enabled), so a queue's kick descriptor stays registered with its worker (C11/T1)"}),
        ("c11", {"T3": ("E7", has("always-decides", "add", "delete"))}, {"E7": "the owning worker is the one whose mask has the queue's bit, and its registration is always updated (C11/T3)"}),
        ("c11", {"T2": "E8"}, {"E8": "a stopped ring is unregistered while its descriptor is still known, so no second worker handles its kicks (C11/T2)"}),
        ("c02.d3", {"D3": ("E4", has("VhostUserBackend<", "VringT<"))}, {"E4": "the backend adapters forward handle_event with its arguments unchanged (C02/D3)"}),
    ],
    "C09": [
        ("c08.loops", {"S2": ("O11", has("fds", "files"))}, {"O11": "descriptors received with a later segment are dropped (closed), those of the first are kept: none is lost or kept twice (C08/S2)"}),
        ("c08.s4", {"S4": "O8"}, {"O8": "a closed peer is a broken socket, not a retry: the connection thread ends and releases the descriptors it holds (C08/S4)"}),
        ("c08.s7s8", {"S8": "O9"}, {"O9": "end of stream leaves every receive loop: the thread does not spin holding the descriptors received with the header (C08/S8)"}),
        ("c11", {"T3": ("O10", has("add", "delete"))}, {"O10": "a kick descriptor is taken out of the epoll set when its ring stops, before it is closed (C11/T3)"}),
    ],
}


def apply(pid, fb, chk):
    for name, mapping, texts in XLIST.get(pid, []):
        for rid, text in texts.items():
            chk.rule(rid, text)
        _call(name, fb, Renamed(chk, mapping))
