"""Cross-listing: clauses of one property that are decided by a rule written for a sibling property are filed under
both.  Each entry names the borrowed rule code, the rule ids taken over (optionally only the instances whose key
matches), the new id and its text.  The borrowed code runs unchanged; only the filing differs."""
import importlib

from vlint.report import Renamed


def _call(name, fb, chk):
    mod, _, fn = name.partition(".")
    m = importlib.import_module("rules." + mod)
    if mod == "c20":
        from spec import validity
        return m.run_on(fb, chk, validity.VALID)
    if name == "c04.p4":
        from . import common
        return m.p4(fb, chk, common.dispatch_fn(fb), "")
    if fn in ("d1d2", "r1r2", "r3r4"):
        return getattr(m, fn)(fb, chk, "")
    if fn:
        return getattr(m, fn)(fb, chk)
    return m.run_on(fb, chk)


def has(*subs):
    return lambda k: any(s in k for s in subs)


XLIST = {
    "C01": [
        ("c07", {"G1": ("W7", has("SET_LOG_BASE"))}, {"W7": "the descriptor-carrying form of SET_LOG_BASE is composed only when LOG_SHMFD was negotiated (C07/G1)"}),
        ("c08.loops", {"S2": "W8"}, {"W8": "a message delivered in several segments is decoded with the descriptors of its first byte (C08/S2)"}),
    ],
    "C02": [
        ("c04", {"P1": "D10"}, {"D10": "the backend answers each request with exactly the replies the frontend call consumes (C04/P1)"}),
        ("c20", {"X2": "D11", "X1": "D11"}, {"D11": "both ends validate with the same predicates: what the frontend API accepts the backend does not drop (C20/X2)"}),
        ("c03.r3r4", {"R3": ("D12", has("GET_QUEUE_NUM"))}, {"D12": "the queue limit used by the local rejections is updated only from an accepted reply (C03/R3)"}),
    ],
    "C03": [
        ("c20", {"X2": ("R8", has("MsgHeader"))}, {"R8": "header validators accept every message the senders may produce (C20/X2)"}),
        ("c16", {"H2": "R9"}, {"R9": "the daemon stops serving and closes the connection on a request error, so a caller waiting for a reply gets an error (C16/H2)"}),
    ],
    "C04": [
        ("c20", {"X2": ("P7", has("MsgHeader"))}, {"P7": "well-formed headers (size up to and including the maximum) are accepted, so their requests are consumed and answered (C20/X2)"}),
        ("c03.r1r2", {"R1": "P8", "R2": "P8"}, {"P8": "reply size and payload agree for success and in-band failure encodings (C03/R1, R2)"}),
    ],
    "C06": [
        ("c08.s7s8", {"S7": "A6"}, {"A6": "a truncated reply cannot pass for a complete one: receive counts are never discarded (C08/S7)"}),
    ],
    "C10": [
        ("c08.s3", {"S3": "L7"}, {"L7": "a reply is consumed completely (all segments) before the lock is released (C08/S3)"}),
        ("c18.b1", {"B1": "L8"}, {"L8": "both halves of a proxy transaction consult the same reply-ack state, held under the endpoint mutex (C18/B1)"}),
        ("c04.p4", {"P4": "L9"}, {"L9": "an acknowledgement the caller waits for (holding the lock) is always written (C04/P4)"}),
    ],
    "C12": [
        ("c17", {"E3": ("K9", has("id-source", "first-thread", "one-worker"))}, {"K9": "the registered event id and worker are the ring's own, so its wake-ups reach its handler (C17/E3)"}),
    ],
    "C13": [
        ("c20", {"X2": ("M7", has("MemoryRegion"))}, {"M7": "only regions whose guest/user/mmap ranges do not wrap are accepted into the table (C20/X2)"}),
    ],
    "C14": [
        ("c02.d1d2", {"D2": ("Q9", has("SET_FEATURES"))}, {"Q9": "the SET_FEATURES handler receives the value on the wire, unmasked (C02/D2)"}),
    ],
    "C15": [
        ("c03.r1r2", {"R1": ("B6", has("SET_LOG_BASE"))}, {"B6": "SET_LOG_BASE is confirmed to the frontend only after the handler accepted the log (C03/R1)"}),
    ],
    "C18": [
        ("c20", {"X2": ("B5", has("MMap", "SharedMsg"))}, {"B5": "validators of the backend-request bodies accept exactly the protocol-valid encodings (C20/X2)"}),
        ("c14", {"Q5": "B6"}, {"B6": "the proxy handed to the device inherits the negotiated reply-ack setting (C14/Q5)"}),
    ],
}


def apply(pid, fb, chk):
    for name, mapping, texts in XLIST.get(pid, []):
        for rid, text in texts.items():
            chk.rule(rid, text)
        _call(name, fb, Renamed(chk, mapping))
