"""C13 — guest memory table and address translation always reflect the accepted updates (partial)."""
from vlint.absint import const_eval
from vlint.cfg import CFG
from vlint.facts import callee_of, resolved, AnchorMissing
from vlint.gates import field_of, root_of
from vlint.paths import Summariser, ret_okness, okness
from vlint.terms import show, subterms, peel
from vlint.util import must_of, sites, field_writes
from . import daemon

EXPLANATION = (
    "Decides: (M1) commit ordering — in SET_MEM_TABLE / ADD_MEM_REG / REM_MEM_REG no error exit is reachable after the "
    "first mutation of handler state (memory object replaced, translation table written), so a failed update leaves the "
    "previous table intact; (M2) the memory region and the translation entry of one region are built from the same wire "
    "region (gpa, size, user address, mmap offset at their places); (M3) the translation returns va - user_base + gpa_base "
    "exactly under user_base <= va < user_base + size and an error otherwise; (M4) every successful change notifies the "
    "backend exactly once with the handler's atomic memory handle; (M5) removal is keyed by the request's guest address "
    "(and size for the memory object)."
    ' Also: (M2) region i is mapped from file i; (M3) success value found as Ok(..) or Some(..).ok_or(..); (M4) the notification follows the replacement of the memory object; (M6) C02/D9; (M7) C20/X2 for region validators.'
    ' Round 5: (M9) SET_MEM_TABLE assigns a translation table built from this message (nothing carried over); (M8, M10, M11) C14/Q3, C05/V1, C01/W5.')
NOT_DECIDED = "Byte visibility through the mappings, vm-memory's overlap/ordering rules, mmap failures."

MEM_HANDLERS = ("set_mem_table", "add_mem_region", "remove_mem_region")


def run(ctx, chk):
    fb = ctx.fb("full")
    chk.explanation = EXPLANATION
    chk.not_decided = NOT_DECIDED
    chk.cfgs["full"] = fb.hashes
    chk.rule("M1", "no error exit after the first state mutation")
    chk.rule("M2", "memory region and translation entry are built from the same wire region")
    chk.rule("M3", "translation = va - user_base + gpa_base under user_base <= va < user_base + size")
    chk.rule("M4", "exactly one backend notification per successful change")
    chk.rule("M5", "removal keyed by the request's guest address / size")
    run_on(fb, chk)
    m9(fb, chk)
    # the frontend side of "each byte backed by the passed file": region i is sent with descriptor i (C02/D9)
    from vlint.report import Renamed
    from . import c02
    chk.rule("M6", "a memory table's regions and descriptors are only ever extended together on the sending side (C02/D9)")
    c02.d9(fb, Renamed(chk, {"D9": "M6"}))
    from . import xlist
    xlist.apply("C13", fb, chk)
    n = lambda r: len([i for i in chk.instances if i[0] == r])
    chk.floor("M1", n("M1"), 3)
    chk.floor("M2", n("M2"), 6)


def thorough(ctx, chk):
    fb = ctx.fb("base")
    chk.cfgs["base"] = fb.hashes
    run_on(fb, chk, tag="base/")


def m9(fb, chk, tag=""):
    """SET_MEM_TABLE REPLACES the translation entries: the handler assigns a table built from this message's regions to
    `mappings`; it does not add to the previous table (entries of the replaced table would shadow the new ones)."""
    chk.rule("M9", "SET_MEM_TABLE replaces the translation table (assignment of a table built from this message; nothing is carried over)")
    from . import daemon as _d
    f = _d.control_handlers(fb).get("set_mem_table")
    if f is None:
        chk.anchor_missing("M9", tag + "VhostUserHandler::set_mem_table")
        return
    m = must_of(fb, f)
    ws = [w for w in field_writes(f) if w["field"] == "mappings"]
    grow = [(c["name"], t["line"]) for bb, t, c in sites(f, name={"extend", "append", "push", "insert", "extend_from_slice"})
            if m.sym.arg_terms(bb) and "self.mappings" in show(m.sym.arg_terms(bb)[0])]
    selfref = [w for w in ws if any(x[0] == "field" and x[2] == "mappings" for x in subterms(m.sym.rvalue(w["rv"])))]
    chk.check(bool(ws) and not grow and not selfref, "M9", tag + "set_mem_table:replaces", "mappings <- table of this message",
              "VhostUserHandler::set_mem_table %s: translation entries of the replaced table survive and shadow the new ones"
              % ("adds to the previous translation table (%s)" % grow[0][0] if grow else
                 ("builds the new table from the old one" if selfref else "does not assign the translation table")), f.loc(grow[0][1] if grow else None))


def mutation_sites(fb, f, m):
    """Blocks that mutate handler state: atomic memory replace, writes/pushes/retains on self.mappings."""
    out = []
    for bb, t, c in sites(f, name="replace"):
        a = m.sym.arg_terms(bb)
        if "atomic_mem" in show(a[0]):
            out.append((bb, "memory object replaced", t["line"]))
    for w in field_writes(f):
        if w["field"] == "mappings":
            out.append((w["bb"], "translation table replaced", w["line"]))
    for bb, t, c in sites(f, name={"push", "retain", "clear", "remove", "insert", "truncate"}):
        a = m.sym.arg_terms(bb)
        if a and "self.mappings" in show(a[0]):
            out.append((bb, "translation table %s" % c["name"], t["line"]))
    return out


def run_on(fb, chk, tag=""):
    ch = daemon.control_handlers(fb)
    for name in MEM_HANDLERS:
        f = ch.get(name)
        if f is None:
            chk.anchor_missing("M1", tag + name)
            continue
        chk.fn_seen(f)
        m = must_of(fb, f)
        cfg = m.cfg
        muts = mutation_sites(fb, f, m)
        if not muts:
            chk.bad("M1", tag + name, "no state mutation found", f.loc())
            continue
        # error exits: blocks assigning _0 = Err / from_residual
        err_blocks = {}
        for bi, b in enumerate(f.blocks):
            if b["cleanup"]:
                continue
            for st in b["stmts"]:
                if st["k"] == "assign" and st["lhs"]["l"] == 0 and not st["lhs"]["p"] and st["rv"]["k"] == "agg" and st["rv"].get("variant") == "Err":
                    err_blocks[bi] = "explicit Err"
            t = b["term"]
            if t["k"] == "call" and (callee_of(t) or {}).get("name") == "from_residual" and t["dest"]["l"] == 0:
                src = show(m.sym.arg_terms(bi)[0])
                err_blocks[bi] = src
        first = min(muts, key=lambda x: x[2])
        bad = []
        for (mb, what, line) in muts:
            after = cfg.reach(cfg.succ[mb][0]) if cfg.succ[mb] else set()
            for eb, src in err_blocks.items():
                if eb in after:
                    callee = None
                    for s in ("update_memory", "insert_region", "remove_region", "from_regions", "mmap_region", "new"):
                        if s + "(" in src:
                            callee = s
                            break
                    bad.append((what, callee or src[:40], f.blocks[eb]["term"]["line"]))
        uniq = sorted({(w, c) for (w, c, _l) in bad})
        for (w, c) in uniq:
            chk.bad("M1", "%s%s:%s-after-commit" % (tag, name, c),
                    "in %s the fallible step `%s` can fail after the %s: the request reports an error although the previous memory table was "
                    "already replaced (memory object and translation table are left inconsistent)" % (f.short, c, w), f.loc())
        if not uniq:
            chk.ok("M1", tag + name, "all fallible steps precede the first mutation (%s)" % first[1], f.loc())
        # ---------------------------------------------------------------- M4
        ups = [(bb, t, c) for bb, t, c in sites(f, name="update_memory")]
        summ = Summariser(fb, no_inline=lambda g: True)
        outs, sym = summ.paths(f)
        probs = set()
        nok = 0
        for o in outs:
            if o.cut:
                # loop bodies are cut; the notification sits after the loop
                continue
            if o.ret is None or ret_okness(o.ret) is not True:
                continue
            nok += 1
            cnt = len([b for b in o.path if b in {u[0] for u in ups}])
            if cnt != 1:
                probs.add("a success path notifies the backend %d times" % cnt)
        arg_ok = all("atomic_mem" in show(m.sym.arg_terms(bb)[1]) for bb, _t, _c in ups)
        # the backend is told about the NEW table: the notification comes after the memory object was replaced
        reps = [bb for bb, t, c in sites(f, name="replace") if "atomic_mem" in show(m.sym.arg_terms(bb)[0])]
        dom_ = cfg.dominators()
        stale = [ub for ub, _t, _c in ups if not any(rb in dom_.get(ub, ()) for rb in reps)]
        chk.check(bool(reps) and not stale, "M4", tag + name + ":after-replace", "update_memory is dominated by atomic_mem.replace(new table)",
                  "%s notifies the backend before the new memory table is installed: the backend is handed the previous table and is "
                  "not notified again" % f.short, f.loc())
        chk.check(not probs and ups and arg_ok and (nok >= 1 or name == "set_mem_table"), "M4", tag + name,
                  "one update_memory(atomic_mem.clone()) on every success path",
                  "%s: %s%s" % (f.short, "; ".join(sorted(probs)) or "", "" if arg_ok else " notification does not pass the handler's memory handle"), f.loc())
        if name == "set_mem_table" and ups:
            # the success return is post-dominated by the single notification (loop-cut paths excluded above)
            ok = cfg.all_paths_pass_through(0, [r for r in cfg.returns], {u[0] for u in ups} | set(err_blocks))
            chk.check(ok and len(ups) == 1, "M4", tag + name + ":post", "every non-error return passes the notification", "a success return bypasses update_memory", f.loc())
    # ------------------------------------------------------------------ M2
    want = {"vmm_addr": "user_addr", "size": "memory_size", "gpa_base": "guest_phys_addr"}
    nmap = 0
    for name in ("set_mem_table", "add_mem_region"):
        f = ch.get(name)
        if f is None:
            continue
        m = must_of(fb, f)
        for b in f.blocks:
            for st in b["stmts"]:
                if st["k"] == "assign" and st["rv"]["k"] == "agg" and st["rv"].get("adt", "").endswith("::AddrMapping"):
                    agg = m.sym.rvalue(st["rv"])
                    d = dict(agg[3])
                    nmap += 1
                    roots = set()
                    for k, v in want.items():
                        r, chain = peel(d.get(k, ("unknown",)))
                        ok = r[0] == "field" and r[2] == v
                        if ok:
                            roots.add(root_of(r))
                        chk.check(ok, "M2", "%s%s:mapping.%s" % (tag, name, k), "%s <- region.%s" % (k, v),
                                  "translation entry field %s is filled from %s; it must be the region's %s" % (k, show(d.get(k))[:50], v), f.loc(st["line"]))
                    # the same region feeds the memory region
                    for bb, t, c in sites(f, name="new"):
                        if "GuestRegionMmap" not in (c.get("self_ty") or c.get("path") or ""):
                            continue
                        a = m.sym.arg_terms(bb)
                        gpa = a[1]
                        gr = None
                        for s in subterms(gpa):
                            if s[0] == "field" and s[2] == "guest_phys_addr":
                                gr = root_of(s)
                        mr = None
                        for s in subterms(a[0]):
                            if s[0] == "call" and s[1] == "mmap_region":
                                mr = root_of(s[2][0])
                        same = gr is not None and mr is not None and gr == mr and (not roots or roots == {gr})
                        # the file mapped for the region is the region's own file: for the table, the element of the file
                        # list paired with the region by position (zip / same index); for the single region, the one file
                        for s in subterms(a[0]):
                            if s[0] == "call" and s[1] == "mmap_region" and len(s[2]) >= 2:
                                from .c17 import _iter_item
                                ri, fi = _iter_item(s[2][0]), _iter_item(s[2][1])
                                fr, _c = peel(s[2][1])
                                if name == "set_mem_table":
                                    paired = ri is not None and fi is not None and ri[0] == fi[0] and ri[1][:1] == ("0",) and fi[1][:1] == ("1",) \
                                        and "zip(" in show(ri[0])
                                    # order-preserving alternatives: the front of the file list taken per region
                                    # (Vec::remove(0) / a by-value iterator advanced once per region)
                                    if not paired and fr[0] == "call" and fr[1] == "remove" and len(fr[2]) == 2 and fr[2][1][0] == "const" and fr[2][1][1] == 0:
                                        paired = True
                                    if not paired and fi is not None and ri is not None and fi[1] == () and "into_iter(files" in show(fi[0]).replace("&", ""):
                                        paired = True
                                else:
                                    paired = fr[0] == "param" or (fr[0] in ("unwrap", "call") and "file" in show(fr))
                                chk.check(paired, "M2", "%s%s:region-file" % (tag, name), "region i is mapped from file i",
                                          "%s maps region %s from %s: the descriptor is not the one passed for this region (with several "
                                          "regions backed by different files a region is mapped from another region's file)"
                                          % (f.short, show(s[2][0])[:50], show(s[2][1])[:60]), f.loc(t["line"]))
                        chk.check(same, "M2", "%s%s:same-region" % (tag, name), "memory region (mmap, base address) and translation entry come from the same wire region",
                                  "memory region is built from %s / %s, translation entry from %s" % (show(mr) if mr else None, show(gr) if gr else None, [show(x) for x in roots]), f.loc(t["line"]))
    chk.check(nmap == 2, "M2", tag + "mapping-sites", "two construction sites (table, single region)", "expected 2 AddrMapping constructions, found %d" % nmap)
    # mmap_region: FileOffset::new(file, mmap_offset), memory_size
    for f in fb.find(name="mmap_region", self_adt="VhostUserMemoryRegion"):
        m = must_of(fb, f)
        okoff = oksz = False
        for bb, t, c in sites(f, name="new"):
            a = m.sym.arg_terms(bb)
            if len(a) == 2 and field_of(a[1])[1] == "mmap_offset" and a[0][0] == "param":
                okoff = True
        for bb, t, c in sites(f, name={"from_file", "from_range"}):
            a = m.sym.arg_terms(bb)
            if any(field_of(s)[1] == "memory_size" for x in a for s in subterms(x) if s[0] == "field"):
                oksz = True
        if fb.cfg != "xen":
            chk.check(okoff and oksz, "M2", tag + "mmap_region", "mapping = (file, mmap_offset) of length memory_size",
                      "mmap_region maps with offset-ok=%s size-ok=%s" % (okoff, oksz), f.loc())
    # ------------------------------------------------------------------ M3
    tr = [g for g in fb.find(name="vmm_va_to_gpa", self_adt=daemon.HANDLER_ADT)]
    if len(tr) != 1:
        # role: fn(u64) -> Result<u64> over the mapping table
        tr = [g for g in fb.find(self_adt=daemon.HANDLER_ADT) if not g.trait and (g.rec.get("sig_in") or [None, None])[1:] == ["u64"]]
    if len(tr) != 1:
        chk.anchor_missing("M3", tag + "translation function")
    else:
        f = tr[0]
        chk.fn_seen(f)
        m = must_of(fb, f)
        okb = None
        for bi, b in enumerate(f.blocks):
            for st in b["stmts"]:
                # the success value: Ok(..) stored to the return place, or Some(..) later turned into Ok by ok_or
                # (`find(..).map(..).ok_or(..)` after expansion); in both cases the payload is the translated address
                if st["k"] == "assign" and st["rv"]["k"] == "agg" and st["rv"].get("variant") in ("Ok", "Some") and not b["cleanup"]:
                    v = m.sym.rvalue(st["rv"])
                    pay = v[3][0][1] if v[0] == "agg" and v[3] else None
                    while pay is not None and pay[0] == "cast":
                        pay = pay[1]
                    if pay is not None and pay[0] == "bin" and pay[1] in ("Add", "Sub"):
                        if st["rv"].get("variant") == "Ok" and st["lhs"]["l"] != 0:
                            continue
                        okb = (bi, v)
        if okb is None:
            chk.bad("M3", tag + "translation", "no Ok return found", f.loc())
        else:
            bi, agg = okb
            val = agg[3][0][1]
            # linear form: (va - vmm_addr) + gpa_base
            txt = show(val)
            pos, neg = [], []

            def lin(t, sign):
                if t[0] == "bin" and t[1] == "Add":
                    lin(t[2], sign)
                    lin(t[3], sign)
                elif t[0] == "bin" and t[1] == "Sub":
                    lin(t[2], sign)
                    lin(t[3], -sign)
                else:
                    r, _ = peel(t)
                    nm = r[2] if r[0] in ("field", "param") else show(r)
                    (pos if sign > 0 else neg).append(nm)
            lin(val, 1)
            for x in list(pos):
                if x in neg:
                    pos.remove(x)
                    neg.remove(x)
            names = f.arg_names()
            form_ok = sorted(pos) == sorted([names[1], "gpa_base"]) and neg == ["vmm_addr"]
            atoms = m.atoms_at(bi)
            ge = lt = False
            for a in atoms:
                if a[0] == "cmp":
                    l, r = a[2], a[3]
                    ln = peel(l)[0]
                    if a[1] == "Ge" and ln[0] == "param" and field_of(r)[1] == "vmm_addr":
                        ge = True
                    if a[1] == "Lt" and ln[0] == "param" and r[0] == "bin" and r[1] == "Add":
                        parts = sorted(x for x in (field_of(r[2])[1], field_of(r[3])[1]) if x)
                        if parts == ["size", "vmm_addr"]:
                            lt = True
            chk.check(form_ok and ge and lt, "M3", tag + "translation", "Ok(va - vmm_addr + gpa_base) under vmm_addr <= va < vmm_addr + size",
                      "translation returns %s with facts va>=base:%s va<base+size:%s (exact relations required)" % (txt[:80], ge, lt), f.loc())
            ret = m.sym.local(0)
            alts = list(ret[2]) if ret[0] == "phi" else [ret]
            # `opt.ok_or(err)`: Err exactly when the option is None
            more = []
            for a in alts:
                if a[0] == "call" and a[1] in ("ok_or", "ok_or_else") and a[2]:
                    x = a[2][0]
                    for y in (x[2] if x[0] == "phi" else [x]):
                        if y[0] == "agg" and y[2] == "None":
                            more.append(("agg", "std::result::Result", "Err", ()))
            alts += more
            chk.check(any(ret_okness(a) is False for a in alts), "M3", tag + "translation:miss", "addresses outside every region are rejected",
                      "no error return for unmapped addresses", f.loc())
    # ------------------------------------------------------------------ M5
    f = ch.get("remove_mem_region")
    if f:
        m = must_of(fb, f)
        ok1 = False
        for bb, t, c in sites(f, name="remove_region"):
            a = m.sym.arg_terms(bb)
            ok1 = any(field_of(s)[1] == "guest_phys_addr" for s in subterms(a[1]) if s[0] == "field") and field_of(a[2])[1] == "memory_size"
        chk.check(ok1, "M5", tag + "memory-key", "remove_region(GuestAddress(guest_phys_addr), memory_size)", "memory removal is not keyed by the request's (guest address, size)", f.loc())
        ok2 = False
        for cl in fb.closures_of(f):
            cm = must_of(fb, cl)
            ret = cm.sym.local(0)
            if ret[0] == "bin" and ret[1] == "Ne":
                names = sorted(x for x in (field_of(ret[2])[1], field_of(ret[3])[1]) if x)
                ok2 = names == ["gpa_base", "guest_phys_addr"]
        chk.check(ok2, "M5", tag + "table-key", "retain(|m| m.gpa_base != region.guest_phys_addr)", "translation entries are not removed by guest address", f.loc())
