"""C03 — handler results and failures are reported faithfully to the frontend caller."""
from spec import wire
from vlint.absint import const_eval, Eval, Undecided
from vlint.facts import callee_of, resolved, AnchorMissing
from vlint.gates import field_of, root_of
from vlint.paths import Summariser, ret_okness, TooManyPaths, okness
from vlint.terms import show, subterms, peel
from vlint.util import must_of, sites, enum_variant_of, option_shape
from . import common, replies, server
from .c02 import server_handler_calls
from .c06 import payload_framing

EXPLANATION = (
    "Decides that the mapping handler outcome -> wire -> frontend result is structurally faithful and fails closed: "
    "(R1) the backend's reply body / descriptor comes from the handler's Ok value; (R2) on the handler's Err edge (and "
    "the wrong-length edge for config) the protocol's in-band failure encodings are sent (config size 0 without payload, "
    "no descriptor, device-state 0x1xx with non-zero low byte, check-state non-zero, ack non-zero); (R3) each "
    "reply-bearing frontend operation returns Ok only on paths whose accumulated conditions are inside the reference "
    "accept set (ack value 0, check-state 0, device-state (0x100,no fd)|(0,one fd), config size/offset/length equalities, "
    "exactly one file for fd-bearing replies) and the Ok value is the received body/file; (R4) every frontend "
    "operation that sends a request with a defined reply (or ack) reads it on every path after the send, so a failure "
    "can reach the caller; (R5) bounded wait, structural half: a typed-reply arm of the backend either replies or "
    "returns Err (C04), and a reply receiver sizes the variable part of what it waits for from the reply's own header."
    ' Also: (R1) an echo reply without status (SET_LOG_BASE) is sent only under the fact that the handler succeeded; (R6) receive byte counts are never discarded (C08/S7); (R7) the reply-ack flag formula (C04/P4); (R8, R9) C20/X2 for headers and C16/H2 (the daemon closes the connection on a request error).')
NOT_DECIDED = "Wall-clock bounds; applications that drive BackendReqHandler themselves and ignore its errors."


def run(ctx, chk):
    fb = ctx.fb("full")
    chk.explanation = EXPLANATION
    chk.not_decided = NOT_DECIDED
    chk.cfgs["full"] = fb.hashes
    chk.rule("R1", "backend reply body/descriptor derives from the handler's Ok value")
    chk.rule("R2", "handler failure is sent as the protocol's in-band failure encoding")
    chk.rule("R3", "frontend returns Ok only inside the reference accept set; the Ok value is the received one")
    chk.rule("R4", "every send of a request with a reply/ack is followed by its receiver on every success path")
    chk.rule("R5", "reply receivers size the variable part from the reply's own header (no wait for bytes that were never promised)")
    run_on(fb, chk)
    # short reads must stay detectable: the receive primitives' byte counts are never dropped (rule S7 of C08),
    # and the acknowledgement is written whenever the frontend waits for one (flag formula, rule P4 of C04)
    from vlint.report import Renamed
    from . import c08, c04
    chk.rule("R6", "receive byte counts are never discarded (a truncated reply cannot pass for a complete one)")
    c08.s7s8(fb, Renamed(chk, {"S7": "R6"}))
    chk.rule("R7", "the backend's reply-ack flag is the negotiated one (an awaited acknowledgement is always written)")
    c04.p4(fb, Renamed(chk, {"P4": "R7"}), common.dispatch_fn(fb), "")
    from . import xlist
    xlist.apply("C03", fb, chk)
    n = lambda r: len([i for i in chk.instances if i[0] == r])
    chk.floor("R1", n("R1"), 10)
    chk.floor("R2", n("R2"), 5)
    chk.floor("R3", n("R3"), 14)
    chk.floor("R4", n("R4"), 30)


def thorough(ctx, chk):
    fb = ctx.fb("base")
    chk.cfgs["base"] = fb.hashes
    run_on(fb, chk, tag="base/")


def run_on(fb, chk, tag=""):
    r1r2(fb, chk, tag)
    r3r4(fb, chk, tag)
    r5(fb, chk, tag)


# ---------------------------------------------------------------------------- R1 / R2

SEND_NAMES = {"send_message", "send_message_with_payload", "send_header", "send_reply_message", "send_reply_with_payload"}


def reply_sites(fb, f):
    """Reply send sites in f: (bb, term, callee, body_term, payload_term, fds_term)."""
    m = must_of(fb, f)
    out = []
    for bb, t, c in sites(f, name=SEND_NAMES):
        args = m.sym.arg_terms(bb)
        nm = c["name"]
        body = payload = fds = None
        if nm == "send_message":
            body, fds = args[2], args[3]
        elif nm == "send_message_with_payload":
            body, payload, fds = args[2], args[3], args[4]
        elif nm == "send_reply_message":
            body = args[2]
        elif nm == "send_reply_with_payload":
            body, payload = args[2], args[3]
        out.append((bb, t, c, body, payload, fds))
    return m, out


def has_sub(t, call):
    return t is not None and any(server.same_call(s, call) for s in subterms(t) if s[0] == "call")


def r1r2(fb, chk, tag):
    has_postcopy = bool(fb.find(name="postcopy_advise", self_adt="Frontend"))
    hr, mh, calls = server_handler_calls(fb)
    chk.fn_seen(hr)
    for code, row in sorted(wire.FRONTEND_TABLE.items()):
        if "B" not in row["impl"] or row["reply"] == "ack" or (row.get("feature") == "postcopy" and not has_postcopy):
            continue
        cs = [x for x in calls.get(code, []) if x[3]["name"] == row["handler"]]
        if len(cs) != 1:
            chk.bad("R1", tag + code, "expected one handler call for %s, found %d" % (code, len(cs)), hr.loc())
            continue
        f, hbb, ht, hc, via = cs[0]
        m, rs = reply_sites(fb, f)
        H = m.sym.call_at(hbb)
        rs = [r for r in rs if code in common.arm_codes(mh, r[0])] if f.key == hr.key else rs
        rs = [r for r in rs if m.cfg.can_reach(hbb, r[0]) and r[2]["name"] != "send_header"]
        key = tag + code
        if not rs:
            chk.bad("R1", key, "no reply send found after the handler call", f.loc(ht["line"]))
            continue
        kind = row["reply"][0]
        if code == "SET_LOG_BASE":
            ok = all("extract_request_body" in show(r[3]) for r in rs)
            # the echo carries no status: it may only be sent once the handler is known to have succeeded
            ok = ok and all(any(a[0] == "ok" and server.same_call(a[1], H) for a in m.atoms_at(r[0])) for r in rs)
            chk.check(ok, "R1", key, "reply echoes the accepted request body (sent only after the handler succeeded)",
                      "SET_LOG_BASE reply (an echo without status) is sent although the handler may have failed, or its body is not the request's: %s" % [show(r[3])[:60] for r in rs], f.loc(rs[0][1]["line"]))
            continue
        if code == "GET_PROTOCOL_FEATURES":
            ok = all(has_sub(r[3], H) for r in rs)
            chk.check(ok, "R1", key, "reply value derives from the handler result (| REPLY_ACK: C07/G4)", "reply does not use the handler's result", f.loc())
            continue
        if code == "CHECK_DEVICE_STATE":
            # constant by result variant
            vals = {}
            for (bb, t, c, body, payload, fds) in rs:
                for s in subterms(body):
                    if s[0] == "phi" and len(s) >= 4:
                        for term, dbb in zip(s[2], s[3]):
                            v = _const_of(fb, m, term)
                            for a in m.atoms_at(dbb):
                                if a[0] in ("ok", "notok") and server.same_call(a[1], H):
                                    vals[a[0]] = v
            chk.check(vals.get("ok") == 0 and vals.get("notok") not in (None, 0), "R2", key,
                      "status word: Ok -> 0, Err -> %s" % vals.get("notok"),
                      "CHECK_DEVICE_STATE status mapping is %s (0 iff the handler succeeded is required)" % vals, f.loc(rs[0][1]["line"]))
            continue
        if code == "SET_DEVICE_STATE_FD":
            seen = {}
            for (bb, t, c, body, payload, fds) in rs:
                atoms = m.atoms_at(bb)
                outer = inner = None
                for a in atoms:
                    if a[0] in ("ok", "notok") and server.same_call(a[1], H):
                        outer = a[0]
                    if a[0] in ("ok", "notok") and a[1][0] == "field" and has_sub(a[1], H):
                        inner = a[0]
                v = _const_of(fb, m, body)
                shape = option_shape(fds)[0]
                case = "err" if outer == "notok" else ("some" if inner == "ok" else ("none" if inner == "notok" else "?"))
                seen[case] = (v, shape, has_sub(fds, H))
            want_ok = (seen.get("none", (None,))[0] == wire.DEVICE_STATE_NO_FD and seen["none"][1] == "None"
                       and seen.get("some", (None,))[0] == 0 and seen["some"][1] == "Some" and seen["some"][2])
            chk.check(want_ok, "R1", key, "Ok(None) -> 0x100 without fd; Ok(Some(f)) -> 0 with f",
                      "SET_DEVICE_STATE_FD success encodings are %s" % str({k: v[:2] for k, v in seen.items()}), f.loc())
            e = seen.get("err")
            chk.check(e is not None and e[0] is not None and (e[0] & wire.DEVICE_STATE_ERR_MASK) != 0 and e[1] == "None", "R2", key,
                      "Err -> %s (low byte non-zero), no fd" % (hex(e[0]) if e and e[0] is not None else None),
                      "SET_DEVICE_STATE_FD failure encoding is %s (low byte must be non-zero, no descriptor)" % (str(e[:2]) if e else None), f.loc())
            continue
        if code == "GET_CONFIG":
            good_payload = bad_nopayload = 0
            probs = []
            for (bb, t, c, body, payload, fds) in rs:
                atoms = m.atoms_at(bb)
                okH = any(a[0] == "ok" and server.same_call(a[1], H) for a in atoms) or \
                    any(a[0] == "variant" and server.same_call(a[1], H) and a[2] == frozenset(["Ok"]) for a in atoms)
                leneq = any(a[0] == "cmp" and a[1] == "Eq" and a[2][0] == "call" and a[2][1] == "len" and has_sub(a[2], H)
                            and ".size" in show(a[3]) for a in atoms)
                size_arg = None
                for s in subterms(body):
                    if s[0] == "call" and s[1] == "new" and len(s[2]) == 3:
                        size_arg = s[2][1]
                if payload is not None:
                    good_payload += 1
                    if not (okH and leneq and has_sub(payload, H) and size_arg is not None and "len(" in show(size_arg)):
                        probs.append("payload reply not tied to handler Ok with matching length")
                else:
                    bad_nopayload += 1
                    if const_eval(fb, m.sym, size_arg) != 0:
                        probs.append("failure reply declares size %s (must be 0)" % show(size_arg))
                    if okH and leneq:
                        probs.append("no-payload reply on the success edge")
            chk.check(good_payload == 1 and not [p for p in probs if "payload reply" in p], "R1", key,
                      "payload and size come from the handler's data under Ok && len == requested size",
                      "GET_CONFIG success reply: %s" % probs, f.loc())
            # one failure site per case (Err / wrong length) or one merged `else` site: every send without payload must
            # declare size 0 and lie off the success edge; that each handler outcome reaches exactly one send is C04/P1
            chk.check(bad_nopayload >= 1 and not [p for p in probs if "failure" in p or "no-payload" in p], "R2", key,
                      "handler Err / wrong length -> size 0, no payload (%d sites)" % bad_nopayload,
                      "GET_CONFIG failure encoding: %s (sites without payload: %d)" % (probs, bad_nopayload), f.loc())
            continue
        if kind in ("reply+fd",):
            # Ok -> fd from the handler; Err (if replied at all) -> no fd
            oks = errs = 0
            probs = []
            for (bb, t, c, body, payload, fds) in rs:
                atoms = m.atoms_at(bb)
                okH = any(a[0] == "ok" and server.same_call(a[1], H) for a in atoms)
                noH = any(a[0] == "notok" and server.same_call(a[1], H) for a in atoms)
                shape = option_shape(fds)[0] if fds is not None else None
                if shape == "Some":
                    oks += 1
                    if not has_sub(fds, H) or noH:
                        probs.append("descriptor sent that is not the handler's")
                    if code == "GET_INFLIGHT_FD" and not has_sub(body, H):
                        probs.append("reply body is not the handler's")
                else:
                    errs += 1
                    if okH and not noH:
                        probs.append("reply without descriptor although the handler succeeded")
            chk.check(oks == 1 and not probs, "R1", key, "descriptor (and body) come from the handler's Ok value",
                      "%s: %s (fd-carrying sites: %d)" % (code, probs, oks), f.loc())
            if code in ("GET_SHARED_OBJECT", "POSTCOPY_ADVISE"):
                chk.check(errs == 1, "R2", key, "handler Err -> reply without descriptor",
                          "%s has %d no-descriptor reply sites (failure must be signalled by a reply without fd)" % (code, errs), f.loc())
            continue
        # plain value replies
        ok = all(has_sub(r[3], H) for r in rs)
        chk.check(ok and len(rs) == 1, "R1", key, "reply body derives from the handler's Ok value",
                  "%s reply body %s does not derive from the handler result" % (code, [show(r[3])[:60] for r in rs]), f.loc(rs[0][1]["line"]))


def _const_of(fb, m, t):
    try:
        return Eval(fb, m.sym).ev(t)
    except Undecided:
        return None
    except RecursionError:
        return None


# ---------------------------------------------------------------------------- R3 / R4

RECV_NAMES = {"recv_reply", "recv_reply_with_files", "recv_reply_with_optional_files", "recv_reply_with_payload", "wait_for_ack"}


def r3r4(fb, chk, tag):
    has_postcopy = bool(fb.find(name="postcopy_advise", self_adt="Frontend"))
    fm = common.frontend_methods(fb)
    for code, row in sorted(wire.FRONTEND_TABLE.items()):
        if "F" not in row["impl"] or (row.get("feature") == "postcopy" and not has_postcopy):
            continue
        f = fm.get(row["fe"])
        if f is None:
            continue
        chk.fn_seen(f)
        # ---- R4 on the un-inlined CFG
        summ0 = Summariser(fb, no_inline=lambda g: True)
        outs0, sym0 = summ0.paths(f)
        want = "wait_for_ack" if row["reply"] == "ack" else None
        probs = set()
        nsend = 0
        for o in outs0:
            if o.cut:
                continue
            if o.ret is None or okness(fb, o.ret) is False:
                continue
            seq = []
            for bb in o.path:
                t = f.blocks[bb]["term"]
                if t["k"] == "call":
                    c = callee_of(t)
                    if c and (c.get("self_adt") or "").endswith("::FrontendInternal"):
                        seq.append((c["name"], bb))
            # a reply receiver's result is not thrown away: a success of the method lies on a path where the receive succeeded
            # (its failure left through `?`) or hands the receive's own result back
            for nm, bb in seq:
                if nm in RECV_NAMES:
                    rc = sym0.call_at(bb)
                    used = any(a[0] == "ok" and isinstance(a[1], tuple) and any(s_ == rc for s_ in subterms(a[1])) for a in o.atoms) or \
                        any(s_ == rc for s_ in subterms(o.ret))
                    if not used and okness(fb, o.ret) is True:
                        probs.add("a success path ignores the result of %s (a failed or missing reply is reported as success)" % nm)
            for i, (nm, bb) in enumerate(seq):
                if nm.startswith("send_"):
                    args = sym0.arg_terms(bb)
                    _, var = enum_variant_of(args[1])
                    if var != code:
                        continue
                    legacy = code == "SET_LOG_BASE" and option_shape(args[-1])[0] == "None"
                    nsend += 1
                    after = [x for x, _b in seq[i + 1:]]
                    if legacy:
                        continue
                    if want:
                        if want not in after:
                            probs.add("a success path sends %s and returns without waiting for the acknowledgement" % code)
                    else:
                        if not any(x in RECV_NAMES and x != "wait_for_ack" for x in after):
                            probs.add("a success path sends %s and returns without reading its reply" % code)
            # the result of an ack wait must be what the method returns
        # also: the operation's result depends on the receiver's result (not dropped)
        key = "%s%s" % (tag, code)
        chk.check(not probs and nsend >= 1, "R4", key, "%d success path(s) send and then read the %s" % (nsend, "ack" if want else "reply"),
                  "%s: %s" % (f.short, "; ".join(sorted(probs)) or "no send found"), f.loc())
        if want:
            # Ok must flow from wait_for_ack's Ok: the method's return is the ack wait's result
            rets = set()
            for o in outs0:
                if o.ret is not None and okness(fb, o.ret) is not False and any(
                        (callee_of(f.blocks[b]["term"]) or {}).get("name", "").startswith("send_") for b in o.path if f.blocks[b]["term"]["k"] == "call"):
                    r_ = show(o.ret)[:40]
                    if "wait_for_ack" not in r_ and okness(fb, o.ret) is True and \
                            any(a[0] == "ok" and isinstance(a[1], tuple) and "wait_for_ack" in show(a[1]) for a in o.atoms):
                        # `wait_for_ack(..)?; Ok(())`: success is returned only on the path where the ack wait succeeded, and its
                        # failure left through `?`
                        r_ = "Ok after ok(wait_for_ack)"
                    rets.add(r_)
            okr = all("wait_for_ack" in r for r in rets) and rets
            chk.check(bool(okr), "R3", key + ":result", "result = wait_for_ack(..) mapped into the API error type",
                      "%s returns %s after sending (the acknowledgement's result must be returned)" % (f.short, sorted(rets)), f.loc())
            continue
        # ---- R3 typed replies: inline receivers and inspect Ok paths
        try:
            summ = Summariser(fb, no_inline=lambda g: g.name in replies.KEEP or (g.self_adt or "").endswith("::Endpoint")
                              or g.rec.get("trait_decl") or g.name.startswith("send_") or g.name.startswith("check_"))
            outs, sym = summ.summarise(f)
        except TooManyPaths as e:
            chk.bad("R3", key, "too many paths: %s" % e, f.loc())
            continue
        chk.paths_enumerated += summ.paths_enumerated
        r3_typed(fb, chk, code, row, f, outs, sym, key)
    # the ack receiver maps a non-zero status to an error
    for f, sends in replies.receivers(fb):
        if f.name != "wait_for_ack":
            continue
        outs, sym, summ = replies.summarise_receiver(fb, f)
        ok = True
        n = 0
        for o in outs:
            if o.ret is None or ret_okness(o.ret) is False:
                continue
            if replies.did_receive(o) is None:
                continue
            n += 1
            if not any(a[0] == "cmp" and a[1] == "Eq" and const_eval(fb, sym, a[3]) == 0 and show(a[2]).endswith(".value") for a in o.atoms):
                ok = False
        chk.check(ok and n >= 1, "R3", "%sack:%s" % (tag, f.self_ty.split("::")[-2]), "Ok after reading an ack only if its value == 0",
                  "%s accepts a non-zero acknowledgement as success" % f.short, f.loc())


def _stored_from_reply(fb, f, ret):
    """The returned value is a state field that this method assigned from the received reply."""
    from vlint.util import field_writes
    m = must_of(fb, f)
    names = {s[2] for s in subterms(ret) if s[0] == "field"}
    for w in field_writes(f):
        if w["field"] in names and "recv_reply" in show(m.sym.rvalue(w["rv"])):
            return True
    return False


def r3_typed(fb, chk, code, row, f, outs, sym, key):
    oks = [o for o in outs if not o.cut and o.ret is not None and okness(fb, o.ret) is not False]
    recvd = [(o, replies.did_receive(o)) for o in oks]
    probs = set()
    legacy_ok = 0
    for o, rc in recvd:
        if rc is None:
            if code == "SET_LOG_BASE":
                legacy_ok += 1
                continue
            probs.add("a path returns success without having read a reply")
            continue
        acc = replies.acceptance(o, rc)
        if not (acc["reply_for"] and acc["valid"]):
            probs.add("success without the reply-matching facts")
        rtxt = show(o.ret)
        # descriptor state as seen by the operation (files component of the receiver's result)
        for a in o.atoms:
            if a[0] in ("ok", "notok") and isinstance(a[1], tuple):
                tx = show(a[1])
                if tx.endswith(".1") and "recv_reply_with" in tx:
                    acc["fds"] = "some" if a[0] == "ok" else "none"

        def cmp_has(op, lsub, rconst=None, rsub=None):
            for a in o.atoms:
                # `match x { C => .. }` yields a membership atom instead of a comparison
                if a[0] == "in" and rconst is not None and isinstance(a[1], tuple) and lsub in show(a[1]):
                    if op == "Eq" and not a[3] and set(a[2]) == {rconst}:
                        return True
                    if op == "Ne" and a[3] and set(a[2]) == {rconst}:
                        return True
                if a[0] == "cmp" and a[1] == op:
                    for x, y in ((a[2], a[3]), (a[3], a[2])):
                        xs = x
                        while xs[0] in ("ref", "deref") or (xs[0] == "cast" and xs[4] == "IntToInt" and xs[2] == xs[3]):
                            xs = xs[1]
                        # the WHOLE status word is compared: not a masked, shifted or narrowed part of it
                        if lsub in show(x) and not (xs[0] in ("bin", "un", "cast")):
                            if rconst is not None and const_eval(fb, sym, y) == rconst:
                                return True
                            if rsub is not None and rsub in show(y):
                                return True
            return False
        if code == "CHECK_DEVICE_STATE":
            if not cmp_has("Eq", ".value", rconst=0):
                probs.add("Ok without the fact status == 0")
        elif code == "SET_DEVICE_STATE_FD":
            none_case = "Option::None" in rtxt
            if none_case:
                if not (cmp_has("Eq", ".value", rconst=wire.DEVICE_STATE_NO_FD) and acc["fds"] == "none"):
                    probs.add("Ok(None) without (status == 0x100 && no descriptor)")
            else:
                took = any(a[0] == "ok" and "take_single_file" in show(a[1]) for a in o.atoms)
                if not (cmp_has("Eq", ".value", rconst=0) and acc["fds"] == "some" and took and "take_single_file" in rtxt):
                    probs.add("Ok(Some) without (status == 0 && exactly one descriptor)")
        elif code == "GET_CONFIG":
            need = [cmp_has("Ne", ".size", rconst=0), cmp_has("Eq", "recv_body", rsub="new(offset, size"),
                    cmp_has("Eq", ".size as usize", rsub="len(buf)") or cmp_has("Eq", "len(buf)", rsub=".size"),
                    cmp_has("Eq", ".offset", rsub=".offset"), acc["fds"] == "none"]
            # size == requested size
            need[1] = any(a[0] == "cmp" and a[1] == "Eq" and ".size" in show(a[2]) and ".size" in show(a[3]) for a in o.atoms)
            if not all(need):
                probs.add("Ok without all of: size != 0, size == requested, size == buf.len(), offset == requested, no fds (%s)" % need)
            probs |= set(payload_framing(o, rc))
        elif row["reply"][0] == "reply+fd":
            took = any(a[0] == "ok" and "take_single_file" in show(a[1]) for a in o.atoms)
            if not took or "take_single_file" not in rtxt:
                probs.add("Ok without exactly one received file, or the returned file is not the received one")
        elif code == "GET_VRING_BASE":
            if not rtxt.rstrip(")}").endswith(".num") or "recv_reply" not in rtxt:
                probs.add("returns %s instead of the reply's num" % rtxt[:60])
        elif code == "GET_QUEUE_NUM":
            if not cmp_has("Le", ".value", rconst=wire.MAX_VRINGS):
                probs.add("queue count accepted without the bound <= %d" % wire.MAX_VRINGS)
        elif code == "SET_LOG_BASE":
            pass
        else:
            if "recv_reply" not in rtxt and not _stored_from_reply(fb, f, o.ret):
                probs.add("Ok value %s does not derive from the received reply" % rtxt[:60])
    chk.check(not probs and (recvd or legacy_ok), "R3", key, "%d success path(s) inside the accept set" % len(oks),
              "%s: %s" % (f.short, "; ".join(sorted(probs)) or "no success path"), f.loc())


# ---------------------------------------------------------------------------- R5

def r5(fb, chk, tag):
    n = 0
    for f, sends in replies.receivers(fb):
        if sends:
            continue
        outs, sym, summ = replies.summarise_receiver(fb, f)
        probs = set()
        variable = False
        for o in outs:
            if o.cut or o.ret is None or ret_okness(o.ret) is False:
                continue
            rc = replies.did_receive(o)
            if rc is None:
                continue
            if rc[1] == "recv_payload_into_buf" or any(a[0] == "ok" and a[1][0] == "call" and a[1][1] in ("recv_payload", "recv_data") for a in o.atoms):
                variable = True
            probs |= set(payload_framing(o, rc))
        if variable:
            n += 1
            chk.check(not probs, "R5", "%sframing:%s" % (tag, f.short), "variable part sized from the reply's own header",
                      "%s: %s" % (f.short, "; ".join(sorted(probs))), f.loc())
    chk.floor("R5", n, 1)
