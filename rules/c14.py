"""C14 — ring configuration and negotiated features reach queues and backend unchanged."""
from spec import wire
from vlint.absint import const_eval, bitwise_pred_equals
from vlint.facts import callee_of, resolved, AnchorMissing
from vlint.gates import atom_gate, field_of, root_of
from vlint.paths import Summariser, ret_okness
from vlint.terms import Sym, show, subterms, peel
from vlint.util import must_of, sites, field_writes
from . import daemon
from .c02 import adapter_impls

EXPLANATION = (
    "Decides: (Q1) every per-ring control handler obtains the ring through a checked lookup whose miss returns "
    "InvalidParam; (Q2) set_queue_size is reached only under num != 0 && num <= max_queue_size; (Q3) queue addresses "
    "are the translations of (descriptor, available, used) in that order, next_avail <- base, next_used <- the used "
    "index read from guest memory; (Q4) SET_FEATURES is accepted only under features & !offered == 0, stores exactly the "
    "request value, derives EVENT_IDX from bit 29 and delivers it to every ring and the backend, and passes the acked "
    "features to the backend; (Q5) a new backend-request channel inherits reply-ack / shared-object / shmem from the acked "
    "protocol features and is handed to the backend; (Q6) ring operations read the current memory snapshot at each "
    "operation and signal the call descriptor installed at that moment; (Q7) the Mutex/RwLock/Arc backend adapters "
    "delegate every method (C02/D3)."
    " Also: (Q3) every success path of SET_VRING_ADDR that installs the addresses sets next_used, GET_VRING_BASE's reply read from constructor or literal; (Q4) the subset test is, bit by bit, exactly features within backend.features() and the protocol-feature store is the acknowledged value; (Q7-Q9) C13/M3, C02/D3 for the ring adapters, C02/D2 for SET_FEATURES."
    ' Round 4/5: (Q12) each VringState setter is exactly the queue operation it is named after, with its own parameter, on every path; (Q14) each ring-configuration setter is called only by the handler of its request; (Q13, Q15, Q16) C13/M4, C19/U5 ranges, C13/M5.')
NOT_DECIDED = "Value ranges enforced inside virtio-queue (e.g. power-of-two sizes are silently ignored there), guest memory contents."

PER_RING = ("set_vring_num", "set_vring_addr", "set_vring_base", "get_vring_base", "set_vring_kick", "set_vring_call",
            "set_vring_err", "set_vring_enable")


def run(ctx, chk):
    fb = ctx.fb("full")
    chk.explanation = EXPLANATION
    chk.not_decided = NOT_DECIDED
    chk.cfgs["full"] = fb.hashes
    chk.rule("Q1", "per-ring handlers use a checked ring lookup (miss -> InvalidParam)")
    chk.rule("Q2", "queue size set only under 0 < num <= max_queue_size")
    chk.rule("Q3", "queue addresses / indices come from the named request fields in order")
    chk.rule("Q4", "feature acceptance, storage, EVENT_IDX propagation to all rings and the backend")
    chk.rule("Q5", "new backend-request channel inherits the negotiated settings")
    chk.rule("Q6", "ring operations read the current memory and the current call descriptor")
    chk.rule("Q7", "backend adapters delegate (C02/D3)")
    run_on(fb, chk)
    from . import xlist
    xlist.apply("C14", fb, chk)
    n = lambda r: len([i for i in chk.instances if i[0] == r])
    # ring addresses are the translated guest addresses (C13/M3); the lock-backed ring types forward every setter to
    # the same-named state method (C02/D3 applied to the ring adapters)
    from vlint.report import Renamed as _Renamed
    from . import c13 as _c13, c02 as _c02
    chk.rule("Q7", "frontend virtual addresses are translated as va - user_base + gpa_base inside the containing region (C13/M3)")
    _c13.run_on(fb, _Renamed(chk, {"M3": "Q7"}))
    chk.rule("Q8", "ring adapter methods (VringMutex / VringRwLock) delegate to the same-named VringState method (C02/D3)")
    _c02.d3(fb, _Renamed(chk, {"D3": ("Q8", lambda k: "Vring" in k)}), "")
    q12(fb, chk)
    q14(fb, chk)
    chk.floor("Q1", n("Q1"), 8)
    chk.floor("Q3", n("Q3"), 4)
    chk.floor("Q4", n("Q4"), 4)
    chk.floor("Q5", n("Q5"), 4)


# the ring state's setters: each is exactly one call of the queue's setter with the parameter(s) unchanged (numbers: the
# setter's own parameter, self = 1)
LEAF = {
    "set_queue_next_avail": [("set_next_avail", [2])],
    "set_queue_next_used": [("set_next_used", [2])],
    "set_queue_size": [("set_size", [2])],
    "set_queue_event_idx": [("set_event_idx", [2])],
    "set_queue_ready": [("set_ready", [2])],
    "queue_next_avail": [("next_avail", [])],
    "queue_used_idx": [("used_idx", [])],
    "set_queue_info": [("try_set_desc_table_address", [2]), ("try_set_avail_ring_address", [3]), ("try_set_used_ring_address", [4])],
}


def q12(fb, chk, tag=""):
    chk.rule("Q12", "the ring state's setters perform exactly the queue operation they are named after, with the caller's value, on every path")
    from vlint.cfg import CFG
    for name, want in sorted(LEAF.items()):
        fs = [f for f in fb.find(name=name, self_adt="VringState") if not f.trait]
        if len(fs) != 1:
            continue
        f = fs[0]
        sym = Sym(f, fb)
        cfg = CFG(f)
        got = []
        for bb, t in f.calls():
            c = callee_of(t)
            if not c:
                continue
            sa = (c.get("self_adt") or resolved(c).get("self_adt") or "")
            tr = c.get("of_trait") or c.get("trait") or ""
            if "Queue" in sa or "Queue" in tr:
                got.append((c["name"], bb, sym.arg_terms(bb)))
        key = "%sstate:%s" % (tag, name)
        probs = []
        if sorted(g[0] for g in got) != sorted(w[0] for w in want):
            probs.append("queue operations performed: %s; expected exactly %s" % (sorted(g[0] for g in got), [w[0] for w in want]))
        else:
            rets = [bi for bi, b in enumerate(f.blocks) if b["term"]["k"] == "return" and not b["cleanup"]]
            for (qn, pidx) in want:
                g = [x for x in got if x[0] == qn][0]
                vals = [a for a in g[2] if not (a[0] in ("ref", "deref") and "queue" in show(a))]
                params = []
                for a in vals:
                    x = a
                    while x[0] in ("ref", "deref", "cast") or (x[0] == "agg" and len(x[3]) == 1):
                        x = x[3][0][1] if x[0] == "agg" else x[1]
                    params.append(x[1] if x[0] == "param" else None)
                params = [p for p in params if p is not None or True][:len(pidx)] if pidx else []
                if pidx and params != pidx:
                    probs.append("%s receives %s, not the setter's own parameter(s) in order" % (qn, [show(a)[:40] for a in vals]))
                if len(want) == 1 and not cfg.all_paths_pass_through(0, rets, {g[1]}):
                    probs.append("%s is skipped on some path" % qn)
        chk.check(not probs, "Q12", key, "%s -> %s" % (name, [w[0] for w in want]),
                  "VringState::%s: %s" % (name, "; ".join(probs)), f.loc())
    q12_flags(fb, chk, tag)


# who may configure a ring: each queue setter of the ring interface is called by the handler of its own request only
WRITERS = {
    "set_queue_next_used": {"set_vring_addr"},
    "set_queue_next_avail": {"set_vring_base"},
    "set_queue_size": {"set_vring_num"},
    "set_queue_info": {"set_vring_addr"},
    "set_queue_event_idx": {"set_features"},
}


def q14(fb, chk, tag=""):
    chk.rule("Q14", "each ring-configuration setter is called only by the handler of the request that carries its value")
    seen = {k: set() for k in WRITERS}
    for f in fb.fns.values():
        if (f.self_adt or "").endswith(("VringMutex", "VringRwLock", "VringState")):
            continue
        for bb, t in f.calls():
            c = callee_of(t)
            if c and c.get("name") in WRITERS and ((c.get("of_trait") or c.get("trait") or "").endswith("VringT")
                                                   or (c.get("self_adt") or "").endswith(("VringMutex", "VringRwLock", "VringState"))):
                seen[c["name"]].add((f.name, f.short, f.loc(t["line"])))
    for name, allowed in sorted(WRITERS.items()):
        others = sorted((sh, loc) for (n, sh, loc) in seen[name] if n not in allowed)
        chk.check(not others and seen[name], "Q14", "%swriters:%s" % (tag, name), "called by %s only" % sorted(allowed),
                  "%s is also called by %s: the value configured by %s is overwritten by another request"
                  % (name, [o[0] for o in others], "/".join(sorted(allowed))) if seen[name] else "no caller of %s found" % name,
                  others[0][1] if others else None)


def q12_flags(fb, chk, tag=""):
    """The ring state's flag setters store the caller's value (a ring that was enabled can be disabled again)."""
    for name, fld in (("set_enabled", "enabled"),):
        fs = [f for f in fb.find(name=name, self_adt="VringState") if not f.trait]
        if len(fs) != 1:
            continue
        f = fs[0]
        sym = Sym(f, fb)
        ws = [w for w in field_writes(f) if w["field"] == fld]
        good = len(ws) == 1
        detail = ""
        if good:
            v = sym.rvalue(ws[0]["rv"])
            while v[0] in ("ref", "deref"):
                v = v[1]
            good = v[0] == "param"
            detail = show(v)[:60]
        chk.check(good, "Q12", "%sstate:%s" % (tag, name), "%s <- the parameter" % fld,
                  "VringState::%s stores `%s` into `%s`, not the value it was given: the flag cannot be taken back" % (name, detail, fld), f.loc())


def thorough(ctx, chk):
    fb = ctx.fb("base")
    chk.cfgs["base"] = fb.hashes
    run_on(fb, chk, tag="base/")


def run_on(fb, chk, tag=""):
    ch = daemon.control_handlers(fb)
    # ------------------------------------------------------------------ Q1
    for name in PER_RING:
        f = ch.get(name)
        if f is None:
            chk.anchor_missing("Q1", tag + name)
            continue
        chk.fn_seen(f)
        m = must_of(fb, f)
        rcs = daemon.ring_calls(fb, f)
        probs = []
        if not rcs:
            probs.append("no ring operation found")
        for bb, t, c in rcs:
            r = show(daemon.ring_of(m, bb))
            if not ("get(deref(&*self.vrings)" in r and "ok_or(" in r and "InvalidParam" in r):
                probs.append("%s on a ring obtained as %s" % (c["name"], r[:60]))
            idx_ok = any(s[0] == "param" and s[2] == "index" for s in subterms(daemon.ring_of(m, bb)))
            if not idx_ok:
                probs.append("ring not selected by the request's index")
        chk.check(not probs, "Q1", tag + name, "ring = vrings.get(index).ok_or(InvalidParam)?", "%s: %s" % (f.short, "; ".join(sorted(set(probs)))), f.loc())
    # ------------------------------------------------------------------ Q2
    f = ch.get("set_vring_num")
    if f:
        m = must_of(fb, f)
        for bb, t, c in daemon.ring_calls(fb, f, {"set_queue_size"}):
            atoms = m.atoms_at(bb)
            nz = any(a[0] == "cmp" and a[1] == "Ne" and peel(a[2])[0][0] == "param" and const_eval(fb, m.sym, a[3]) == 0 for a in atoms)
            le = any(a[0] == "cmp" and a[1] == "Le" and peel(a[2])[0][0] == "param" and field_of(a[3])[1] == "max_queue_size" for a in atoms)
            arg = m.sym.arg_terms(bb)[1]
            r, chain = peel(arg)
            chk.check(nz and le and r[0] == "param" and r[2] == "num", "Q2", tag + "set_vring_num", "size <- num under num != 0 && num <= max_queue_size",
                      "queue size set from %s with facts num!=0:%s num<=max:%s" % (show(arg)[:40], nz, le), f.loc(t["line"]))
    # ------------------------------------------------------------------ Q3
    f = ch.get("set_vring_addr")
    if f:
        m = must_of(fb, f)
        for bb, t, c in daemon.ring_calls(fb, f, {"set_queue_info"}):
            a = m.sym.arg_terms(bb)[1:]
            srcs = []
            for x in a:
                nm = None
                for s in subterms(x):
                    if s[0] == "call" and s[1] == "vmm_va_to_gpa":
                        r, _ = peel(s[2][1])
                        nm = r[2] if r[0] == "param" else None
                srcs.append(nm)
            chk.check(srcs == ["descriptor", "available", "used"], "Q3", tag + "set_vring_addr:queue-info",
                      "set_queue_info(gpa(descriptor), gpa(available), gpa(used))", "queue addresses come from %s (translated)" % srcs, f.loc(t["line"]))
        for bb, t, c in daemon.ring_calls(fb, f, {"set_queue_next_used"}):
            a = m.sym.arg_terms(bb)[1]
            chk.check("queue_used_idx" in show(a), "Q3", tag + "set_vring_addr:next-used", "next_used <- used index currently in guest memory",
                      "next_used set from %s" % show(a)[:50], f.loc(t["line"]))
        # ... and on every path: once the addresses were installed, the handler cannot succeed without refreshing next_used
        qi = [bb for bb, t, c in daemon.ring_calls(fb, f, {"set_queue_info"})]
        nu = [bb for bb, t, c in daemon.ring_calls(fb, f, {"set_queue_next_used"})]
        if qi and nu:
            from vlint.paths import Summariser as _S, ret_okness as _ro
            outs_, _sy = _S(fb, no_inline=lambda g: True).paths(f)
            skipped = [o for o in outs_ if o.ret is not None and _ro(o.ret) is True and set(o.path) & set(qi) and not set(o.path) & set(nu)]
            chk.check(not skipped, "Q3", tag + "set_vring_addr:next-used-always", "every success path that installs the addresses also sets next_used",
                      "SET_VRING_ADDR can succeed with the ring addresses installed but next_used left at its previous value (%d such paths): "
                      "the used index now in guest memory is not picked up" % len(skipped), f.loc())
        # translation happens only when a memory table is present
    f = ch.get("set_vring_base")
    if f:
        m = must_of(fb, f)
        for bb, t, c in daemon.ring_calls(fb, f, {"set_queue_next_avail"}):
            r, chain = peel(m.sym.arg_terms(bb)[1])
            chk.check(r[0] == "param" and r[2] == "base", "Q3", tag + "set_vring_base", "next_avail <- base", "next_avail set from %s" % show(r), f.loc(t["line"]))
    f = ch.get("get_vring_base")
    if f:
        m = must_of(fb, f)
        ok = any("queue_next_avail" in show(m.sym.arg_terms(bb)[1]) for bb, t, c in sites(f, name="new"))
        if not ok:
            # the reply built as a struct literal: read the `num` field of the returned value
            ret = m.sym.local(0)
            for alt in (ret[2] if ret[0] == "phi" else [ret]):
                if alt[0] == "agg" and alt[2] == "Ok" and alt[3]:
                    pay = alt[3][0][1]
                    if pay[0] == "agg" and pay[1].endswith("VhostUserVringState"):
                        d = dict(pay[3])
                        ok = "queue_next_avail" in show(d.get("num", ("unknown",))) and peel(d.get("index", ("unknown",)))[0][0] == "param"
        chk.check(ok, "Q3", tag + "get_vring_base", "reply <- queue_next_avail()", "GET_VRING_BASE does not return the next-available index", f.loc())
    # ------------------------------------------------------------------ Q4
    f = ch.get("set_features")
    if f:
        chk.fn_seen(f)
        m = must_of(fb, f)
        ws = [w for w in field_writes(f) if w["field"] == "acked_features"]
        okw = False
        for w in ws:
            rv = m.sym.rvalue(w["rv"])
            subset = False
            # some must-fact at the store is, as a predicate on bit vectors, exactly `features is a subset of
            # backend.features()` (decided bit by bit: exact for And/Or/Xor/Not over the two values and constants)
            def leaf_of(t):
                if t[0] == "param" and t[2] == "features":
                    return "F"
                if t[0] == "call" and t[1] == "features" and "backend" in show(t):
                    return "O"
                return None
            for a in m.atoms_at(w["bb"]):
                if a[0] == "cmp" and a[1] == "Eq":
                    if bitwise_pred_equals(fb, m.sym, a, leaf_of, ("F", "O"), lambda e: not (e["F"] and not e["O"])) is True:
                        subset = True
            okw = rv[0] == "param" and rv[2] == "features" and subset
        chk.check(okw and len(ws) == 1, "Q4", tag + "subset-and-store", "acked_features := features under features & !backend.features() == 0",
                  "acked features stored without the subset test against the offered features (or not the request value)", f.loc())
        evs = daemon.ring_calls(fb, f, {"set_queue_event_idx"})
        ok_ev = len(evs) == 1
        for bb, t, c in evs:
            a = m.sym.arg_terms(bb)
            recv = show(a[0])
            val = a[1]
            bit = None
            for s in subterms(val):
                if s[0] == "bin" and s[1] == "BitAnd":
                    bit = const_eval(fb, m.sym, s[3])
            all_rings = m.cfg.in_loop(bb) and ("iter_mut(deref_mut(&*self.vrings))" in recv or "iter(deref(&*self.vrings))" in recv) \
                and not any(k in recv for k in ("take(", "skip(", "filter(", "step_by("))
            ok_ev = ok_ev and bit == (1 << wire.VIRTIO_RING_F_EVENT_IDX) and all_rings and "acked_features" in show(val)
        chk.check(ok_ev, "Q4", tag + "event-idx:rings", "EVENT_IDX = acked bit 29, delivered to every ring", "EVENT_IDX is not derived from bit 29 of the acked features for all rings", f.loc())
        be = [(bb, t, c) for bb, t, c in sites(f, name="set_event_idx")]
        ok_be = len(be) == 1 and any(s[0] == "bin" and s[1] == "BitAnd" for s in subterms(m.sym.arg_terms(be[0][0])[1])) if be else False
        chk.check(ok_be, "Q4", tag + "event-idx:backend", "backend.set_event_idx(same value)", "backend is not told the EVENT_IDX setting", f.loc())
        af = [(bb, t, c) for bb, t, c in sites(f, name="acked_features")]
        ok_af = len(af) == 1 and field_of(m.sym.arg_terms(af[0][0])[1])[1] == "acked_features" if af else False
        chk.check(ok_af, "Q4", tag + "acked-to-backend", "backend.acked_features(self.acked_features)", "backend does not receive the acked features", f.loc())
        # order: the notifications come after the store
    # protocol features: the handler records exactly what the frontend acknowledged (the offer the frontend saw includes
    # bits added by the protocol layer, e.g. REPLY_ACK, so masking with the device's own set would drop them)
    f = ch.get("set_protocol_features")
    if f:
        chk.fn_seen(f)
        m = must_of(fb, f)
        ws = [w for w in field_writes(f) if w["field"] == "acked_protocol_features"]
        okp = len(ws) == 1
        detail = ""
        for w in ws:
            rv = m.sym.rvalue(w["rv"])
            detail = show(rv)[:80]
            okp = okp and rv[0] == "param" and rv[2] == "features"
        chk.check(okp, "Q4", tag + "proto-store", "acked_protocol_features := features",
                  "acked protocol features are stored as %s, not as the acknowledged value: a later backend-request channel does not "
                  "inherit the negotiated settings" % (detail or "nothing"), f.loc())
    # the negotiated protocol features outlive RESET_DEVICE (device state is reset, protocol state retained): the field is
    # written only by the negotiation itself, by the constructor and by RESET_OWNER
    allowed = {"set_protocol_features", "new", "reset_owner"}
    wr = sorted({g.name for g in fb.find(self_adt=daemon.HANDLER_ADT) for w in field_writes(g) if w["field"] == "acked_protocol_features"})
    extra = [n_ for n_ in wr if n_ not in allowed]
    chk.check(bool(wr) and not extra, "Q5", tag + "proto-writers", "acked_protocol_features written by %s only" % wr,
              "acked_protocol_features is also written by %s: a backend-request channel attached afterwards does not inherit the "
              "settings that are still negotiated" % extra)
    # ------------------------------------------------------------------ Q5
    f = ch.get("set_backend_req_fd")
    if f:
        chk.fn_seen(f)
        m = must_of(fb, f)
        pairs = {"set_reply_ack_flag": "REPLY_ACK", "set_shared_object_flag": "SHARED_OBJECT", "set_shmem_flag": "SHMEM"}
        for setter, feat in sorted(pairs.items()):
            ss = sites(f, name=setter)
            ok = len(ss) == 1
            for bb, t, c in ss:
                gs = [g for g in (atom_gate(fb, m.sym, a) for a in m.atoms_at(bb)) if g]
                v = const_eval(fb, m.sym, m.sym.arg_terms(bb)[1])
                ok = ok and v == 1 and any(g[0] == "acked_protocol_features" and g[2] == wire.PROTOCOL_FEATURES[feat] for g in gs)
            chk.check(ok, "Q5", tag + setter, "%s(true) iff acked protocol features & %s" % (setter, feat),
                      "the new channel does not inherit %s from the acked protocol features" % feat, f.loc())
        hand = sites(f, name="set_backend_req_fd")
        okh = len(hand) == 1 and root_of(m.sym.arg_terms(hand[0][0])[1])[0] == "param"
        # hand-over after the flags
        if okh:
            hb = hand[0][0]
            for setter in pairs:
                for bb, t, c in sites(f, name=setter):
                    if not m.cfg.can_reach(bb, hb):
                        okh = False
        chk.check(okh, "Q5", tag + "hand-over", "the configured channel is then given to the backend", "channel not handed to the backend after configuration", f.loc())
    # ------------------------------------------------------------------ Q6
    vs = [g for g in fb.find(self_adt="VringState") if not g.trait]
    memops = {"add_used", "enable_notification", "disable_notification", "needs_notification", "queue_used_idx"}
    for g in vs:
        if g.name in memops:
            chk.fn_seen(g)
            mm = must_of(fb, g)
            fresh = any("self.mem" in show(mm.sym.arg_terms(bb)[0]) for bb, t, c in sites(g, name="memory"))
            chk.check(fresh, "Q6", tag + "fresh-memory:" + g.name, "reads self.mem.memory() at the operation",
                      "%s does not take a fresh memory snapshot" % g.short, g.loc())
    rec = None
    for ty, r in fb.adts.items():
        if r["path"].endswith("::VringState"):
            rec = r
    if rec:
        cached = [x["name"] for x in rec["variants"][0]["fields"] if "GuestMemoryMmap" in x["ty"] and "Atomic" not in x["ty"]]
        chk.check(not cached, "Q6", tag + "no-cached-snapshot", "VringState holds only the atomic memory handle", "VringState caches a memory snapshot in %s" % cached)
    sg = [g for g in vs if g.name == "signal_used_queue"]
    if len(sg) == 1:
        g = sg[0]
        summ = Summariser(fb, no_inline=lambda h: True)
        outs, sym = summ.paths(g)
        some_notifies = none_ok = False
        for o in outs:
            has_call = any(a[0] == "ok" and "self.call" in show(a[1]) for a in o.atoms)
            no_call = any(a[0] == "notok" and "self.call" in show(a[1]) for a in o.atoms)
            notified = any(g.blocks[b]["term"]["k"] == "call" and (callee_of(g.blocks[b]["term"]) or {}).get("name") == "notify" for b in o.path)
            if has_call and notified:
                some_notifies = True
            if no_call and not notified and o.ret is not None and ret_okness(o.ret) is True:
                none_ok = True
        chk.check(some_notifies and none_ok, "Q6", tag + "signal-used", "notifies the currently installed call descriptor; Ok(()) when none",
                  "signal_used_queue: notifies-current=%s, ok-when-absent=%s" % (some_notifies, none_ok), g.loc())
    else:
        chk.anchor_missing("Q6", tag + "VringState::signal_used_queue")
    # ------------------------------------------------------------------ Q7
    n = len([i for i in adapter_impls(fb) if i["trait"].endswith("::VhostUserBackend")])
    chk.check(n >= 3, "Q7", tag + "adapters", "%d backend adapters (Arc, Mutex, RwLock), each method checked by C02/D3" % n, "expected 3 backend adapters, found %d" % n)
