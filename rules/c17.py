"""C17 — kicks are routed to the owning worker with the ring's rank as event id (partial)."""
from vlint.absint import const_eval
from vlint.facts import callee_of, resolved, AnchorMissing
from vlint.gates import field_of, root_of
from vlint.paths import Summariser, ret_okness
from vlint.terms import Sym, show, subterms, peel
from vlint.util import must_of, sites
from . import daemon
from .panics import erase_sites, upper_bound

EXPLANATION = (
    "Decides: (E1) the id registered for a worker's exit event and the id the dispatcher compares against are the same "
    "expression (backend.num_queues()), and the comparison is guarded by the presence of an exit event; (E2) custom "
    "listeners are accepted only with ids above num_queues, and the dispatcher's narrowing of the 64-bit epoll datum to the "
    "16-bit event id is covered by a registration-time bound, so an accepted id is delivered exactly and cannot alias a "
    "queue or the exit id; (E3) the id computed for a ring reaches both the epoll add and delete unchanged, only the first "
    "thread whose mask contains the queue is used, and the dispatcher hands (event id, event set, the thread's ring slice, "
    "thread id) to the backend."
    " Also (E3): the mask used for a worker's ring slice is the worker's own element of queues_per_thread unmodified, shifted by the ring's index, and one worker object is created for every mask."
    ' Round 4/5: (E3) the worker masks are searched in order from the first; (E5) the dispatcher returns Ok(true) only for the exit event; (E6) the ring objects shared with the workers are never replaced; (E7, E8) C11/T3, C11/T2.')
NOT_DECIDED = ("The rank formula popcount(mask) - popcount(mask >> index) and the per-thread slice construction as numeric "
               "results (no canonical form; an expression-shape match would fire on equivalent rewrites, so it is not armed).")


def run(ctx, chk):
    fb = ctx.fb("full")
    chk.explanation = EXPLANATION
    chk.not_decided = NOT_DECIDED
    chk.cfgs["full"] = fb.hashes
    chk.rule("E1", "exit-event id registered == id compared by the dispatcher, guarded by exit-event presence")
    chk.rule("E2", "listener ids: reserved range rejected; accepted ids fit the dispatcher's 16-bit event id")
    chk.rule("E3", "ring id flows unchanged to add/delete; first matching thread only; dispatcher argument order")
    run_on(fb, chk)
    e5e6(fb, chk)
    e12e13(fb, chk)
    from . import xlist
    xlist.apply("C17", fb, chk)
    n = lambda r: len([i for i in chk.instances if i[0] == r])
    chk.floor("E2", n("E2"), 3)


def _iter_item(t):
    """(`next` call, (field path below the Some payload)) if t is a component of an iteration item, through clones/derefs."""
    path = []
    for _ in range(12):
        if t[0] in ("ref", "deref", "cast"):
            t = t[1]
        elif t[0] == "call" and t[1] in ("clone", "deref", "into", "from") and len(t[2]) == 1:
            t = t[2][0]
        elif t[0] == "field":
            path.append(t[2])
            t = t[1]
        elif t[0] == "down":
            t = t[1]
        elif t[0] == "call" and t[1] == "next":
            p = tuple(reversed(path))
            # payload of Some is field "0" of the variant; strip it
            if p and p[0] == "0":
                p = p[1:]
            return (t, p)
        else:
            return None
    return None


def run_on(fb, chk, tag=""):
    new = fb.one(name="new", self_adt="VringEpollHandler")
    he = [f for f in fb.find(name="handle_event", self_adt="VringEpollHandler") if not f.trait][0]
    run = fb.one(name="run", self_adt="VringEpollHandler")
    for f in (new, he, run):
        chk.fn_seen(f)
    nm, hm, rm = must_of(fb, new), must_of(fb, he), must_of(fb, run)
    # ------------------------------------------------------------------ E1
    reg_id = None
    for bb, t, c in sites(new, name="ctl"):
        a = nm.sym.arg_terms(bb)
        ev = a[3]
        for s in subterms(ev):
            if s[0] == "call" and s[1] == "new" and len(s[2]) == 2:
                reg_id = s[2][1]
    cmp_id = None
    guarded = False
    for bi in range(len(he.blocks)):
        for a in hm.atoms_at(bi) if bi in hm.cfg.live_blocks() else []:
            if a[0] == "cmp" and a[1] == "Eq" and "device_event" in show(a[2]) and "num_queues" in show(a[3]):
                cmp_id = a[3]
                guarded = any(b[0] == "ok" and "exit_event_fd" in show(b[1]) for b in hm.atoms_at(bi))
    def idname(t):
        r = peel(t)[0] if t is not None else None
        return r[1] if r is not None and r[0] == "call" else None
    same = reg_id is not None and cmp_id is not None and idname(reg_id) == idname(cmp_id) == "num_queues" \
        and "backend" in show(reg_id) and "backend" in show(cmp_id)
    chk.check(same and guarded, "E1", tag + "exit-id", "exit id = backend.num_queues() on both sides; compared only when an exit event exists",
              "exit event registered with id %s, dispatcher compares with %s (guarded by exit-event presence: %s)"
              % (show(reg_id)[:50] if reg_id else None, show(cmp_id)[:50] if cmp_id else None, guarded), new.loc())
    # ------------------------------------------------------------------ E2
    # the dispatcher's narrowing
    narrow_bits = None
    for bb, t, c in sites(run, name="handle_event"):
        a = rm.sym.arg_terms(bb)[1]
        x = a
        while x[0] == "cast":
            from vlint.terms import INT_TYS
            if INT_TYS.get(x[2], 64) < INT_TYS.get(x[3], 64) and "data(" in show(x[1]):
                narrow_bits = INT_TYS.get(x[2])
            x = x[1]
    for name in ("register_listener", "unregister_listener"):
        f = fb.one(name=name, self_adt="VringEpollHandler")
        chk.fn_seen(f)
        m = must_of(fb, f)
        inner = [(bb, t, c) for bb, t, c in sites(f, name={"register_event", "unregister_event"})]
        if len(inner) != 1:
            chk.bad("E2", tag + name, "expected one forwarded (un)registration, found %d" % len(inner), f.loc())
            continue
        bb, t, c = inner[0]
        atoms = m.atoms_at(bb)
        above = any(a[0] == "cmp" and a[1] == "Gt" and peel(a[2])[0][0] == "param" and "num_queues" in show(a[3]) for a in atoms)
        chk.check(above, "E2", tag + name + ":reserved", "accepted only if data > num_queues",
                  "%s accepts ids inside the reserved range [0, num_queues]" % f.short, f.loc(t["line"]))
        data = m.sym.arg_terms(bb)[3]
        ub = upper_bound(fb, m, data, atoms)
        if narrow_bits is not None:
            fits = ub is not None and ub < (1 << narrow_bits)
            chk.check(fits, "E2", tag + name + ":fits-event-id", "accepted ids are bounded by %s" % ub,
                      "%s accepts 64-bit ids without an upper bound, but the dispatcher delivers `event.data() as u%d`: id 65536 + q is "
                      "delivered as queue q (and 65536 + num_queues as the exit event)" % (f.short, narrow_bits), f.loc(t["line"]))
    if narrow_bits is None:
        chk.ok("E2", tag + "no-narrowing", "the dispatcher does not narrow the epoll datum")
    # ------------------------------------------------------------------ E3
    try:
        reg = daemon.registration_fn(fb)
    except AnchorMissing as e:
        chk.anchor_missing("E3", tag + "registration function", str(e))
        return
    gm = must_of(fb, reg)
    for bb, t, c in sites(reg, name={"register_event", "unregister_event"}):
        after = gm.cfg.reach(t["t"]) if t.get("t") is not None else set()
        again = [b2 for b2, _t, _c in sites(reg, name={"register_event", "unregister_event"}) if b2 in after]
        chk.check(not again, "E3", tag + "first-thread-only:" + c["name"], "the search stops at the first thread whose mask contains the queue",
                  "after %s the loop continues to further threads (a queue in two masks would be registered twice)" % c["name"], reg.loc(t["line"]))
        recv = gm.sym.arg_terms(bb)[0]
        odd = sorted({s_[1] for s_ in subterms(recv) if s_[0] == "call" and s_[1] in ("rev", "skip", "step_by", "cycle", "chain", "skip_while", "rposition", "last", "max_by_key", "nth_back", "next_back", "rfind")})
        chk.check(not odd, "E3", tag + "thread-order:" + c["name"], "workers are searched in order, from the first",
                  "the worker for a queue is searched with %s: with overlapping masks the kick is routed to another worker than the first "
                  "one whose mask contains the queue" % odd, reg.loc(t["line"]))
        idt = gm.sym.arg_terms(bb)[3]
        chk.check("count_ones" in show(idt), "E3", tag + "id-source:" + c["name"], "id = rank of the queue in the thread's mask (popcount expression)",
                  "event id is %s" % show(idt)[:60], reg.loc(t["line"]))
    for bb, t, c in sites(he, name="handle_event"):
        if not (c.get("of_trait") or "").endswith("::VhostUserBackend"):
            continue
        a = hm.sym.arg_terms(bb)
        ok = a[1][0] == "param" and a[1][2] == "device_event" and a[2][0] == "param" and a[2][2] == "evset" \
            and "self.vrings" in show(a[3]) and "thread_id" in show(a[4])
        chk.check(ok, "E3", tag + "dispatch-args", "backend.handle_event(device_event, evset, &self.vrings, self.thread_id)",
                  "dispatcher calls the backend with %s" % [show(x)[:30] for x in a[1:]], he.loc(t["line"]))
    # the worker's ring slice is built from the thread's mask in queue order
    hn = fb.one(name="new", self_adt="VhostUserHandler")
    hmn = must_of(fb, hn)
    pushes = [(bb, t, c) for bb, t, c in sites(hn, name="push")]
    ok = False
    for bb, t, c in pushes:
        a = hmn.sym.arg_terms(bb)
        if show(a[1]).startswith("clone(") and "enumerate(iter(" in show(a[1]):
            atoms = hmn.atoms_at(bb)
            pushed_next = _iter_item(a[1])
            for at in atoms:
                if not (at[0] == "cmp" and at[1] == "Eq" and const_eval(fb, hmn.sym, at[3]) == 1 and at[2][0] == "bin" and at[2][1] == "BitAnd"
                        and const_eval(fb, hmn.sym, at[2][3]) == 1):
                    continue
                sh = at[2][2]
                if not (sh[0] == "call" and sh[1] == "shr" and len(sh[2]) == 2) and not (sh[0] == "bin" and sh[1] == "Shr"):
                    continue
                mask, amount = (sh[2][0], sh[2][1]) if sh[0] == "call" else (sh[2], sh[3])
                # the mask is the thread's own element of queues_per_thread, unmodified (the same value the
                # registration uses to compute ranks); the shift is the ring's index; the ring pushed is that ring
                mi, ai = _iter_item(mask), _iter_item(amount)
                mask_ok = mi is not None and mi[1] == ("1",) and "queues_per_thread" in show(mi[0]) \
                    and not any(x[0] in ("bin", "un") for x in subterms(mask))
                idx_ok = ai is not None and ai[1] == ("0",) and pushed_next is not None and ai[0] == pushed_next[0] and pushed_next[1] == ("1",)
                ok = mask_ok and idx_ok
    # one worker object per element of queues_per_thread, in order: the registration indexes `handlers` by the position of
    # the mask, so no mask may be skipped (not even one that selects no queue)
    from .c11 import _skippable_in_loop
    hp_ = [(bb, t, c) for bb, t, c in pushes if "VringEpollHandler" in (t.get("atys") or ["", ""])[1]]
    skipped = [bb for bb, t, c in hp_ if _skippable_in_loop(hmn.cfg, bb)]
    chk.check(len(hp_) >= 1 and not skipped, "E3", tag + "one-worker-per-mask", "a worker handler is created for every mask, in mask order",
              "VhostUserHandler::new can skip creating the worker for a mask (%d handler pushes, %d skippable): `handlers[i]` no longer "
              "belongs to `queues_per_thread[i]`, kicks are routed to the wrong worker" % (len(hp_), len(skipped)), hn.loc())
    # the list handed to the worker is exactly the one built by that selection (no shortcut that passes the whole ring list)
    for bb, t, c in sites(hn, name="new"):
        if "VringEpollHandler" not in (c.get("self_ty") or resolved(c).get("self_ty") or c.get("path") or ""):
            continue
        lst = hmn.sym.arg_terms(bb)[1]
        alts = list(lst[2]) if lst[0] == "phi" else [lst]
        roots = []
        for a_ in alts:
            r_ = a_
            while r_[0] in ("ref", "deref"):
                r_ = r_[1]
            roots.append(r_[1] if r_[0] == "call" else show(r_)[:30])
        okl = all(x in ("new", "with_capacity") for x in roots)
        chk.check(okl, "E3", tag + "slice-source", "worker ring list = the freshly built selection",
                  "a worker can be given a ring list obtained by %s instead of the per-mask selection: the element at an event id is then "
                  "not the queue the id was computed for" % [x for x in roots if x not in ("new", "with_capacity")], hn.loc(t["line"]))
    chk.check(ok, "E3", tag + "slice", "a ring joins a thread's slice iff its bit is set in the thread's mask (in queue order)",
              "per-thread ring slices are not selected by the mask bit", hn.loc())


# ---------------------------------------------------------------------------- E5 / E6

def e5e6(fb, chk, tag=""):
    chk.rule("E5", "the worker's dispatcher reports `exit` (Ok(true)) only for the exit event: a ring event never stops the worker")
    chk.rule("E6", "the ring objects shared with the workers at construction are never replaced: handler and workers keep referring to the same rings")
    he = [f for f in fb.find(name="handle_event", self_adt="VringEpollHandler") if not f.trait][0]
    hm = must_of(fb, he)
    n = 0
    for bi, b in enumerate(he.blocks):
        if b["cleanup"] or bi not in hm.cfg.live_blocks():
            continue
        for st in b["stmts"]:
            if not (st["k"] == "assign" and st["lhs"]["l"] == 0 and not st["lhs"]["p"]):
                continue
            v = hm.sym.rvalue(st["rv"])
            if not (v[0] == "agg" and v[2] == "Ok" and v[3]):
                continue
            val = v[3][0][1]
            n += 1
            key = "%sexit-result:%d" % (tag, n)
            if val[0] == "const":
                if val[1] in (0, False):
                    chk.ok("E5", key, "Ok(false)", he.loc(st.get("line")))
                    continue
                atoms = hm.atoms_at(bi)
                isexit = any(a[0] == "cmp" and a[1] == "Eq" and "device_event" in show(a[2]) + show(a[3]) and "num_queues" in show(a[2]) + show(a[3])
                             for a in atoms)
                chk.check(isexit, "E5", key, "Ok(true) only under device_event == num_queues",
                          "VringEpollHandler::handle_event returns Ok(true) (leave the event loop) on a path where the event is not the "
                          "exit event: the worker stops and every later kick of its queues is lost", he.loc(st.get("line")))
            else:
                txt = show(val)
                chk.check("device_event" in txt and "num_queues" in txt, "E5", key, "the result is the exit-event test itself",
                          "VringEpollHandler::handle_event returns Ok(%s): not decided by the exit-event test" % txt[:60], he.loc(st.get("line")))
    if n == 0:
        chk.bad("E5", tag + "exit-result", "no Ok(..) result found in handle_event", he.loc())
    # E6: no assignment to the `vrings` field and no element-replacing / resizing operation on it outside the constructors
    # (iter_mut over the rings only calls their `&self` setters and is not a replacement)
    MUT = {"index_mut", "get_mut", "push", "clear", "remove", "swap_remove", "insert", "truncate", "drain", "pop", "retain", "swap",
           "replace", "take", "resize", "resize_with", "extend", "append", "split_off", "first_mut", "last_mut", "get_unchecked_mut"}
    for owner in ("VhostUserHandler", "VringEpollHandler"):
        hits = []
        for f in fb.fns.values():
            if f.name == "new" and (f.self_adt or "").endswith(owner):
                continue
            sym = None
            for bi, b in enumerate(f.blocks):
                if b["cleanup"]:
                    continue
                for st in b["stmts"]:
                    if st["k"] == "assign" and st["lhs"]["p"]:
                        last = st["lhs"]["p"][-1]
                        if last["k"] == "field" and last.get("n") == "vrings" and (last.get("adt") or "").endswith(owner):
                            hits.append((f.short, f.loc(st.get("line"))))
                t = b["term"]
                if t["k"] == "call":
                    c = callee_of(t)
                    if c and c.get("name") in MUT and t["args"]:
                        sym = sym or Sym(f, fb)
                        a0 = sym.arg_terms(bi)[0]
                        x = a0
                        while x[0] in ("ref", "deref", "cast") or (x[0] == "call" and x[1] in ("deref_mut", "as_mut_slice", "as_mut") and x[2]):
                            x = x[2][0] if x[0] == "call" else x[1]
                        if x[0] == "field" and x[2] == "vrings":
                            base = x[1]
                            while base[0] in ("ref", "deref"):
                                base = base[1]
                            if base[0] == "param" and (f.self_adt or "").endswith(owner):
                                hits.append((f.short, f.loc(t.get("line"))))
        chk.check(not hits, "E6", "%svrings:%s" % (tag, owner), "%s.vrings is written only by the constructor" % owner,
                  "%s.vrings is modified in %s: the workers keep the ring objects they were given at construction, so a replaced ring "
                  "is no longer the one its kicks are dispatched on" % (owner, sorted({h[0] for h in hits})), hits[0][1] if hits else None)


# ---------------------------------------------------------------------------- E12 / E13

def e12e13(fb, chk, tag=""):
    chk.rule("E12", "the default worker mask covers queues 0..=31 (0xffff_ffff): with the default mapping every queue has a worker")
    chk.rule("E13", "the handler owns exactly num_queues rings (one ring object per queue index, none beyond)")
    n = 0
    for f in fb.fns.values():
        if f.name != "queues_per_thread" or f.crate != "vhost_user_backend" or not f.rec.get("trait_decl"):
            continue
        # `vec![c]` is lowered to a boxed array written through a raw pointer: read the u64 constants of the body
        vals = set()

        def _walk(o):
            if isinstance(o, dict):
                if o.get("k") == "const" and isinstance(o.get("v"), int) and (o.get("ty") or "") == "u64":
                    vals.add(o["v"])
                for v_ in o.values():
                    _walk(v_)
            elif isinstance(o, list):
                for v_ in o:
                    _walk(v_)
        for b_ in f.blocks:
            if not b_["cleanup"]:
                _walk(b_["stmts"])
                _walk(b_["term"].get("args") or [])
        for pr in f.promoted or []:
            _walk(pr)
        vals = sorted(vals)
        n += 1
        chk.check(vals == [0xffff_ffff], "E12", "%sdefault-mask:%s" % (tag, (f.trait or f.short).split("::")[-1]),
                  "default queues_per_thread() = [0xffff_ffff]",
                  "the default queues_per_thread() of %s returns %s: a queue below 32 is left without a worker (its kicks are never "
                  "registered)" % ((f.trait or f.short).split("::")[-1], [hex(v) for v in vals]), f.loc())
    if n == 0:
        chk.anchor_missing("E12", tag + "default queues_per_thread")
    new = fb.one(name="new", self_adt="VhostUserHandler")
    m = must_of(fb, new)
    ok = False
    detail = None
    for bb, t, c in sites(new, name="push"):
        a = m.sym.arg_terms(bb)
        if not a or "Vring" not in show(a[1]) + str(t.get("atys")):
            pass
        # the loop that creates the rings: find the `next` this push is controlled by
        for nb, nt, nc in sites(new, name="next"):
            if bb in m.cfg.reach(nb) and nb in m.cfg.reach(bb):
                src = m.sym.arg_terms(nb)[0]
                rng = [x for x in subterms(src) if x[0] == "agg" and x[1].split("::")[-1] in ("Range", "RangeInclusive")]
                incl = any(x[0] == "call" and x[1] == "new" and "RangeInclusive" in str(m.sym.info(x).get("self_ty") or m.sym.info(x).get("path") or "") for x in subterms(src))
                if rng and not incl:
                    r = rng[0]
                    flds = dict(r[3])
                    lo, hi = flds.get("start"), flds.get("end")
                    if r[1].split("::")[-1] == "Range" and lo is not None and lo[0] == "const" and lo[1] == 0 and hi is not None and "num_queues" in show(hi) \
                            and not any(y[0] == "bin" for y in subterms(hi)):
                        if "new(" in show(a[1]) or True:
                            ok = True
                detail = show(src)[:80]
                break
        if ok:
            break
    chk.check(ok, "E13", tag + "ring-count", "rings are created for 0 .. num_queues",
              "VhostUserHandler::new does not create exactly num_queues rings (ring loop over `%s`): a ring index equal to the exit-event id "
              "becomes addressable" % detail, new.loc())
