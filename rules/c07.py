"""C07 — feature-dependent operations are impossible before the feature is negotiated."""
from spec import wire
from vlint.absint import Eval, Undecided, const_eval
from vlint.facts import callee_of, resolved, AnchorMissing
from vlint.gates import gates_at, field_of, root_of
from vlint.terms import show, subterms, peel
from vlint.util import must_of, field_writes, sites, enum_variant_of, option_shape
from . import common

EXPLANATION = (
    "Decides the structural content of C07: at every site where a feature-tied request is put on "
    "the wire (frontend, backend->frontend proxy) or handed to the handler (backend server), a test "
    "of the right negotiated-state field against exactly the right feature bit is a must-fact "
    "(holds on every CFG path to the site); the negotiated-state fields are written only by the "
    "negotiation messages; REPLY_ACK is or-ed into every protocol-feature offer. This covers all "
    "negotiation histories at once because the gate reads the state the history produced."
    " Also: (G5) the frontend's record of the acked protocol features is exactly the set it sent.")
NOT_DECIDED = ("Sequences of messages as such; that the peers agree on the negotiated set at run time.")


def expected_gate(row, side):
    """-> (role, bit) or None for this side ('F' frontend, 'B' backend)."""
    g = row.get("gate")
    if g is None:
        return None
    if isinstance(g, str):
        return ("acked_proto", wire.PROTOCOL_FEATURES[g])
    if g[0] == "virtio":
        _, name, which, sides = g
        if side in sides:
            return ("offered_virtio" if which == "offered" else "acked_virtio", wire.VIRTIO_FEATURES[name])
        return None
    if g[0] == "proto":
        _, name, sides = g
        if side in sides:
            return ("acked_proto", wire.PROTOCOL_FEATURES[name])
        return None
    return None


def run(ctx, chk):
    fb = ctx.fb("full")
    chk.explanation = EXPLANATION
    chk.not_decided = NOT_DECIDED
    chk.cfgs["full"] = fb.hashes
    chk.rule("G1", "frontend: each feature-tied request is sent only under a must-fact testing the "
                   "right state field (acked protocol features / offered or acked virtio features) "
                   "against exactly the gating bit")
    chk.rule("G2", "backend server: the handler for a feature-tied request is called only under "
                   "the gate must-fact (on the server's acked state)")
    chk.rule("G3", "backend->frontend proxy: shared-object / shmem requests are sent only under the "
                   "matching negotiated flag")
    chk.rule("G4", "GET_PROTOCOL_FEATURES reply value = handler result | REPLY_ACK")
    chk.rule("G5", "negotiated-state fields are written only in the negotiation paths, from the "
                   "negotiated value")
    run_on(fb, chk)
    from . import xlist
    xlist.apply("C07", fb, chk)
    chk.floor("G1", len([i for i in chk.instances if i[0] == "G1"]), 22)
    chk.floor("G2", len([i for i in chk.instances if i[0] == "G2"]), 17)
    chk.floor("G3", len([i for i in chk.instances if i[0] == "G3"]), 5)


def exact_gates(fb, chk, tag=""):
    """GX (filed by the sibling properties only): the backend server refuses a request for a missing feature only when
    the protocol ties the request to that feature — the feature tests that are must-facts at a handler call are exactly the
    specification's gate for that request (an extra test drops a well-formed request: no handler call, no reply)."""
    from .c02 import server_handler_calls
    chk.rule("GX", "the feature tests guarding a handler call are exactly the protocol's gate for that request (none extra)")
    has_postcopy = bool(fb.find(name="postcopy_advise", self_adt="Frontend"))
    be_roles = common.backend_state_roles(fb)
    rev = {v: k for k, v in be_roles.items()}
    hr, mh, calls = server_handler_calls(fb)
    for code, row in sorted(wire.FRONTEND_TABLE.items()):
        if "B" not in row["impl"] or not row["handler"] or (row.get("feature") == "postcopy" and not has_postcopy):
            continue
        exp = expected_gate(row, "B")
        for (f, bb, t, c, via) in calls.get(code, []):
            if c.get("name") != row["handler"]:
                continue
            gs = list(gates_at(fb, must_of(fb, f), bb))
            if via:
                gs += list(gates_at(fb, mh, via[0]))
            got = {(rev.get(g[0], g[0]), g[1]) for g in gs if g[1] is not None}
            extra = sorted(got - ({exp} if exp else set()))
            chk.check(not extra, "GX", "%sarm:%s" % (tag, code), "feature tests at the call of %s: %s" % (c["name"], sorted(got)),
                      "handler %s for %s is guarded by feature test(s) %s the protocol does not tie this request to: a well-formed "
                      "%s is refused (no handler call, no reply)" % (c["name"], code, [(r, hex(b)) for r, b in extra], code),
                      f.loc(t["line"]))


def thorough(ctx, chk):
    fb = ctx.fb("base")
    chk.cfgs["base"] = fb.hashes
    run_on(fb, chk, tag="base/")


def run_on(fb, chk, tag=""):
    has_postcopy = bool(fb.find(name="postcopy_advise", self_adt="Frontend"))
    # ------------------------------------------------------------------ G1
    fe_roles = common.frontend_state_roles(fb)
    for need in ("offered_virtio", "acked_virtio", "acked_proto"):
        if need not in fe_roles:
            chk.anchor_missing("G1", tag + "frontend state field role " + need)
    fm = common.frontend_methods(fb)
    for code, row in sorted(wire.FRONTEND_TABLE.items()):
        if "F" not in row["impl"]:
            continue
        if row.get("feature") == "postcopy" and not has_postcopy:
            continue
        exp = expected_gate(row, "F")
        f = fm.get(row["fe"])
        if f is None:
            if exp is not None:
                chk.anchor_missing("G1", tag + "Frontend::%s" % row["fe"])
            continue
        chk.fn_seen(f)
        m = must_of(fb, f)
        ss = common.request_sender_sites(f)
        found = 0
        for bb, t, c, ai in ss:
            args = m.sym.arg_terms(bb)
            _, var = enum_variant_of(args[ai])
            if var != code:
                continue
            found += 1
            if exp is None:
                continue
            key = "%s%s:%s" % (tag, f.short, code)
            # the fd-less legacy form of SET_LOG_BASE is not tied to LOG_SHMFD
            if code == "SET_LOG_BASE":
                shape, _ = option_shape(args[-1])
                if shape == "None":
                    chk.ok("G1", key + ":legacy", "legacy form without descriptor: no gate required",
                           f.loc(t["line"]))
                    continue
            role, bit = exp
            gs = gates_at(fb, m, bb)
            want_field = fe_roles.get(role)
            hit = [g for g in gs if g[0] == want_field and g[1] == bit]
            if hit:
                chk.ok("G1", key, "must-fact: %s & %#x != 0 (%s)" % (want_field, bit, hit[0][3]),
                       f.loc(t["line"]))
            else:
                chk.bad("G1", key,
                        "request %s is sent without a must-fact testing %s (%s) against bit %#x; "
                        "gate facts at the send: %s"
                        % (code, role, want_field, bit,
                           [(g[0], hex(g[1]) if g[1] is not None else None) for g in gs]),
                        f.loc(t["line"]))
        if exp is not None and found == 0:
            chk.bad("G1", "%s%s:%s" % (tag, f.short, code),
                    "no send site for %s found in %s (cannot certify the gate)" % (code, f.short), f.loc())

    # ------------------------------------------------------------------ G2
    be_roles = common.backend_state_roles(fb)
    for need in ("offered_virtio", "acked_virtio", "acked_proto"):
        if need not in be_roles:
            chk.anchor_missing("G2", tag + "backend state field role " + need)
    hr = common.dispatch_fn(fb)
    chk.fn_seen(hr)
    mh = must_of(fb, hr)
    # handler call sites, directly in the dispatch or in a private helper of the server
    server_fns = [f for f in fb.find(self_adt="BackendReqHandler") if not f.trait]
    for code, row in sorted(wire.FRONTEND_TABLE.items()):
        if "B" not in row["impl"] or not row["handler"]:
            continue
        if row.get("feature") == "postcopy" and not has_postcopy:
            continue
        exp = expected_gate(row, "B")
        if exp is None:
            continue
        role, bit = exp
        want_field = be_roles.get(role)
        key = "%sarm:%s" % (tag, code)
        hits = []
        for f in server_fns:
            for bb, t, c in common.handler_sites(fb, f):
                if c.get("name") != row["handler"]:
                    continue
                if f.key == hr.key:
                    if code in common.arm_codes(mh, bb):
                        hits.append((hr, bb, t))
                else:
                    # helper: the calls of the helper inside the dispatch arm
                    for hb, ht, hc in sites(hr, name=f.name, self_adt="BackendReqHandler"):
                        if code in common.arm_codes(mh, hb):
                            hits.append((hr, hb, ht))
        if not hits:
            chk.bad("G2", key, "no call of handler method %s found for request %s" % (row["handler"], code),
                    hr.loc())
            continue
        for (f, bb, t) in hits:
            gs = gates_at(fb, mh, bb)
            hit = [g for g in gs if g[0] == want_field and g[1] == bit]
            if hit:
                chk.ok("G2", key, "handler %s called under must-fact %s & %#x != 0 (%s)"
                       % (row["handler"], want_field, bit, hit[0][3]), f.loc(t["line"]))
            else:
                chk.bad("G2", key,
                        "handler %s for %s is reachable without a must-fact testing %s (%s) against "
                        "bit %#x; gate facts: %s" % (row["handler"], code, role, want_field, bit,
                                                     [(g[0], hex(g[1]) if g[1] is not None else None) for g in gs]),
                        f.loc(t["line"]))

    # ------------------------------------------------------------------ G3
    proxy_roles = {}
    for setter, role in (("set_shared_object_flag", "SHARED_OBJECT"), ("set_shmem_flag", "SHMEM"),
                         ("set_reply_ack_flag", "REPLY_ACK")):
        fs = fb.find(name=setter, self_adt="Backend")
        if len(fs) != 1:
            chk.anchor_missing("G3", tag + "Backend::" + setter)
            continue
        ws = [w for w in field_writes(fs[0]) if (w["adt"] or "").endswith("BackendInternal")]
        if len(ws) == 1:
            proxy_roles[role] = ws[0]["field"]
            from vlint.terms import Sym as _Sym
            gv = _Sym(fs[0], fb).rvalue(ws[0]["rv"])
            while gv[0] in ("ref", "deref"):
                gv = gv[1]
            chk.check(gv[0] == "param", "G3", tag + "setter:" + setter, "flag <- the parameter",
                      "Backend::%s stores `%s`, not the value it was given (the flag must follow the negotiated state in both directions)"
                      % (setter, show(gv)[:60]), fs[0].loc(ws[0]["line"]))
        else:
            chk.anchor_missing("G3", tag + "field written by Backend::" + setter)
    for code, row in sorted(wire.BACKEND_TABLE.items()):
        if not row.get("proxy") or not row.get("gate"):
            continue
        fs = [f for f in fb.find(name=row["proxy"], self_adt="Backend") if f.trait]
        if len(fs) != 1:
            chk.anchor_missing("G3", tag + "Backend::" + row["proxy"])
            continue
        f = fs[0]
        chk.fn_seen(f)
        m = must_of(fb, f)
        want = proxy_roles.get(row["gate"])
        n = 0
        for bb, t, c, ai in common.request_sender_sites(f, common.BACKEND_REQ_TY):
            n += 1
            args = m.sym.arg_terms(bb)
            _, var = enum_variant_of(args[ai])
            key = "%s%s:%s" % (tag, f.short, code)
            if var != code:
                chk.bad("G3", key, "proxy method %s sends %s, expected %s" % (f.short, var, code),
                        f.loc(t["line"]))
                continue
            ok = False
            for a in m.atoms_at(bb):
                if a[0] == "true":
                    _, fld = field_of(a[1])
                    if fld == want:
                        ok = True
            chk.check(ok, "G3", key, "send under must-fact `%s` is true" % want,
                      "request %s is sent without the must-fact that flag %s (%s) is set"
                      % (code, row["gate"], want), f.loc(t["line"]))
        if n == 0:
            chk.bad("G3", "%s%s:%s" % (tag, f.short, code), "no send site found", f.loc())

    # ------------------------------------------------------------------ G4
    ok4 = False
    for bb, t, c in common.handler_sites(fb, hr):
        if c.get("name") != "get_protocol_features":
            continue
        # find the reply send in this arm: calls after bb whose args mention the handler result
        hcall = mh.sym.call_at(bb)
        for sb, st in hr.calls():
            if sb == bb or not mh.cfg.can_reach(bb, sb):
                continue
            if "GET_PROTOCOL_FEATURES" not in common.arm_codes(mh, sb):
                continue
            args = mh.sym.arg_terms(sb)
            for a in args:
                if any(s == hcall for s in subterms(a)):
                    cname = callee_of(st).get("name")
                    if cname in ("branch", "bitor", "bits", "new", "from_residual"):
                        continue
                    # evaluate the value with the handler result = 0 and = all ones
                    try:
                        env0 = {hcall: 0, ("unwrap", hcall): 0}
                        env1 = {hcall: (1 << 64) - 1, ("unwrap", hcall): (1 << 64) - 1}
                        v0 = Eval(fb, mh.sym, env0).ev(a)
                        v1 = Eval(fb, mh.sym, env1).ev(a)
                    except Undecided as e:
                        continue
                    ra = wire.PROTOCOL_FEATURES["REPLY_ACK"]
                    good = (v0 & ra) != 0 and v1 == (1 << 64) - 1
                    ok4 = True
                    chk.check(good, "G4", tag + "GET_PROTOCOL_FEATURES",
                              "reply value with handler=0 is %#x (REPLY_ACK set), handler bits pass through" % v0,
                              "reply value does not always carry REPLY_ACK or drops handler bits "
                              "(handler=0 -> %#x, handler=all-ones -> %#x)" % (v0, v1),
                              hr.loc(st["line"]))
    if not ok4:
        chk.bad("G4", tag + "GET_PROTOCOL_FEATURES", "could not locate/evaluate the GET_PROTOCOL_FEATURES reply value",
                hr.loc())

    # ------------------------------------------------------------------ G5
    # backend: writes to negotiated-state fields anywhere in the workspace
    role_arm = {"offered_virtio": "GET_FEATURES", "acked_virtio": "SET_FEATURES",
                "acked_proto": "SET_PROTOCOL_FEATURES"}
    inv = {v: k for k, v in be_roles.items()}
    for f in fb.fns.values():
        for w in field_writes(f):
            if not (w["adt"] or "").endswith("::BackendReqHandler"):
                continue
            if w["field"] not in inv:
                continue
            role = inv[w["field"]]
            key = "%sbackend:%s:%s" % (tag, f.short, w["field"])
            if f.key != hr.key:
                chk.bad("G5", key, "negotiated-state field %s written outside the dispatch" % w["field"],
                        f.loc(w["line"]))
                continue
            codes = common.arm_codes(mh, w["bb"])
            rv = mh.sym.rvalue(w["rv"])
            src_ok = True
            if role in ("acked_virtio", "acked_proto"):
                # value must be the request body's value
                src_ok = any(s[0] == "call" and s[1] == "extract_request_body" for s in subterms(rv)) \
                    and not any(s[0] == "bin" for s in subterms(rv))
            chk.check(codes == {role_arm[role]} and src_ok, "G5", key,
                      "written in arm %s from %s" % (sorted(codes), show(rv)[:80]),
                      "field %s (%s) written in arm %s from %s — expected only in %s from the request value"
                      % (w["field"], role, sorted(codes), show(rv)[:120], role_arm[role]), f.loc(w["line"]))
    inv = {v: k for k, v in fe_roles.items()}
    allowed = {"offered_virtio": "get_features", "acked_virtio": "set_features",
               "offered_proto": "get_protocol_features", "acked_proto": "set_protocol_features"}
    for f in fb.fns.values():
        for w in field_writes(f):
            if not (w["adt"] or "").endswith("::FrontendInternal"):
                continue
            if w["field"] not in inv:
                continue
            role = inv[w["field"]]
            key = "%sfrontend:%s:%s" % (tag, f.short, w["field"])
            good = f.self_adt and f.self_adt.endswith("::Frontend") and f.name == allowed[role]
            detail = ""
            if good and role == "acked_virtio":
                # must be masked by the offered set
                m = must_of(fb, f)
                rv = m.sym.rvalue(w["rv"])
                masked = False
                for s in subterms(rv):
                    if s[0] == "bin" and s[1] == "BitAnd":
                        for x in (s[2], s[3]):
                            _, fld = field_of(x)
                            if fld == fe_roles.get("offered_virtio"):
                                masked = True
                # ... and it REPLACES the previous record (a renegotiation can withdraw a feature): the stored value does not
                # read the field it is stored into
                selfref = any(x[0] == "field" and x[2] == w["field"] for x in subterms(rv)) or \
                    any(x[0] == "bin" and x[1] == "BitOr" for x in subterms(rv))
                good = masked and not selfref
                detail = show(rv)[:100]
            if good and role in ("offered_virtio", "offered_proto"):
                # the record of the offer is the last reply, not the union of all replies seen
                m = must_of(fb, f)
                rv = m.sym.rvalue(w["rv"])
                if any(x[0] == "field" and x[2] == w["field"] for x in subterms(rv)) or any(x[0] == "bin" and x[1] == "BitOr" for x in subterms(rv)):
                    good = False
                    detail = "accumulates: " + show(rv)[:80]
            if good and role == "acked_proto":
                # the frontend's record is exactly the set it put on the wire (the request body is features.bits()):
                # a masked or otherwise altered record makes frontend and backend disagree on REPLY_ACK
                m = must_of(fb, f)
                rv = m.sym.rvalue(w["rv"])
                r, _chain = peel(rv, through_calls={"bits"})
                good = r[0] == "param" and r[2] == "features" and not any(x[0] in ("bin", "un") for x in subterms(rv))
                detail = show(rv)[:100]
            chk.check(good, "G5", key, "written only by the negotiation method %s" % detail,
                      "negotiated-state field %s (%s) written by %s %s" % (w["field"], role, f.short, detail),
                      f.loc(w["line"]))
