"""C08 — message framing is independent of stream segmentation; truncation is an error (partial)."""
from spec import wire
from vlint.absint import const_eval
from vlint.cfg import CFG
from vlint.facts import callee_of, resolved, AnchorMissing
from vlint.paths import Summariser, ret_okness
from vlint.terms import show, subterms, peel
from vlint.util import must_of, sites
from . import common, replies, server
from .c06 import payload_framing

EXPLANATION = (
    "Decides the structural clauses of C08: (S1) the send loop continues at the running byte count, attaches "
    "descriptors only to the first chunk (C01/W6), stops on a zero-byte send, re-iterates only on the retry error class, "
    "and every message sender compares the bytes sent with the message's total and reports PartialMessage otherwise; "
    "(S2) the receive loop has the same shape and keeps descriptors only from the first chunk; (S3) the header receiver "
    "classifies 0 bytes as Disconnected, a short header as PartialMessage, an invalid header as InvalidMessage; (S4) the "
    "errno classification table equals the reference; (S5) every read of a request body can span several receives "
    "(it is performed by a looping receiver), and a short body is an error; (S6) reply receivers size the variable part "
    "from the reply's own header."
    " Also: (S2) descriptors are kept only under a zero test of the accumulator of received byte counts; (S3) the completeness comparison covers every fixed-size iovec; (S7) no caller drops a receive's byte count; (S8) a zero-byte receive leaves every receive loop; (S9) all tests of a size against MAX_MSG_SIZE agree on the inclusive bound; (S10) C01/W6; (S11) a clean Disconnected is produced only by the first receive of an endpoint receiver under 0 bytes."
    ' Round 4/5: (S5) header, body, payload and data receivers all sit on the looping receiver; (S2) recv_data stores the next segment at the running total; (S3) every validator a receiver applies has accepted on each Ok path; (S12) C05/V5.')
NOT_DECIDED = ("The iovec offset helper as a numeric function, real partial writes/reads, delays, 'without blocking forever' as a timing claim.")

RAW_SEND = "send_with_fds"
RAW_RECV = "recv_with_fds"


def run(ctx, chk):
    fb = ctx.fb("full")
    chk.explanation = EXPLANATION
    chk.not_decided = NOT_DECIDED
    chk.cfgs["full"] = fb.hashes
    chk.rule("S1", "send loop: offset = running count, zero-byte send terminates, only SocketRetry re-iterates; senders compare count with total")
    chk.rule("S2", "receive loop: same shape; descriptors kept only from the first chunk")
    chk.rule("S7", "the byte count returned by a receive primitive is never discarded by its caller")
    chk.rule("S8", "a receive that returns 0 bytes (end of stream) leaves every receive loop")
    chk.rule("S9", "all tests of a message size against MAX_MSG_SIZE agree on the inclusive bound")
    chk.rule("S11", "a clean `Disconnected` is reported only for 0 bytes at a message boundary")
    chk.rule("S3", "header/body receivers classify 0 bytes / short / invalid correctly")
    chk.rule("S4", "errno -> error class table equals the reference")
    chk.rule("S5", "request bodies are read by a looping receiver; a short body is an error")
    chk.rule("S6", "reply length comes from the reply header")
    loops(fb, chk)
    s3(fb, chk)
    s4(fb, chk)
    s5(fb, chk)
    s6(fb, chk)
    from vlint.report import Renamed as _Renamed
    from . import c01 as _c01
    chk.rule("S10", "descriptors are attached to the first byte only, also when a write is retried or partial (C01/W6)")
    _c01.w6(fb, _Renamed(chk, {"W6": "S10"}))
    s7s8(fb, chk)
    s9(fb, chk)
    s11(fb, chk)
    from . import xlist
    xlist.apply("C08", fb, chk)
    n = lambda r: len([i for i in chk.instances if i[0] == r])
    chk.floor("S1", n("S1"), 7)
    chk.floor("S2", n("S2"), 4)
    chk.floor("S3", n("S3"), 6)
    chk.floor("S4", n("S4"), 8)


def endpoint_fns(fb):
    return {f.name: f for f in fb.find(self_adt="Endpoint") if not f.trait}


def loop_shape(fb, chk, rule, f, inner_name, counter_desc):
    """Common checks for the send / receive loops around one inner call."""
    m = must_of(fb, f)
    cfg = m.cfg
    chk.fn_seen(f)
    ss = sites(f, name=inner_name)
    if len(ss) != 1:
        chk.bad(rule, f.name + ":shape", "expected one %s call in the loop, found %d" % (inner_name, len(ss)), f.loc())
        return None
    bb, t, c = ss[0]
    call = m.sym.call_at(bb)
    chk.check(cfg.in_loop(bb), rule, f.name + ":loops", "the transfer call is inside a loop",
              "%s performs a single %s (no loop): partial transfers are not continued" % (f.short, inner_name), f.loc(t["line"]))
    # offset argument = running count incremented by the call's Ok payload
    offs = sites(f, name="get_sub_iovs_offset")
    ok = False
    if offs:
        a = m.sym.arg_terms(offs[0][0])[1]
        if a[0] == "phi":
            has0 = any(x[0] == "const" and x[1] == 0 for x in a[2])
            inc = any(x[0] == "bin" and x[1] == "Add" and any(server.same_call(s, call) for s in subterms(x) if s[0] == "call") for x in a[2])
            ok = has0 and inc
    chk.check(ok, rule, f.name + ":offset", "next chunk starts at the running byte count (0, then += bytes transferred)",
              "the offset passed to the iovec helper is %s, not the running count of bytes transferred"
              % (show(m.sym.arg_terms(offs[0][0])[1])[:80] if offs else None), f.loc())
    # the loop runs while ANY byte is outstanding: the guard at the transfer is `total - count > 0` (or `!= 0`, or
    # `count < total`), not a larger remainder
    g_ok = False
    for a in m.atoms_at(bb):
        if a[0] != "cmp":
            continue
        l_, r_ = a[2], a[3]
        if a[1] in ("Gt", "Ne") and l_[0] == "bin" and l_[1] == "Sub" and r_[0] == "const" and r_[1] == 0 and \
                any(server.same_call(s_, call) for s_ in subterms(l_[3]) if s_[0] == "call"):
            g_ok = True
        if a[1] == "Ge" and l_[0] == "bin" and l_[1] == "Sub" and r_[0] == "const" and r_[1] == 1:
            g_ok = True
        if a[1] == "Lt" and any(server.same_call(s_, call) for s_ in subterms(l_) if s_[0] == "call") and r_[0] != "const":
            g_ok = True
    chk.check(g_ok, rule, f.name + ":guard", "the loop continues while bytes are outstanding (remaining > 0)",
              "%s: the transfer loop's guard is not `total - transferred > 0`: the loop stops with bytes of the message still outstanding "
              "(e.g. when the last byte arrives in a segment of its own)" % f.short, f.loc(t["line"]))
    # zero-byte transfer terminates: a block with facts ok(call) and payload in {0} that cannot reach the call again
    zero_exit = False
    retry_ok = None
    bad_retry = []
    for bi in range(len(f.blocks)):
        if f.blocks[bi]["cleanup"] or bi not in cfg.live_blocks():
            continue
        atoms = m.atoms_at(bi)
        okc = any((a[0] == "ok" and server.same_call(a[1], call)) or
                  (a[0] == "variant" and not a[3] and set(a[2]) == {"Ok"} and a[1][0] == "call" and server.same_call(a[1], call)) for a in atoms)
        zero = any((a[0] == "in" and not a[3] and a[2] == frozenset([0]) and any(server.same_call(s, call) for s in subterms(a[1]) if s[0] == "call")) or
                   (a[0] == "cmp" and a[1] == "Eq" and a[3][0] == "const" and a[3][1] == 0 and _is_count(a[2], call))
                   for a in atoms)
        if okc and zero and bb not in cfg.reach(bi):
            zero_exit = True
    chk.check(zero_exit, rule, f.name + ":zero", "a zero-byte transfer leaves the loop",
              "%s does not terminate the loop when the transfer returns 0 bytes" % f.short, f.loc())
    # only the retry class continues
    for d in range(len(f.blocks)):
        tt = f.blocks[d]["term"]
        if tt["k"] != "switch" or d not in cfg.live_blocks():
            continue
        for s in cfg.succ[d]:
            atoms = m.edge_atoms(d, s)
            for a in atoms:
                if a[0] == "variant" and any(server.same_call(x, call) for x in subterms(a[1]) if x[0] == "call") \
                        and any("Socket" in str(nm) for nm in a[2]) or (a[0] == "variant" and a[3] and any(server.same_call(x, call) for x in subterms(a[1]) if x[0] == "call")):
                    continues = bb in cfg.reach(s, removed={d})
                    names = set(a[2])
                    if continues:
                        if a[3] or names != {"SocketRetry"}:
                            bad_retry.append("%s%s" % ("not " if a[3] else "", sorted(names)))
                        else:
                            retry_ok = True
                            # ... and the retry is unconditional: once the error is known to be of the retry class, no
                            # path returns without trying again (whether or not part of the message was already transferred)
                            heads_ = {h_ for (t_, h_) in cfg.back_edges() if bb in cfg.reach(h_) and h_ in cfg.reach(bb)}
                            if cfg.reach(s, removed=heads_ | {bb}) & set(cfg.returns):
                                bad_retry.append("SocketRetry is given up on some path (returned instead of retried)")
    # every way back to the call from the Err edge passes an error-class switch
    chk.check(retry_ok and not bad_retry, rule, f.name + ":retry", "only the SocketRetry class re-iterates; other errors return",
              "%s re-iterates the loop for error classes %s (only SocketRetry may be retried)" % (f.short, bad_retry or "none found"), f.loc())
    return m, bb, call


RECV_PRIMS = ("recv_with_fds", "recv_into_iovec", "recv_into_iovec_all", "recv_data", "recv_into_bufs")


def recv_sites(fb):
    """(fn, bb, call terminator, callee) for every call of a receive primitive that returns a byte count first."""
    out = []
    for f in fb.fns.values():
        if f.crate != "vhost" or "vhost_user" not in (f.file or "") or "/tests" in (f.file or ""):
            continue
        if f.rec.get("test"):
            continue
        for bb, t in f.calls():
            c = callee_of(t)
            if c is None or c.get("name") not in RECV_PRIMS:
                continue
            dty = t.get("dty") or ""
            if "(usize," not in dty.replace(" ", "")[:80] and not dty.replace(" ", "").startswith("std::result::Result<(usize,"):
                continue
            out.append((f, bb, t, c))
    return out


def _payload_of(term, call):
    """term is `call` possibly under unwrap / `?` payload projections."""
    t = term
    for _ in range(6):
        if t[0] == "call" and server.same_call(t, call):
            return True
        if t[0] in ("unwrap", "down", "deref", "ref") or (t[0] == "field" and t[2] in ("0",) and t[1][0] in ("down",)):
            t = t[1]
            continue
        if t[0] == "call" and t[1] in ("map_err", "or_else") and len(t[2]) == 2:
            t = t[2][0]          # the Ok payload passes through unchanged
            continue
        return False
    return False


def _ok_payloads(t):
    """The payload term(s) of `x?` / `x.unwrap()` when x is (a merge containing) an `Ok(v)` / `Some(v)` built in this body."""
    if t[0] == "field" and t[2] == "0" and t[1][0] == "down" and t[1][2] in ("Ok", "Some"):
        x = t[1][1]
    elif t[0] == "unwrap":
        x = t[1]
    else:
        return []
    while x[0] in ("ref", "deref"):
        x = x[1]
    alts = x[2] if x[0] == "phi" else [x]
    return [a[3][0][1] for a in alts if a[0] == "agg" and a[2] in ("Ok", "Some") and len(a[3]) == 1]


def count_uses(f, m, bb):
    """Blocks/terms where the count component (.0) of the receive at bb is read."""
    call = m.sym.call_at(bb)
    uses = []
    for l in range(len(f.locals)):
        for d in m.sym.defs.get(l, []):
            if d[0] != "assign":
                continue
            try:
                t = m.sym.rvalue(d[3])
            except RecursionError:
                continue
            if _is_count(t, call):
                uses.append((l, d[1], t))
    return call, uses


def s7s8(fb, chk):
    recv_data_result(fb, chk)
    rs = recv_sites(fb)
    n7 = n8 = 0
    for f, bb, t, c in rs:
        if f.name in ("recv_into_iovec",) and c.get("name") == "recv_with_fds" and False:
            continue
        m = must_of(fb, f)
        call, uses = count_uses(f, m, bb)
        key = "%s:%s" % (f.short, c.get("name"))
        n7 += 1
        chk.check(bool(uses), "S7", key, "count component read by the caller",
                  "%s drops the number of bytes received by %s (a short read can no longer be told from a complete one)"
                  % (f.short, c.get("name")), f.loc(t["line"]))
        # S8: receive inside a loop
        cfg = m.cfg
        inloop = None
        for (tail, head) in cfg.back_edges():
            body = {head, tail}
            work = [tail]
            while work:
                x = work.pop()
                if x == head:
                    continue
                for p_ in cfg.pred[x]:
                    if p_ not in body:
                        body.add(p_)
                        work.append(p_)
            if bb in body and (inloop is None or len(body) < len(inloop[1])):
                inloop = (head, body)
        if inloop is not None:
            # one loop may have several back edges (`continue` on retry, the normal end of the body): its body is their union
            hd = inloop[0]
            merged = set(inloop[1])
            for (tail, head) in cfg.back_edges():
                if head != hd:
                    continue
                body = {head, tail}
                work = [tail]
                while work:
                    x = work.pop()
                    if x == head:
                        continue
                    for p_ in cfg.pred[x]:
                        if p_ not in body:
                            body.add(p_)
                            work.append(p_)
                merged |= body
            inloop = (hd, merged)
        if inloop is None:
            continue
        head, body = inloop
        n8 += 1
        cl = {l for l, _b, _t in uses}
        found = False
        bad = []
        for d in sorted(body):
            term = cfg.blocks[d]["term"]
            if term["k"] != "switch":
                continue
            for sx in cfg.succ[d]:
                atoms = m.edge_atoms(d, sx)
                z = False
                for a in atoms:
                    if a[0] == "cmp" and a[1] == "Eq" and a[3][0] == "const" and a[3][1] == 0 and _is_count(a[2], call):
                        z = True
                    if a[0] == "in" and not a[3] and set(a[2]) == {0} and _is_count(a[1], call):
                        z = True
                if not z:
                    continue
                found = True
                # from sx the loop head must not be reachable inside the loop
                inside = cfg.reach(sx, removed=set(range(len(cfg.blocks))) - body) | {sx}
                if sx in body and head in inside:
                    bad.append(d)
        chk.check(found and not bad, "S8", key, "0 bytes => the loop is left",
                  "%s: after %s returned 0 bytes the receive loop %s (the stream has ended: iterating again never terminates)"
                  % (f.short, c.get("name"), "can be re-entered" if found else "has no zero-byte test"), f.loc(t["line"]))
    chk.floor("S7", n7, 4)
    chk.floor("S8", n8, 2)


def s9(fb, chk):
    """Sibling agreement on the message-size bound: every test of a size against MAX_MSG_SIZE in the vhost-user modules
    accepts `size <= MAX_MSG_SIZE` (the specification's inclusive 4096).  A strict test at one site rejects what the
    other sites of the same transaction accepted (e.g. the reply pre-check refusing a request that was already sent)."""
    n = 0
    for f in fb.fns.values():
        if f.crate != "vhost" or "vhost_user" not in (f.file or "") or f.rec.get("dk") == "Closure":
            continue
        if "::tests::" in f.key or "dummy" in (f.file or ""):
            continue
        m = None
        seen = set()
        for d, b in enumerate(f.blocks):
            if b["cleanup"] or b["term"]["k"] != "switch":
                continue
            m = m or must_of(fb, f)
            for sx in m.cfg.succ[d]:
                for a in m.edge_atoms(d, sx):
                    if a[0] != "cmp":
                        continue
                    for op, x, y in ((a[1], a[2], a[3]), ({"Lt": "Gt", "Gt": "Lt", "Le": "Ge", "Ge": "Le", "Eq": "Eq", "Ne": "Ne"}[a[1]], a[3], a[2])):
                        if y[0] == "cname" and y[1].endswith("MAX_MSG_SIZE"):
                            k = (d, show(x)[:60])
                            if k in seen:
                                continue
                            seen.add(k)
                            n += 1
                            ok = op in ("Le", "Gt")
                            chk.check(ok, "S9", "%s:%s" % (f.short, show(x)[:40]), "inclusive bound (<= MAX_MSG_SIZE accepted)",
                                      "%s tests %s %s MAX_MSG_SIZE: every other site accepts sizes up to and including "
                                      "MAX_MSG_SIZE, this one treats exactly MAX_MSG_SIZE differently (a message the peer or an "
                                      "earlier step accepted is refused here)" % (f.short, show(x)[:50], op), f.loc(b["term"].get("line")))
    chk.floor("S9", n, 12)


def fd_bound(fb, chk):
    """Sibling agreement on the descriptor-count bound: every test of a count against MAX_ATTACHED_FD_ENTRIES in the
    vhost-user modules accepts `count <= MAX_ATTACHED_FD_ENTRIES` (the specification allows 32 descriptors / regions
    per message).  A strict test at one site refuses a conformant message the other sites accept."""
    n = 0
    for f in fb.fns.values():
        if f.crate != "vhost" or "vhost_user" not in (f.file or "") or f.rec.get("dk") == "Closure":
            continue
        if "::tests::" in f.key or "dummy" in (f.file or ""):
            continue
        m = None
        seen = set()
        for d, b in enumerate(f.blocks):
            if b["cleanup"] or b["term"]["k"] != "switch":
                continue
            m = m or must_of(fb, f)
            for sx in m.cfg.succ[d]:
                for a in m.edge_atoms(d, sx):
                    if a[0] != "cmp":
                        continue
                    for op, x, y in ((a[1], a[2], a[3]), ({"Lt": "Gt", "Gt": "Lt", "Le": "Ge", "Ge": "Le", "Eq": "Eq", "Ne": "Ne"}[a[1]], a[3], a[2])):
                        if y[0] == "cname" and y[1].endswith("MAX_ATTACHED_FD_ENTRIES"):
                            k = (d, show(x)[:60])
                            if k in seen:
                                continue
                            seen.add(k)
                            n += 1
                            chk.check(op in ("Le", "Gt"), "S14", "%s:%s" % (f.short, show(x)[:40]), "inclusive bound (<= MAX_ATTACHED_FD_ENTRIES accepted)",
                                      "%s tests %s %s MAX_ATTACHED_FD_ENTRIES: the specification allows up to and including "
                                      "MAX_ATTACHED_FD_ENTRIES descriptors / regions; this site treats exactly that count differently "
                                      "(a conformant message is refused here)" % (f.short, show(x)[:50], op), f.loc(b["term"].get("line")))
    chk.floor("S14", n, 3)


def _err_wrap_blocks(f, lhs):
    """Blocks where the local assigned by `lhs` (followed through plain moves) is wrapped into `Err(..)`."""
    if lhs["p"]:
        return []
    locs = {lhs["l"]}
    out = []
    for _ in range(4):
        grew = False
        for bi, b in enumerate(f.blocks):
            if b["cleanup"]:
                continue
            for st in b["stmts"]:
                if st["k"] != "assign":
                    continue
                rv = st["rv"]
                if rv["k"] == "use" and rv["op"]["k"] in ("copy", "move") and not rv["op"]["pl"]["p"] and rv["op"]["pl"]["l"] in locs \
                        and not st["lhs"]["p"] and st["lhs"]["l"] not in locs:
                    locs.add(st["lhs"]["l"])
                    grew = True
                if rv["k"] == "agg" and rv.get("variant") == "Err" and any(o["k"] in ("copy", "move") and not o["pl"]["p"] and o["pl"]["l"] in locs
                                                                          for o in rv["ops"]):
                    if bi not in out:
                        out.append(bi)
        if not grew:
            break
    return out


def s11(fb, chk):
    """`Disconnected` means: the stream ended exactly at a message boundary.  It may be produced only by a message-level
    receiver of the endpoint, for a receive that is the first one of that function, under the fact `0 bytes`."""
    n = 0
    for f in fb.fns.values():
        if f.crate != "vhost" or "vhost_user" not in (f.file or "") or "::tests::" in f.key:
            continue
        m = None
        for bi, b in enumerate(f.blocks):
            if b["cleanup"]:
                continue
            for st in b["stmts"]:
                if not (st["k"] == "assign" and st["rv"]["k"] == "agg" and st["rv"].get("variant") == "Disconnected"
                        and (st["rv"].get("adt") or "").endswith("vhost_user::Error")):
                    continue
                if f.name in ("fmt", "should_reconnect", "clone", "eq") or (f.trait or "").endswith(("Display", "Debug", "From")):
                    continue
                n += 1
                m = m or must_of(fb, f)
                # the point where the value becomes the function's error result: the `Err(..)` it is wrapped into (the value
                # may be built ahead of the test, e.g. as the argument of an `ensure(cond, err)?` helper)
                use_blocks = _err_wrap_blocks(f, st["lhs"]) or [bi]
                atoms = None
                for ub in use_blocks:
                    au = m.atoms_at(ub)
                    atoms = au if atoms is None else [a for a in atoms if a in au]
                recvs = [(bb, t, c) for bb, t, c in sites(f, name=set(RECV_PRIMS))]
                dom = m.cfg.dominators()
                ok = False
                why = "not guarded by `0 bytes received`"
                for bb, t, c in recvs:
                    call = m.sym.call_at(bb)
                    zero = any((a[0] == "cmp" and a[1] == "Eq" and a[3][0] == "const" and a[3][1] == 0 and _is_count(a[2], call)) or
                               (a[0] == "in" and not a[3] and set(a[2]) == {0} and _is_count(a[1], call)) for a in atoms)
                    if not zero:
                        continue
                    first = not any(b2 != bb and b2 in dom.get(bb, ()) for b2, _t, _c in recvs)
                    endpoint = (f.self_adt or "").endswith("::Endpoint")
                    if first and endpoint:
                        ok = True
                    else:
                        why = "the zero-byte receive is not the first receive of a message-level endpoint receiver (%s)" % f.short
                chk.check(ok, "S11", "%s" % f.short, "Disconnected <= first receive of a message returned 0 bytes",
                          "%s reports a clean disconnect %s: a stream that ends inside a message would be reported as "
                          "a clean disconnect instead of an error" % (f.short, why), f.loc(st.get("line")))
    chk.floor("S11", n, 1)


def _is_count(t, call, depth=0):
    while t[0] == "cast":
        t = t[1]
    if t[0] == "field" and t[2] == "0" and _payload_of(t[1], call):
        return True
    # the count handed on through `Ok(count)` by an expanded helper and taken out again with `?`
    return depth < 3 and any(_is_count(p, call, depth + 1) for p in _ok_payloads(t))


def _accumulates(m, term, call):
    """term is a local that is (re)defined by adding the byte count returned by `call` to itself."""
    if term[0] != "phi":
        return False
    for d in m.sym.defs.get(term[1], []):
        if d[0] != "assign":
            continue
        rv = d[3]
        t = m.sym.rvalue(rv)
        # (count, overflow) tuples of checked adds appear as bin Add / AddWithOverflow .0
        for s in subterms(t):
            if s[0] == "bin" and s[1] in ("Add", "AddWithOverflow"):
                if any(server.same_call(x, call) for side in (s[2], s[3]) for x in subterms(side) if x[0] == "call"):
                    return True
    return False


def recv_data_offset(fb, chk):
    """Endpoint::recv_data reassembles a body in its own loop: the position the next segment is stored at (the slice start
    and the remaining length of the iovec) is the running total of the bytes received so far (0, then += count)."""
    ep = endpoint_fns(fb)
    f = ep.get("recv_data")
    if f is None:
        return
    from .c05 import iovec_extent
    from vlint.must import Must
    m = Must(f, fb)     # a fresh evaluation: the loop-carried offset must not be read through another rule's partial memo
    rs = [(bb, t, c) for bb, t, c in sites(f, name=set(RECV_PRIMS))]
    if len(rs) != 1:
        return
    call = m.sym.call_at(rs[0][0])
    for bi, b in enumerate(f.blocks):
        if b["cleanup"]:
            continue
        for st in b["stmts"]:
            if st["k"] == "assign" and st["rv"]["k"] == "agg" and st["rv"].get("ak") == "adt" and st["rv"]["adt"].endswith("iovec"):
                v = m.sym.rvalue(st["rv"])
                ext = iovec_extent(dict(v[3]).get("iov_base"))
                off = ext[1][1] if ext and ext[0] in ("minus", "lenminus") else None
                ok = off is not None and _accumulates(m, off, call)
                chk.check(ok, "S2", "recv_data:offset", "next segment stored at the running byte count (0, then += bytes received)",
                          "Endpoint::recv_data stores the next segment at `%s`, which is not the running total of the bytes received so far: "
                          "a body arriving in several segments is overwritten / never completes" % (show(off)[:60] if off else None),
                          f.loc(st.get("line")))


def recv_data_result(fb, chk):
    """Endpoint::recv_data reports the number of bytes it actually received (the running total), not the number asked for."""
    ep = endpoint_fns(fb)
    f = ep.get("recv_data")
    if f is None:
        return
    from vlint.must import Must
    m = Must(f, fb)
    rs = [(bb, t, c) for bb, t, c in sites(f, name=set(RECV_PRIMS))]
    if len(rs) != 1:
        return
    call = m.sym.call_at(rs[0][0])
    ret = m.sym.local(0)
    alts = ret[2] if ret[0] == "phi" else [ret]
    oks = [a for a in alts if a[0] == "agg" and a[2] == "Ok" and a[3]]
    good = bool(oks)
    shown = None
    for a in oks:
        tup = a[3][0][1]
        cnt = tup[1][0] if tup[0] == "tuple" and tup[1] else None
        shown = show(cnt)[:60] if cnt else None
        if cnt is None or not _accumulates(m, cnt, call):
            good = False
    chk.check(good, "S7", "recv_data:result", "returns the running total of bytes received",
              "Endpoint::recv_data returns `%s` as the number of bytes received, not the total it actually read: a body cut short by the "
              "peer is reported as complete" % shown, f.loc())


def loops(fb, chk):
    recv_data_offset(fb, chk)
    ep = endpoint_fns(fb)
    f = ep.get("send_iovec_all")
    if f is None:
        chk.anchor_missing("S1", "Endpoint::send_iovec_all")
    else:
        loop_shape(fb, chk, "S1", f, "send_iovec", "data_sent")
    g = ep.get("recv_into_iovec_all")
    if g is None:
        chk.anchor_missing("S2", "Endpoint::recv_into_iovec_all")
    else:
        r = loop_shape(fb, chk, "S2", g, "recv_into_iovec", "data_read")
        if r:
            m, bb, call = r
            # descriptors kept only from the first chunk: the files local is assigned from the call's
            # payload only under `bytes read so far == 0`
            good = False
            detail = ""
            for l, ds in m.sym.defs.items():
                if "Vec<std::fs::File>" not in g.locals[l]["ty"] or len(ds) < 2:
                    continue
                for d in ds:
                    term = m.sym._def_term(d, 0, ())
                    if any(server.same_call(s, call) for s in subterms(term) if s[0] == "call"):
                        atoms = m.atoms_at(d[1])
                        z = [a for a in atoms if a[0] == "cmp" and a[1] == "Eq" and a[3][0] == "const" and a[3][1] == 0]
                        # the tested quantity must be the running byte count: the local that accumulates the
                        # byte counts returned by the receive call (not a chunk index or any other counter)
                        zc = [a for a in z if _accumulates(m, a[2], call)]
                        if zc:
                            good = True
                            detail = "files assigned under %s == 0" % [show(a[2])[:40] for a in zc]
                        elif not good:
                            detail = "files assigned without a zero test on the running byte count" + \
                                (" (tested instead: %s)" % [show(a[2])[:40] for a in z] if z else "")
            chk.check(good, "S2", "recv_into_iovec_all:fds", detail or "descriptors kept only when nothing was read before",
                      "descriptors of later chunks can replace those of the first chunk (%s)" % detail, g.loc())
    # senders compare the count with the total
    summ = Summariser(fb, no_inline=lambda h: True)
    for name, parts in (("send_header", 1), ("send_message", 2), ("send_message_with_payload", 3)):
        h = ep.get(name)
        if h is None:
            chk.anchor_missing("S1", "Endpoint::" + name)
            continue
        chk.fn_seen(h)
        outs, sym = summ.paths(h)
        probs = set()
        nok = 0
        for o in outs:
            if o.ret is None or ret_okness(o.ret) is not True:
                continue
            nok += 1
            eq = None
            for a in o.atoms:
                if a[0] == "cmp" and a[1] == "Eq" and "send_iovec_all" in show(a[2]):
                    eq = a[3]
            if eq is None:
                probs.add("Ok without comparing the bytes sent with the message total")
                continue
            nsize = len([s for s in subterms(eq) if s[0] == "call" and s[1] == "size_of"])
            haslen = any(s[0] == "call" and s[1] == "len" for s in subterms(eq))
            if name == "send_header" and nsize != 1:
                probs.add("total is %s" % show(eq)[:60])
            if name == "send_message" and nsize != 2:
                probs.add("total is %s" % show(eq)[:60])
            if name == "send_message_with_payload" and not (nsize == 2 and haslen):
                probs.add("total is %s" % show(eq)[:60])
        # the error for a short count is PartialMessage
        partial = any(o.ret is not None and "PartialMessage" in show(o.ret) for o in outs)
        chk.check(not probs and nok >= 1 and partial, "S1", name + ":total", "Ok only if bytes sent == header + body (+ payload); else PartialMessage",
                  "%s: %s%s" % (h.short, "; ".join(sorted(probs)), "" if partial else "; short count is not reported as PartialMessage"), h.loc())


def s3(fb, chk):
    ep = endpoint_fns(fb)
    summ = Summariser(fb, no_inline=lambda h: True)
    f = ep.get("recv_header")
    if f is None:
        chk.anchor_missing("S3", "Endpoint::recv_header")
        return
    chk.fn_seen(f)
    outs, sym = summ.paths(f)
    cls = {}
    for o in outs:
        if o.ret is None:
            continue
        r = show(o.ret)
        bytes_eq0 = any(a[0] == "cmp" and a[1] == "Eq" and const_eval(fb, sym, a[3]) == 0 and "recv_into_iovec_all" in show(a[2]) for a in o.atoms)
        bytes_ne0 = any(a[0] == "cmp" and a[1] == "Ne" and const_eval(fb, sym, a[3]) == 0 and "recv_into_iovec_all" in show(a[2]) for a in o.atoms)
        full = any(a[0] == "cmp" and a[1] == "Eq" and "size_of()" in show(a[3]) and "recv_into_iovec_all" in show(a[2]) for a in o.atoms)
        short = any(a[0] == "cmp" and a[1] == "Ne" and "size_of()" in show(a[3]) and "recv_into_iovec_all" in show(a[2]) for a in o.atoms)
        valid = any(a[0] == "true" and a[1][0] == "call" and a[1][1] == "is_valid" for a in o.atoms)
        invalid = any(a[0] == "false" and a[1][0] == "call" and a[1][1] == "is_valid" for a in o.atoms)
        for name in ("Disconnected", "PartialMessage", "InvalidMessage"):
            if "Error::" + name in r:
                cls.setdefault(name, []).append((bytes_eq0, bytes_ne0, full, short, valid, invalid))
        if ret_okness(o.ret) is True:
            cls.setdefault("Ok", []).append((bytes_eq0, bytes_ne0, full, short, valid, invalid))
    chk.check(cls.get("Disconnected") and all(x[0] for x in cls["Disconnected"]), "S3", "recv_header:Disconnected", "Disconnected <= 0 bytes",
              "Disconnected is returned on paths %s (must be exactly: 0 bytes received)" % cls.get("Disconnected"), f.loc())
    chk.check(cls.get("PartialMessage") and all(x[1] and x[3] for x in cls["PartialMessage"]), "S3", "recv_header:PartialMessage",
              "PartialMessage <= 0 < bytes != header size", "PartialMessage is returned on paths %s" % cls.get("PartialMessage"), f.loc())
    chk.check(cls.get("InvalidMessage") and all(x[2] and x[5] for x in cls["InvalidMessage"]), "S3", "recv_header:InvalidMessage",
              "InvalidMessage <= full header that fails validation", "InvalidMessage is returned on paths %s" % cls.get("InvalidMessage"), f.loc())
    chk.check(cls.get("Ok") and all(x[2] and x[4] and not x[0] for x in cls["Ok"]), "S3", "recv_header:Ok",
              "Ok <= full, valid header", "Ok is returned on paths %s" % cls.get("Ok"), f.loc())
    for name in ("recv_body", "recv_payload_into_buf", "recv_body_into_buf"):
        g = ep.get(name)
        if g is None:
            continue
        chk.fn_seen(g)
        outs, sym = summ.paths(g)
        okp = [o for o in outs if o.ret is not None and ret_okness(o.ret) is True]
        good = bool(okp)
        # the typed parts of the message (header, fixed body) are described by iovecs of length size_of::<X>(): all of
        # them must have arrived in full before the message is accepted
        gm = must_of(fb, g)
        nfixed = 0
        for bb, t, c in sites(g, name="recv_into_iovec_all"):
            arr = gm.sym.arg_terms(bb)[1]
            nfixed = len({s_ for s_ in subterms(arr) if s_[0] == "call" and s_[1] == "size_of"})
        for o in okp:
            full = any(a[0] == "cmp" and a[1] in ("Eq", "Ge") and "recv_into_iovec_all" in show(a[2])
                       and len([s_ for s_ in subterms(a[3]) if s_[0] == "call" and s_[1] == "size_of"]) >= max(1, nfixed) for a in o.atoms)
            valid = any(a[0] == "true" and a[1][0] == "call" and a[1][1] == "is_valid" for a in o.atoms)
            # every validator the receiver applies (header, body) has accepted: none of them is merely "one of"
            nval = len({a[1] for a in o.atoms if a[0] == "true" and a[1][0] == "call" and a[1][1] == "is_valid"})
            if nval < len(sites(g, name="is_valid")):
                valid = False
            if not (full and valid):
                good = False
        partial = any(o.ret is not None and "PartialMessage" in show(o.ret) for o in outs)
        chk.check(good and partial, "S3", name + ":classification", "Ok only for a complete, valid message; short count -> PartialMessage",
                  "%s accepts an incomplete or unvalidated message, or does not report PartialMessage" % g.short, g.loc())


def s4(fb, chk):
    fs = [x for x in fb.find(name="from") if (x.self_ty or "").endswith("vhost_user::Error") and "errno" in str(x.rec.get("sig_in"))]
    if len(fs) != 1:
        chk.anchor_missing("S4", "From<errno::Error> for vhost_user::Error")
        return
    f = fs[0]
    chk.fn_seen(f)
    summ = Summariser(fb, no_inline=lambda h: True)
    outs, sym = summ.paths(f)
    table = {}
    default = None
    for o in outs:
        r = o.ret
        var = r[2] if r and r[0] == "agg" else None
        for a in o.atoms:
            if a[0] == "in" and "errno(" in show(a[1]):
                if a[3]:
                    default = var
                else:
                    for v in a[2]:
                        table[v] = var
    want = {}
    for name, cls in wire.ERRNO_CLASS.items():
        want[wire.ERRNO_VALUES[name]] = cls
    for v, cls in sorted(want.items()):
        chk.check(table.get(v) == cls, "S4", "errno:%d" % v, "errno %d -> %s" % (v, cls),
                  "errno %d is classified as %s; the transport needs %s" % (v, table.get(v, default), cls), f.loc())
    extra = {v: c for v, c in table.items() if v not in want}
    chk.check(not extra and default == "SocketError", "S4", "errno:default", "every other errno -> SocketError",
              "unexpected errno classes %s / default %s" % (extra, default), f.loc())


def s5(fb, chk):
    ep = endpoint_fns(fb)
    looping = set()
    for name, f in ep.items():
        cfg = CFG(f)
        raw = [bb for bb, t in f.calls() if (callee_of(t) or {}).get("name") in (RAW_RECV,)]
        inner = [bb for bb, t in f.calls() if (callee_of(t) or {}).get("name") == "recv_into_iovec"]
        if any(cfg.in_loop(b) for b in raw + inner):
            looping.add(f.key)
    # transitive: functions that delegate their receive to a looping receiver
    changed = True
    while changed:
        changed = False
        for name, f in ep.items():
            if f.key in looping:
                continue
            calls = [resolved(callee_of(t))["key"] for bb, t in f.calls() if callee_of(t)]
            raw = [1 for bb, t in f.calls() if (callee_of(t) or {}).get("name") == RAW_RECV]
            if not raw and any(k in looping for k in calls):
                looping.add(f.key)
                changed = True
    # every receiver of a message part (header, body, payload) reassembles segments: a reply or request that the transport
    # delivers in several pieces is still one message
    for name in ("recv_header", "recv_body", "recv_body_into_buf", "recv_payload", "recv_payload_into_buf", "recv_data"):
        f = ep.get(name)
        if f is None:
            continue
        chk.check(f.key in looping, "S5", "part-receiver:" + name, "%s receives through a looping receiver" % name,
                  "Endpoint::%s reads its part of the message with a single receive: a well-formed message delivered in two "
                  "segments is rejected (PartialMessage / InvalidMessage)" % name, f.loc())
    for srv in ("BackendReqHandler", "FrontendReqHandler"):
        hr = common.dispatch_fn(fb, srv)
        m = must_of(fb, hr)
        chk.fn_seen(hr)
        body_reads = [(bb, t, c) for bb, t, c in sites(hr, self_adt="Endpoint") if c["name"].startswith("recv") and c["name"] != "recv_header"]
        if not body_reads:
            chk.bad("S5", srv + ":body-read", "no body receive found", hr.loc())
        for bb, t, c in body_reads:
            k = resolved(c)["key"]
            chk.check(k in looping, "S5", "%s:body-reassembly" % srv, "body read by a looping receiver (%s)" % c["name"],
                      "%s reads the request body with %s, a single receive: a body that the transport delivers in two segments is "
                      "rejected as InvalidMessage although it is well-formed" % (hr.short, c["name"]), hr.loc(t["line"]))
            # a short body is an error: the Ok continuation carries bytes == requested length
            nxt = None
            tie = False
            for bi in range(len(hr.blocks)):
                for a in m.atoms_at(bi) if bi in m.cfg.live_blocks() and bb in m.cfg.dominators().get(bi, ()) else []:
                    if a[0] == "cmp" and a[1] == "Eq" and c["name"] in show(a[2]) and "get_size" in show(a[3]):
                        tie = True
                if tie:
                    break
            chk.check(tie, "S5", "%s:short-body" % srv, "dispatch continues only when bytes received == hdr.size",
                      "%s continues with a short body" % hr.short, hr.loc(t["line"]))


def s6(fb, chk):
    n = 0
    for f, sends in replies.receivers(fb):
        if sends:
            continue
        outs, sym, summ = replies.summarise_receiver(fb, f)
        probs = set()
        variable = False
        for o in outs:
            if o.cut or o.ret is None or ret_okness(o.ret) is False:
                continue
            rc = replies.did_receive(o)
            if rc is None:
                continue
            if rc[1] == "recv_payload_into_buf" or any(a[0] == "ok" and a[1][0] == "call" and a[1][1] in ("recv_payload", "recv_data") for a in o.atoms):
                variable = True
            probs |= set(payload_framing(o, rc))
        if variable:
            n += 1
            chk.check(not probs, "S6", "framing:%s" % f.short, "variable part sized from the reply's own header",
                      "%s: %s" % (f.short, "; ".join(sorted(probs))), f.loc())
    chk.floor("S6", n, 1)
