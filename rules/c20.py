"""C20 — message validators accept exactly the protocol-valid encodings."""
from spec import wire, validity
from vlint.facts import AnchorMissing
from vlint.paths import Summariser, TooManyPaths
from vlint.region import Lits, compare, CannotDecide, show_dnf
from . import common

EXPLANATION = (
    "Decides the property itself for the predicate fragment the validators use: every "
    "VhostUserMsgValidator::is_valid (with the helpers it calls inlined) is loop-free and touches its "
    "operand only through comparisons, masks, checked additions and membership tests against "
    "constants, so its accept set is a finite union of boxes. The check enumerates every CFG path "
    "returning true, turns the accumulated branch conditions into literals over the struct's fields "
    "and compares the resulting predicate with a reference predicate written from the protocol "
    "rules (spec/validity.py) on an abstract partition of the value space that is exact for this "
    "fragment (interval endpoints, mask bit classes, wrap/no-wrap and opaque third-party booleans). "
    "A validator using an operation outside the fragment is reported as undecidable (fail closed).")
NOT_DECIDED = "Nothing within the fragment; third-party predicates (Uuid::is_nil/is_max, xen flag validity) are opaque booleans."


def validators(fb):
    """(spec name, rust short name, impl record) for every VhostUserMsgValidator impl."""
    out = []
    for i in fb.impls:
        if not (i.get("trait") or "").endswith("::VhostUserMsgValidator"):
            continue
        adt = i.get("self_adt")
        if not adt:
            continue
        out.append((adt.split("::")[-1], adt, i))
    return out


def default_is_valid(fb):
    for f in fb.find(name="is_valid"):
        if f.rec.get("trait_decl") and (f.trait or "").endswith("::VhostUserMsgValidator"):
            return f
    return None


def program_dnf(fb, summ, fn):
    outs, sym = summ.summarise(fn)
    lits = Lits(fb, sym)
    dnf = []
    for o in outs:
        if o.cut:
            raise CannotDecide("loop in validator")
        if o.ret is None or o.ret[0] != "bool":
            raise CannotDecide("validator path with undecided result: %r" % (o.ret,))
        if o.ret[1]:
            dnf.append(lits.conj(o.atoms))
    return dnf, len(outs)


def run(ctx, chk):
    fb = ctx.fb("full")
    chk.explanation = EXPLANATION
    chk.not_decided = NOT_DECIDED
    chk.cfgs["full"] = fb.hashes
    chk.rule("X1", "every wire type with protocol constraints overrides is_valid (no accept-all default); "
                   "every type decoded from the wire is in the table")
    chk.rule("X2", "the validator's accept region equals the reference region exactly")
    run_on(fb, chk, validity.VALID)
    from . import xlist
    xlist.apply("C20", fb, chk)
    n = lambda r: len([i for i in chk.instances if i[0] == r])
    chk.floor("X2", n("X2"), 26)
    chk.extra["exhaustive"] = True


def thorough(ctx, chk):
    fbx = ctx.fb("xen")
    chk.cfgs["xen"] = fbx.hashes
    ref = dict(validity.VALID)
    ref["memory_region"] = validity.xen_region()
    ref["single_memory_region"] = validity.xen_region("region.")
    run_on(fbx, chk, ref, tag="xen/")
    fbb = ctx.fb("base")
    chk.cfgs["base"] = fbb.hashes
    run_on(fbb, chk, validity.VALID, tag="base/")


def run_on(fb, chk, VALID, tag=""):
    dflt = default_is_valid(fb)
    if dflt is None:
        chk.anchor_missing("X1", tag + "VhostUserMsgValidator::is_valid (default)")
    req_enums = {"FrontendReq": "vhost::vhost_user::message::FrontendReq",
                 "BackendReq": "vhost::vhost_user::message::BackendReq",
                 "GpuBackendReq": "vhost::vhost_user::gpu_message::GpuBackendReq"}
    seen = set()
    for short, adt, impl in validators(fb):
        inherited = "is_valid" in (impl.get("inherited") or [])
        loc = "%s:%s" % (impl["file"], impl["line"])
        insts = []
        if short == "VhostUserMsgHeader":
            for rn in ("FrontendReq", "BackendReq"):
                codes = set(fb.enum_discriminants("message::" + rn).values())
                insts.append(("%s<%s>" % (short, rn), validity.header(
                    set((wire.FRONTEND_REQ if rn == "FrontendReq" else wire.BACKEND_REQ).values())),
                    {"T": req_enums[rn], "R": req_enums[rn]}))
        elif short == "VhostUserGpuMsgHeader":
            insts.append(("%s<GpuBackendReq>" % short, validity.gpu_header(set(wire.GPU_REQ.values())),
                          {"T": req_enums["GpuBackendReq"], "R": req_enums["GpuBackendReq"]}))
        else:
            spec = wire.SPEC_NAME.get(short)
            if spec is None or spec not in VALID:
                chk.bad("X1", tag + short, "validator for %s: type has no row in the validity table" % short, loc)
                continue
            insts.append((short, VALID[spec], {}))
        for name, ref, tys in insts:
            seen.add(name)
            constrained = ref != validity.TRUE
            if constrained:
                chk.check(not inherited, "X1", tag + name, "overrides is_valid",
                          "%s is held to protocol validity rules but uses the accept-all default "
                          "validator (no is_valid override)" % name, loc)
            if inherited:
                fn = dflt
            else:
                fs = [f for f in fb.find(name="is_valid", self_adt=adt)
                      if (f.trait or "").endswith("::VhostUserMsgValidator")]
                if len(fs) != 1:
                    chk.bad("X2", tag + name, "is_valid implementation not found", loc)
                    continue
                fn = fs[0]
            chk.fn_seen(fn)
            summ = Summariser(fb, tysubst=tys)
            try:
                dnf, npaths = program_dnf(fb, summ, fn)
                chk.paths_enumerated += summ.paths_enumerated
                eq, wit, npts = compare(dnf, ref)
            except (CannotDecide, TooManyPaths) as e:
                chk.bad("X2", tag + name, "cannot decide the accept region of %s (outside the decidable "
                        "fragment): %s" % (name, e), fn.loc())
                continue
            if eq:
                chk.ok("X2", tag + name, {"accepts": show_dnf(dnf)[:300], "paths": npaths, "abstract_points": npts},
                       fn.loc())
            else:
                w = wit[0]
                what = ("accepts an encoding the protocol forbids" if w["program_accepts"]
                        else "rejects an encoding the protocol allows")
                chk.bad("X2", tag + name, "validator of %s %s, e.g. %s; program predicate: %s"
                        % (name, what, w["assignment"], show_dnf(dnf)[:300]), fn.loc(), detail=wit)
    # X1: every type decoded from the wire has a validator row (decode sites are generic over T)
    decode_names = {"recv_body", "recv_payload_into_buf", "extract_request_body", "extract_msg_body"}
    for f in fb.fns.values():
        for bb, t in f.calls():
            from vlint.facts import callee_of
            c = callee_of(t)
            if c is None or c.get("name") not in decode_names:
                continue
            g = c.get("gargs") or []
            if not g:
                continue
            ty = g[-1].split("::")[-1].split("<")[0]
            if len(ty) <= 2:      # still generic at this site
                continue
            key = tag + "decode:" + ty
            ok = ty in wire.SPEC_NAME or ty in ("VhostUserMsgHeader", "VhostUserGpuMsgHeader")
            chk.check(ok, "X1", key, "decoded type has a validity row",
                      "type %s is decoded from the wire at %s but has no row in the validity table" % (ty, f.short),
                      f.loc(t["line"]), )
