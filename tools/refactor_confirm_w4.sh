#!/bin/sh
# confirm round-4 refactorings (/tmp/r4_<area>/out/k): patch applies, all features compile, unedited suite passes (parallel slots)
N=${SLOTS:-5}
ls -d /tmp/r4_*/out/[0-9]* | sort > /tmp/rf_todo4.txt
i=0
while [ $i -lt $N ]; do
  ( WT=/tmp/rfconfirm_wt_$i; TG=/tmp/rfconfirm_target_$i
    git -C /repo worktree remove --force $WT 2>/dev/null; git -C /repo worktree prune
    git -C /repo worktree add -q --detach $WT HEAD
    awk -v n=$N -v i=$i 'NR%n==i' /tmp/rf_todo4.txt | while read d; do
      a=$(echo $d | sed 's#/tmp/r4_\([a-z]*\)/out/.*#\1#'); k=$(basename $d); id=r4-$a-$k
      git -C $WT checkout -q -- . ; git -C $WT clean -fdq
      git -C $WT apply --whitespace=nowarn $d/patch.diff || { echo "$id APPLY-FAIL"; continue; }
      c=$(cd $WT && CARGO_TARGET_DIR=$TG CARGO_NET_OFFLINE=true CARGO_BUILD_JOBS=3 cargo check --offline --workspace --features vhost/vhost-user-frontend,vhost/vhost-kern,vhost/vhost-vdpa,vhost/vhost-net,vhost/vhost-vsock,vhost/test-utils,vhost-user-backend/postcopy 2>&1 | grep -c "^error")
      p=$(cd $WT && CARGO_TARGET_DIR=$TG CARGO_NET_OFFLINE=true CARGO_BUILD_JOBS=3 cargo test --workspace --no-fail-fast --offline 2>&1 | grep "test result:" | awk '{s+=$4; f+=$6} END {print s" "f}')
      echo "$id compile_errors=$c passed_failed=$p"
    done
    git -C /repo worktree remove --force $WT; rm -rf $TG ) &
  i=$((i+1))
done
wait
echo done
