#!/bin/sh
# Build the fact extractor and pre-extract the `full` configuration (offline).
set -e
cd "$(dirname "$0")/.."
export CARGO_NET_OFFLINE=true
(cd factgen && cargo +nightly build --release --offline 2>&1 | tail -3)
python3 - <<'PY'
import sys
sys.path.insert(0, '.')
from vlint.facts import ensure_facts
print(ensure_facts('full'))
PY
