#!/bin/sh
# confirm round-4 deliveries (/tmp/w4_CXX/out/k) as seeds CXX-(k+9), in parallel slots; feature-gated demos get their own command
cd /verif
demo_cmd() {
  case "$1" in
    C19-10) echo "cargo test --offline -p vhost --features vhost-kern --test kern_vring_notifiers";;
    C19-11) echo "cargo test --offline -p vhost --features vhost-kern,vhost-vdpa --test kern_iotlb_layout";;
    C19-12) echo "cargo test --offline -p vhost --features vhost-kern --test kern_vring_addr";;
    C14-12) echo "cargo test --offline -p vhost --features vhost-kern demo_";;
    C03-11) echo "cargo test --offline -p vhost --features vhost-user-frontend,vhost-user-backend,postcopy test_postcopy_end_then_queries";;
    C10-11) echo "cargo test --offline -p vhost --features vhost-user-frontend,vhost-user-backend,postcopy demo_postcopy_end_completes";;
  esac
}
ls -d /tmp/w4_C*/out/[0-9]* 2>/dev/null | while read d; do
  p=$(echo $d | sed 's#/tmp/w4_\(C[0-9]*\)/out/.*#\1#'); k=$(basename $d); id=$p-$((k+9))
  [ -f "$d/patch.diff" ] || continue
  [ -f seeded/$id/meta.json ] && continue
  echo "$p $d $id"
done > /tmp/seed_todo4.txt
wc -l /tmp/seed_todo4.txt
N=${SLOTS:-5}
i=0
while [ $i -lt $N ]; do
  ( awk -v n=$N -v i=$i 'NR%n==i' /tmp/seed_todo4.txt | while read p d id; do
      SEED_DEMO_CMD="$(demo_cmd $id)" SEED_SLOT=$i SEED_JOBS=3 python3 tools/seed_verify.py $p $d $id confirm > /tmp/seed_confirm_$id.log 2>&1
      echo "$id rc=$?"
    done ) &
  i=$((i+1))
done
wait
echo done
