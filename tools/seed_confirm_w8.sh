#!/bin/sh
# confirm round-8 deliveries (/tmp/w8_CXX/out/k) as seeds CXX-(max+k), in parallel slots; SEED_DEMO_CMD_<id> overrides the demo command
cd /verif
: > /tmp/seed_todo8.txt
for w in /tmp/w8_C*; do
  p=$(basename $w | sed 's/w8_//')
  max=$(ls -d seeded/$p-* | sed "s#seeded/$p-##" | sort -n | tail -1)
  for d in $w/out/[0-9]*; do
    [ -f "$d/patch.diff" ] || continue
    k=$(basename $d); id=$p-$((max+k))
    [ -f $w/out/.filed_$k ] && continue
    echo "$p $d $id" >> /tmp/seed_todo8.txt
  done
done
wc -l /tmp/seed_todo8.txt
N=${SLOTS:-5}
i=0
while [ $i -lt $N ]; do
  ( awk -v n=$N -v i=$i 'NR%n==i' /tmp/seed_todo8.txt | while read p d id; do
      dc=""; [ -f $d/demo_cmd.txt ] && dc=$(cat $d/demo_cmd.txt)
      SEED_DEMO_CMD="$dc" SEED_SLOT=$i SEED_JOBS=3 python3 tools/seed_verify.py $p $d $id confirm > /tmp/seed_confirm_$id.log 2>&1
      rc=$?; [ $rc = 0 ] && touch $(dirname $d)/.filed_$(basename $d)
      echo "$id rc=$rc"
    done ) &
  i=$((i+1))
done
wait
echo done
