#!/usr/bin/env python3
"""Generate MANIFEST.json from the per-property table below."""
import json
import os

VERIF = os.path.dirname(os.path.dirname(os.path.abspath(__file__)))

TRUST = ("Trusted: rustc's MIR construction and layout computation for the analysed cfg (nightly, "
         "-Zmir-opt-level=0, all relevant features); factgen's serialisation; vlint's models of pure "
         "library callees; spec/*.py as a correct transcription of the specification. ")

P = {}


def prop(pid, technique, text, note, design):
    P[pid] = dict(technique=technique, text=text, note=TRUST + note, design=design)


prop("C01", "table agreement over type-checked layouts/consts + MIR provenance rules vs an independent spec transcription",
     "Static table-agreement and composition rules: every wire struct layout, request code, flag and "
     "feature bit, the header constructor's bit behaviour, the (code, body, payload, fds) tuple of every "
     "operation/arm on all four channels, field provenance of the conversions into wire structs and the "
     "send loop's iovec order/fd attachment are compared with spec/wire.py. Decides the encoding tables "
     "and composition, not the bytes of a concrete run.",
     "Not decided: bytes on a socket, kernel SCM_RIGHTS behaviour, endianness (raw ByteValued copies assumed).",
     "DESIGN.md §3 C01")
prop("C07", "must-hold-on-every-path gate analysis (dominating branch facts) over MIR + who-may-write rule",
     "At every send site (frontend, proxy) and every handler call (backend server) of a feature-tied request, a test "
     "of the right negotiated-state field against exactly the gating bit is a must-fact on all CFG paths; "
     "negotiated-state fields are written only by the negotiation paths; REPLY_ACK is always offered.",
     "Not decided: message sequences as such; the gate reads the state any history produced.",
     "DESIGN.md §3 C07")
prop("C20", "path-sensitive abstract interpretation: exact accept-region comparison of every validator with a reference predicate",
     "For the fragment the validators use (comparisons, masks, checked additions, membership tests against "
     "constants; helpers inlined) the accept region of every VhostUserMsgValidator::is_valid is computed from all "
     "CFG paths and compared exactly with the protocol's rules (spec/validity.py) on a partition of the value "
     "space that is exact for the fragment; anything outside the fragment fails closed.",
     "Third-party predicates (Uuid::is_nil/is_max, xen flag validity) are opaque booleans.",
     "DESIGN.md §3 C20")

prop("C02", "dispatch-table, argument-provenance and delegation rules over MIR; must-facts at frontend send sites",
     "Per dispatch arm the handler method called (exactly once, no loop), the provenance of each handler argument (decoded body field / "
     "payload / received file), delegation of all ~160 adapter methods, and the local rejection conditions of the frontend API as exact "
     "must-facts at the send site. Closes the value path caller -> wire -> handler field by field together with C01.",
     "Not decided: run-time equality of values and fd identity; positions in longer sessions.", "DESIGN.md §3 C02")
prop("C03", "path enumeration with interprocedural summaries; failure-encoding facts at reply sites; reply-framing provenance",
     "Backend: reply body/descriptor provenance from the handler's Ok value and in-band failure encodings on the Err edges. Frontend: every "
     "Ok path of every reply-bearing operation lies inside the reference accept set and returns the received value; every send is followed by "
     "its receiver on all success paths; variable-length replies are sized from the reply's own header.",
     "Not decided: wall-clock bounds; applications ignoring BackendReqHandler errors.", "DESIGN.md §3 C03")
prop("C04", "exhaustive path enumeration of the dispatch function with helper summaries (send counting, ordering)",
     "On every CFG path of every arm: typed-reply requests send exactly one reply on success and never an ack; ack-able requests send at most "
     "one message, only via the ack helper, exactly once after the handler; ack condition, value mapping, reply-ack flag formula and its "
     "recomputation; reply header provenance; exactly one header and one body read.",
     "Not decided: 'k-th reply answers k-th request' as a trace property (manual induction from <=1 send per request).", "DESIGN.md §3 C04")
prop("C05", "must-fact validation rules + panic-edge audit over the call-graph closure with discharge classes + raw-read guards",
     "Handler preconditions as must-facts at every handler call site; every panic-capable operation (asserts, unwrap/index/alloc/shift calls) "
     "reachable from the backend's request entry points, daemon handler, worker loop and dirty-log bitmap is discharged by a constant, a "
     "must-fact guard or a reviewed invariant row with a machine-checked requirement; raw reads of the receive buffer are length-guarded.",
     "Third-party crates called with wire-derived values are assumptions; <=64 queues; kernel returns <= bytes requested.", "DESIGN.md §3 C05")
prop("C06", "receiver path summaries (acceptance facts on every Ok path), policy/use set comparison, panic-edge audit",
     "Every success path of every reply receiver carries is_reply_for, body validity, the descriptor condition and payload framing; is_reply_for's "
     "true paths carry all five conjuncts; the frontend-request server's file policy equals the use of files and the protocol table; "
     "panic-capable operations in these parsers are discharged.",
     "Not decided: that every mutated byte string is rejected (union of the conjuncts with C20's exact regions).", "DESIGN.md §3 C06")
prop("C08", "loop-shape rules over CFG/must-facts, path classification of receivers, errno table agreement",
     "Send/receive loop shape (offset = running count, zero-byte exit, retry class only, fds first chunk), sender total comparison, header/body "
     "receiver classification (Disconnected/Partial/Invalid), errno class table, request bodies read by a looping receiver, reply length from "
     "the reply header. Partial claim: structural clauses only.",
     "Not decided: the iovec offset helper numerically, real partial transfers, timing.", "DESIGN.md §3 C08")
prop("C09", "ownership/escape audit of every raw-descriptor operation + drop-flag-aware must-drop analysis",
     "Received descriptors wrapped immediately and completely; every into_raw_fd re-wrapped directly; no forget/leak; from_raw_fd/close only on "
     "owned descriptors; handler signatures take descriptors by value; the received file vector is moved or dropped on every path (drop flags "
     "interpreted).",
     "Assumes vmm-sys-util closes undeliverable descriptors.", "DESIGN.md §3 C09")
prop("C10", "lock-discipline analysis: guard acquisition count, receiver provenance, guard liveness, who-may-call",
     "Each I/O-performing public method of Frontend/Backend/GpuBackend acquires the endpoint mutex exactly once outside loops, every I/O call takes "
     "its receiver from that guard, the guard is not dropped before the last I/O call, and the guarded socket is not reachable otherwise.",
     "Not decided: mutex fairness, peer behaviour, actual interleavings.", "DESIGN.md §3 C10")
prop("C11", "transition-effect table + post-dominance and must-fact rules on the control handlers and registration function",
     "Transition by transition: prescribed ring-state mutations per control message, registration update after every mutation of a registration "
     "input, epoll add only under started && enabled with one id, dispatch gate vs registration predicate, eventfd consumed only when active, "
     "level-triggered registration. Partial claim.",
     "Not decided: message sequences, eventual delivery. One known finding (gate reads only `enabled`).", "DESIGN.md §3 C11")
prop("C12", "lock/order discipline rules (guard scope, dominance order, consume-implies-dispatch paths)",
     "read_kick under one guard; state change dominates the epoll update in every disabling/stopping handler; worker paths with a true gate reach "
     "the backend's handle_event; gate-to-dispatch critical section. Partial claim: the discipline, not the interleavings.",
     "Not decided: interleavings themselves. One known finding (dispatch outside the ring lock).", "DESIGN.md §3 C12")
prop("C13", "commit-ordering reachability rule, field provenance, linear-form match with must-facts, notification counting",
     "No error exit after the first state mutation; memory region and translation entry from the same wire region; translation = va - base + gpa "
     "under exact bounds; one backend notification per success; removal keys. Partial claim.",
     "Not decided: byte visibility, vm-memory internals. Known finding: update_memory can fail after the commit (3 handlers).", "DESIGN.md §3 C13")
prop("C14", "must-fact and provenance rules on the daemon's control handlers and VringState",
     "Checked ring lookup in every per-ring handler, size bounds, address/index provenance, feature subset test and EVENT_IDX propagation to all "
     "rings and the backend, channel inheritance, fresh memory snapshot per ring operation, current call descriptor, adapter delegation.",
     "Not decided: constraints enforced inside virtio-queue.", "DESIGN.md §3 C14")
prop("C15", "who-may-write rule on atomic ops, expression-shape and must-fact rules on the bitmap code, ordering rule on SET_LOG_BASE",
     "Only fetch_or writes the log; word/bit index expressions and constants; inclusive page range; dereference guarded by index < len; creation "
     "bounded by the log size; build-then-replace; log persistence across memory-table changes. Partial claim.",
     "Not decided: the arithmetic as a numeric function. Known finding: the log is not applied to regions added later.", "DESIGN.md §3 C15")
prop("C16", "dominance/post-dominance and path-classification rules on shutdown, the daemon thread, wait, serve and Drop",
     "Flag store before socket shutdown with Release/Acquire pairing; daemon thread leaves its loop only on a request error and shuts the connection "
     "down on every exit; wait's result classification and state reset; serve's exit events and disconnect mapping; Drop signals then joins. "
     "Partial claim.",
     "Not decided: bounded time, the races, peer observations.", "DESIGN.md §3 C16")
prop("C17", "term-agreement and bound rules on exit/listener/ring ids; loop-exit rule; argument provenance",
     "Exit id registered == id compared (guarded); listener ids outside the reserved range and within the dispatcher's 16-bit event id; ring id "
     "flows unchanged to add/delete; first matching thread only; dispatcher argument order; slice membership by mask bit. Partial claim.",
     "Not decided: the rank formula and slice order as numeric results.", "DESIGN.md §3 C17")
prop("C18", "instantiation of the dispatch/ack/gate rule families for the backend->frontend channel (paths + must-facts)",
     "Proxy sets NEED_REPLY iff negotiated, waits iff negotiated, succeeds only for ack value 0; server arms call the protocol's handler with the "
     "decoded body and files[0], one ack after the handler iff negotiated && NEED_REPLY with value n / -errno / -EINVAL, handler result returned.",
     "Not decided: value equality at run time, ack ordering as a trace property.", "DESIGN.md §3 C18")
prop("C19", "UAPI agreement: ioctl numbers/layouts recomputed from MIR+layout and compared with <linux/vhost.h> by clang _Static_assert; op->ioctl table; provenance",
     "Every ioctl number, binding struct size/offsets, constants and enum codes equal the installed kernel header's (compile-time assertions, nothing "
     "executed); each trait operation issues exactly its UAPI request through the wrapper of its direction and returns ioctl_result; argument field "
     "provenance; IOTLB v1/v2 selection and field mapping; validity guard and accepting-path tests before VHOST_SET_VRING_ADDR.",
     "Trusted additionally: clang and the installed kernel headers. Not decided: kernel behaviour.", "DESIGN.md §3 C19")

NOT_YET = {}


def main():
    props = [json.loads(l) for l in open(os.path.join(VERIF, "properties.jsonl"))]
    checks = []
    na = []
    for p in props:
        pid = p["id"]
        if pid in P and os.path.exists(os.path.join(VERIF, "rules", pid.lower() + ".py")):
            e = P[pid]
            checks.append({
                "property_id": pid,
                "quick_cmd": "./check %s --tier quick" % pid,
                "thorough_cmd": "./check %s --tier thorough" % pid,
                "evidence_file": "/verif/evidence/%s.json" % pid,
                "replay_cmd_template": "./check %s --replay {path}" % pid,
                "engine": "vlint",
                "level_claimed": {"category": "other", "text": e["text"], "design_ref": e["design"]},
                "level_note": e["note"],
                "technique": e["technique"],
            })
        else:
            na.append({"property_id": pid, "reason": NOT_YET.get(
                pid, "static check for this property is not built yet in this revision (work in progress; see DESIGN.md §3)")})
    m = {
        "version": 1,
        "setup_cmd": "sh tools/setup.sh",
        "hooks": {
            "guard": "rust_vmm_vhost_verif",
            "enable": "none needed: the checks analyse the unmodified sources (cargo +nightly check with a rustc_private wrapper); no cfg-guarded hooks exist",
            "baseline_off_cmd": "cd /repo && cargo test --workspace --no-fail-fast --offline",
            "source_commits": [],
            "add_only": True,
        },
        "engines": [
            {"name": "factgen", "path": "factgen/", "serves_properties": sorted(P),
             "kind_free_text": "rustc_private driver (nightly) dumping MIR, layouts, constants and impl tables as JSON facts"},
            {"name": "vlint", "path": "vlint/", "serves_properties": sorted(P),
             "kind_free_text": "Python static-analysis library: CFG, dominators, must-facts, symbolic terms, path summaries, accept regions, call graph"},
        ],
        "checks": checks,
        "not_applicable": na,
        "notes": "Static analysis only: every verdict is computed from /repo's current sources (type-checked MIR) without executing them. "
                 "fix: commits in /repo: see known_findings.json.",
    }
    with open(os.path.join(VERIF, "MANIFEST.json"), "w") as fh:
        json.dump(m, fh, indent=1)
    print("MANIFEST.json: %d checks, %d not_applicable" % (len(checks), len(na)))


if __name__ == "__main__":
    main()
