#!/usr/bin/env python3
"""Generate MANIFEST.json from the per-property table below."""
import json
import os

VERIF = os.path.dirname(os.path.dirname(os.path.abspath(__file__)))

TRUST = ("Trusted: rustc's MIR construction and layout computation for the analysed cfg (nightly, "
         "-Zmir-opt-level=0, all relevant features); factgen's serialisation; vlint's models of pure "
         "library callees; spec/*.py as a correct transcription of the specification. ")

P = {}


def prop(pid, technique, text, note, design):
    P[pid] = dict(technique=technique, text=text, note=TRUST + note, design=design)


prop("C01", "table agreement over type-checked layouts/consts + MIR provenance rules vs an independent spec transcription",
     "Static table-agreement and composition rules: every wire struct layout, request code, flag and "
     "feature bit, the header constructor's bit behaviour, the (code, body, payload, fds) tuple of every "
     "operation/arm on all four channels, field provenance of the conversions into wire structs and the "
     "send loop's iovec order/fd attachment are compared with spec/wire.py. Decides the encoding tables "
     "and composition, not the bytes of a concrete run.",
     "Not decided: bytes on a socket, kernel SCM_RIGHTS behaviour, endianness (raw ByteValued copies assumed).",
     "DESIGN.md §3 C01")
prop("C07", "must-hold-on-every-path gate analysis (dominating branch facts) over MIR + who-may-write rule",
     "At every send site (frontend, proxy) and every handler call (backend server) of a feature-tied request, a test "
     "of the right negotiated-state field against exactly the gating bit is a must-fact on all CFG paths; "
     "negotiated-state fields are written only by the negotiation paths; REPLY_ACK is always offered.",
     "Not decided: message sequences as such; the gate reads the state any history produced.",
     "DESIGN.md §3 C07")
prop("C20", "path-sensitive abstract interpretation: exact accept-region comparison of every validator with a reference predicate",
     "For the fragment the validators use (comparisons, masks, checked additions, membership tests against "
     "constants; helpers inlined) the accept region of every VhostUserMsgValidator::is_valid is computed from all "
     "CFG paths and compared exactly with the protocol's rules (spec/validity.py) on a partition of the value "
     "space that is exact for the fragment; anything outside the fragment fails closed.",
     "Third-party predicates (Uuid::is_nil/is_max, xen flag validity) are opaque booleans.",
     "DESIGN.md §3 C20")

NOT_YET = {}


def main():
    props = [json.loads(l) for l in open(os.path.join(VERIF, "properties.jsonl"))]
    checks = []
    na = []
    for p in props:
        pid = p["id"]
        if pid in P and os.path.exists(os.path.join(VERIF, "rules", pid.lower() + ".py")):
            e = P[pid]
            checks.append({
                "property_id": pid,
                "quick_cmd": "./check %s --tier quick" % pid,
                "thorough_cmd": "./check %s --tier thorough" % pid,
                "evidence_file": "/verif/evidence/%s.json" % pid,
                "replay_cmd_template": "./check %s --replay {path}" % pid,
                "engine": "vlint",
                "level_claimed": {"category": "other", "text": e["text"], "design_ref": e["design"]},
                "level_note": e["note"],
                "technique": e["technique"],
            })
        else:
            na.append({"property_id": pid, "reason": NOT_YET.get(
                pid, "static check for this property is not built yet in this revision (work in progress; see DESIGN.md §3)")})
    m = {
        "version": 1,
        "setup_cmd": "sh tools/setup.sh",
        "hooks": {
            "guard": "rust_vmm_vhost_verif",
            "enable": "none needed: the checks analyse the unmodified sources (cargo +nightly check with a rustc_private wrapper); no cfg-guarded hooks exist",
            "baseline_off_cmd": "cd /repo && cargo test --workspace --no-fail-fast --offline",
            "source_commits": [],
            "add_only": True,
        },
        "engines": [
            {"name": "factgen", "path": "factgen/", "serves_properties": sorted(P),
             "kind_free_text": "rustc_private driver (nightly) dumping MIR, layouts, constants and impl tables as JSON facts"},
            {"name": "vlint", "path": "vlint/", "serves_properties": sorted(P),
             "kind_free_text": "Python static-analysis library: CFG, dominators, must-facts, symbolic terms, path summaries, accept regions, call graph"},
        ],
        "checks": checks,
        "not_applicable": na,
        "notes": "Static analysis only: every verdict is computed from /repo's current sources (type-checked MIR) without executing them. "
                 "fix: commits in /repo: see known_findings.json.",
    }
    with open(os.path.join(VERIF, "MANIFEST.json"), "w") as fh:
        json.dump(m, fh, indent=1)
    print("MANIFEST.json: %d checks, %d not_applicable" % (len(checks), len(na)))


if __name__ == "__main__":
    main()
