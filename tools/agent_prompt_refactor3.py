#!/usr/bin/env python3
"""Round-3 refactoring prompt: additive and structural clean-ups (logging, counters, scoping, moving code)."""
import glob
import subprocess
import sys

area, wt = sys.argv[1], sys.argv[2]
base = subprocess.run([sys.executable, "/verif/tools/agent_prompt_refactor.py", area, wt], stdout=subprocess.PIPE, text=True).stdout
prev = []
for d in sorted(glob.glob("/verif/refactors/*-%s-*/AGENT_README.md" % area)):
    txt = open(d).read()
    first = [l.strip("# ").strip() for l in txt.splitlines() if l.strip()][:1]
    prev.append("  - " + " ".join(first)[:160])
extra = ("\n\nALREADY DONE (by others) — do NOT repeat these:\n" + "\n".join(prev) +
         "\nThis time produce 5 changes of these OTHER kinds (one each), all strictly behaviour-preserving with respect to the protocol, the "
         "wire, the accepted inputs, the errors returned and the order of I/O and state changes:\n"
         "  (1) add `log::debug!`/`log::trace!`/`log::warn!` statements (the crates already depend on `log`) at 3-5 interesting points of the "
         "request-handling or state-changing functions, printing existing values (no new computation that could panic);\n"
         "  (2) add a purely informational private field (e.g. a request/kick/error counter, a `last_request` code, a name string) to one of the "
         "main structs, initialise it in the constructors and update it in 2-3 methods (wrapping arithmetic, no effect on control flow), plus a "
         "small accessor;\n"
         "  (3) restructure control flow without changing it: a `for` loop into `while let Some(..) = it.next()` or an index loop, an `if/else` "
         "chain into a `match` on a tuple or with guards, early returns into a labelled block or nested `if let`, a long function split into two "
         "private functions called one after the other;\n"
         "  (4) move code: a private function or a private struct + impl to another module of the same crate (or to the top / bottom of the "
         "file, or into a nested private module), reorder the fields of a private struct or the methods inside an impl, adjust visibility "
         "(`fn` -> `pub(crate) fn`, `pub(super)`), adjust imports;\n"
         "  (5) change how values are passed or named: a `Copy` parameter taken by reference instead of by value (or vice versa) in a private "
         "function, an `Option<&T>` instead of `&Option<T>`, a tuple return instead of two out-parameters, a local type alias or a newtype-free "
         "`type` alias, a `const` for a repeated literal, `impl Trait` argument instead of a generic parameter in a private function.\n")
marker = "For each change k = 1..4 create the directory"
i = base.index(marker)
out = base[:i] + extra.strip("\n") + "\n\n" + base[i:].replace("k = 1..4", "k = 1..5")
out = out.replace("Produce 4 DIFFERENT", "Produce 5 DIFFERENT").replace("Make the 4 changes", "Make the 5 changes")
print(out)
