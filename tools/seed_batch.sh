#!/bin/sh
# usage: tools/seed_batch.sh C11 C06 ...   (runs seed_verify on every delivery of the named properties, serially)
cd /verif
for p in "$@"; do
  for d in /tmp/wt_$p/out/[0-9]*; do
    [ -f "$d/patch.diff" ] || continue
    k=$(basename $d)
    [ -f seeded/$p-$k/meta.json ] && continue
    echo "=== $p-$k"
    python3 tools/seed_verify.py $p $d $p-$k 2>&1 | grep -v '^ \|^{\|^}' | tail -6
  done
done
