#!/usr/bin/env python3
"""Rebuild /verif/seeded/INDEX.md from the meta.json of every filed seeded change."""
import json
import os

VERIF = os.path.dirname(os.path.dirname(os.path.abspath(__file__)))
SEEDED = os.path.join(VERIF, "seeded")


def main():
    global DESC
    try:
        DESC = json.load(open(os.path.join(SEEDED, "descriptions.json")))
    except OSError:
        DESC = {}
    rows = []
    for d in sorted(os.listdir(SEEDED)):
        mp = os.path.join(SEEDED, d, "meta.json")
        if not os.path.exists(mp):
            continue
        m = json.load(open(mp))
        if d in DESC:
            m["what"], m["needs"] = DESC[d]
            m.setdefault("breaks_property", m.get("property"))
            with open(mp, "w") as fh:
                json.dump(m, fh, indent=1)
        rows.append((d, m))
    out = ["# Independently seeded changes", "",
           "Each directory holds `patch.diff` (the library change), `demo.diff` (a demonstration that fails with the change and "
           "passes without it) and `meta.json`. Every change was produced by a fresh sub-agent that saw only the property text, and "
           "was confirmed in a scratch worktree (compiles with all features, the unedited 105-test suite passes, demonstration "
           "fails with / passes without). `caught by` lists the quick checks that exit 1 with the patch applied to /repo.", "",
           "| seed | property | what it changes | needs to manifest | caught by (rules) | status |", "|---|---|---|---|---|---|"]
    n_c = 0
    for d, m in rows:
        fired = m.get("checks_fired", {})
        own = m["property"] in fired
        anyc = bool(fired)
        n_c += 1 if anyc else 0
        caught = "; ".join("%s (%s)" % (q, ", ".join(r[:3])) for q, r in sorted(fired.items())) or "—"
        status = m.get("status") or ("caught" if own else ("caught by sibling property" if anyc else "MISSED"))
        out.append("| %s | %s | %s | %s | %s | %s |" % (d, m["property"], m.get("what", "").replace("|", "/"),
                                                     m.get("needs", "").replace("|", "/"), caught.replace("|", "/"), status))
    out += ["", "%d changes filed; %d caught by at least one check." % (len(rows), n_c), ""]
    with open(os.path.join(SEEDED, "INDEX.md"), "w") as fh:
        fh.write("\n".join(out))
    print("\n".join(out[-3:]))


if __name__ == "__main__":
    main()
