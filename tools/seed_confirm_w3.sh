#!/bin/sh
# confirm round-2 deliveries (/tmp/w3_CXX/out/k) as seeds CXX-(k+6), in parallel slots
cd /verif
ls -d /tmp/w3_C*/out/[0-9]* 2>/dev/null | while read d; do
  p=$(echo $d | sed 's#/tmp/w3_\(C[0-9]*\)/out/.*#\1#'); k=$(basename $d); id=$p-$((k+6))
  [ -f "$d/patch.diff" ] || continue
  [ -f seeded/$id/meta.json ] && continue
  [ "$p" = "C19" ] && continue
  echo "$p $d $id"
done > /tmp/seed_todo3.txt
wc -l /tmp/seed_todo3.txt
N=${SLOTS:-5}
i=0
while [ $i -lt $N ]; do
  ( awk -v n=$N -v i=$i 'NR%n==i' /tmp/seed_todo3.txt | while read p d id; do
      SEED_SLOT=$i SEED_JOBS=3 python3 tools/seed_verify.py $p $d $id confirm > /tmp/seed_confirm_$id.log 2>&1
      echo "$id rc=$?"
    done ) &
  i=$((i+1))
done
wait
echo done
