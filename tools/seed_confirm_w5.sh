#!/bin/sh
# confirm round-5 deliveries (/tmp/w5_CXX/out/k) as seeds CXX-(k+12), in parallel slots; feature-gated demos get their own command
cd /verif
demo_cmd() {
  case "$1" in
    C19-13) echo "cargo test --offline -p vhost --features vhost-kern --test kern_set_mem_table_uapi";;
    C19-14) echo "cargo test --offline -p vhost --features vhost-vdpa --test vdpa_dma_map_uapi";;
    C19-15) echo "cargo test --offline -p vhost --features vhost-net --lib test_net_set_backend_uapi";;
    C19-16) echo "cargo test --offline -p vhost --features vhost-vdpa --test vdpa_get_vring_group_uapi";;
    C15-16) echo "cargo test --offline -p vhost --features vhost-kern --lib demo_c15";;
  esac
}
ls -d /tmp/w5_C*/out/[0-9]* 2>/dev/null | while read d; do
  p=$(echo $d | sed 's#/tmp/w5_\(C[0-9]*\)/out/.*#\1#'); k=$(basename $d); id=$p-$((k+12))
  [ -f "$d/patch.diff" ] || continue
  [ -f seeded/$id/meta.json ] && continue
  echo "$p $d $id"
done > /tmp/seed_todo5.txt
wc -l /tmp/seed_todo5.txt
N=${SLOTS:-5}
i=0
while [ $i -lt $N ]; do
  ( awk -v n=$N -v i=$i 'NR%n==i' /tmp/seed_todo5.txt | while read p d id; do
      SEED_DEMO_CMD="$(demo_cmd $id)" SEED_SLOT=$i SEED_JOBS=3 python3 tools/seed_verify.py $p $d $id confirm > /tmp/seed_confirm_$id.log 2>&1
      echo "$id rc=$?"
    done ) &
  i=$((i+1))
done
wait
echo done
