#!/bin/sh
cd /verif
for d in seeded/C*/; do
  sid=$(basename $d); p=$(echo $sid | cut -d- -f1)
  python3 tools/seed_verify.py $p $d $sid checks 2>&1 | tail -1 | cut -c1-300
done
python3 tools/seed_index.py
