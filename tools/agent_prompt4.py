#!/usr/bin/env python3
"""Round-4 prompt: all earlier changes listed; push towards rarely visited files and multi-site changes."""
import json
import subprocess
import sys

pid, wt = sys.argv[1], sys.argv[2]
base = subprocess.run([sys.executable, "/verif/tools/agent_prompt.py", pid, wt], stdout=subprocess.PIPE, text=True).stdout
desc = json.load(open("/verif/seeded/descriptions.json"))
prev = ["  - %s" % v[0] for k, v in sorted(desc.items()) if k.startswith(pid + "-")]
extra = ("\n\nALREADY TRIED (by others) — do NOT deliver these or close variants of them (same site with a slightly different edit counts as "
         "a close variant):\n" + "\n".join(prev) +
         "\nNine changes have been tried already, so look harder: read ALL the code the property touches, including the parts the above never "
         "visited (for the vhost crate: gpu_backend_req.rs, gpu_message.rs, backend.rs/BackendListener, frontend_req_handler.rs, "
         "backend_req.rs, the `vhost_kern` modules; for vhost-user-backend: vring.rs incl. the Mutex/RwLock ring wrappers, lib.rs, "
         "backend.rs adapters, bitmap.rs). Prefer changes that (a) span two functions or two files that must stay consistent, (b) alter a "
         "default/initial value, a `Clone`/`Default`/`new` that seeds state, or what happens on the SECOND occurrence of an event (second "
         "connection, second SET_*, re-registration), (c) are refactorings that look mechanical (moving a statement across a `?`, hoisting out "
         "of a loop, merging match arms, replacing a helper by a 'similar' one) but change behaviour in a corner, or (d) weaken the property "
         "only under a cargo feature (`postcopy`, `xen`, `vhost-vdpa`...). Deliver 3 changes.\n")
marker = "For each change k = 1, 2, 3 create the directory"
i = base.index(marker)
print(base[:i] + extra.strip("\n") + "\n\n" + base[i:])
