#!/bin/sh
# confirm (phase 1) every not-yet-filed delivery in parallel slots; checks (phase 2) are run separately and serially.
cd /verif
ls -d /tmp/wt_C*/out/[0-9]* 2>/dev/null | while read d; do
  p=$(echo $d | sed 's#/tmp/wt_\(C[0-9]*\)/out/.*#\1#'); k=$(basename $d)
  [ -f "$d/patch.diff" ] || continue
  [ -f seeded/$p-$k/meta.json ] && continue
  echo "$p $d $p-$k"
done > /tmp/seed_todo.txt
wc -l /tmp/seed_todo.txt
N=${SLOTS:-4}
i=0
while [ $i -lt $N ]; do
  ( awk -v n=$N -v i=$i 'NR%n==i' /tmp/seed_todo.txt | while read p d id; do
      SEED_SLOT=$i SEED_JOBS=4 python3 tools/seed_verify.py $p $d $id confirm > /tmp/seed_confirm_$id.log 2>&1
      echo "$id rc=$?"
    done ) &
  i=$((i+1))
done
wait
echo done
