#!/usr/bin/env python3
"""Development aid: run all quick checks against every filed seeded change (or refactoring) in parallel scratch
worktrees (VERIF_REPO override) and print which checks fire.  The recorded results in seeded/*/meta.json come from
tools/seed_verify.py (patch applied to /repo itself), not from this scan.
usage: tools/seed_scan.py [--refactors] [--only substr] [--slots N] [--props C01,C02] [--merge]   (--only is a regex)"""
import concurrent.futures
import glob
import json
import os
import re
import subprocess
import sys

VERIF = os.path.dirname(os.path.dirname(os.path.abspath(__file__)))
REPO = "/repo"


def arg(name, default=None):
    return sys.argv[sys.argv.index(name) + 1] if name in sys.argv else default


def prepare(slot):
    wt = "/tmp/scan_wt_%d" % slot
    subprocess.run(["git", "-C", REPO, "worktree", "remove", "--force", wt], stdout=subprocess.DEVNULL, stderr=subprocess.DEVNULL)
    subprocess.run(["git", "-C", REPO, "worktree", "prune"])
    subprocess.check_call(["git", "-C", REPO, "worktree", "add", "-q", "--detach", wt, "HEAD"])


def work(slot, items, props):
    wt = "/tmp/scan_wt_%d" % slot
    out = {}
    env = dict(os.environ, VERIF_REPO=wt, VERIF_BUILD=wt + "_build", VERIF_OUT=wt + "_out")
    try:
        for sid, patch in items:
            subprocess.check_call(["git", "-C", wt, "checkout", "-q", "--", "."])
            subprocess.check_call(["git", "-C", wt, "clean", "-fdq"])
            r = subprocess.run(["git", "-C", wt, "apply", "--whitespace=nowarn", patch], stdout=subprocess.PIPE, stderr=subprocess.STDOUT, text=True)
            if r.returncode != 0:
                out[sid] = {"<apply>": [r.stdout[-200:]]}
                continue
            fired = {}
            for q in props:
                r = subprocess.run([os.path.join(VERIF, "check"), q, "--tier", "quick"], stdout=subprocess.PIPE, stderr=subprocess.STDOUT, text=True, env=env)
                rules = [l.strip()[5:].split(" at ")[0] for l in r.stdout.splitlines() if l.startswith("  rule ")]
                if r.returncode == 1:
                    fired[q] = rules[:5]
                elif r.returncode != 0:
                    fired[q] = ["<exit %d> %s" % (r.returncode, r.stdout[-300:])]
            out[sid] = fired
            print(sid, json.dumps(fired)[:400], flush=True)
    finally:
        subprocess.run(["rm", "-rf", wt + "_build", wt + "_out"])
    return out


def main():
    kind = "refactors" if "--refactors" in sys.argv else "seeded"
    only = arg("--only")
    slots = int(arg("--slots", "6"))
    props = (arg("--props") or ",".join("C%02d" % i for i in range(1, 21))).split(",")
    items = []
    pats = sorted(glob.glob(os.path.join(VERIF, kind, "*", "patch.diff")))
    g = arg("--glob")
    if g:
        # deliveries not filed yet, e.g. --glob '/tmp/w2_C*/out/*/patch.diff'
        pats = sorted(glob.glob(g))
        kind = "glob"
    for d in pats:
        sid = os.path.basename(os.path.dirname(d))
        if g:
            parts = d.split("/")
            sid = "%s-%s" % (parts[2], parts[-2])
        if only and not re.search(only, sid):
            continue
        items.append((sid, d))
    slots = max(1, min(slots, len(items)))
    chunks = [items[i::slots] for i in range(slots)]
    res = {}
    for i in range(slots):
        prepare(i)
    try:
        with concurrent.futures.ThreadPoolExecutor(slots) as ex:
            for r in ex.map(lambda a: work(a[0], a[1], props), list(enumerate(chunks))):
                res.update(r)
    finally:
        for i in range(slots):
            subprocess.run(["git", "-C", REPO, "worktree", "remove", "--force", "/tmp/scan_wt_%d" % i])
    if "--merge" in sys.argv and os.path.exists("/tmp/scan_%s.json" % kind):
        # partial scan (--only / --props): update the recorded full scan instead of replacing it
        old = json.load(open("/tmp/scan_%s.json" % kind))
        for sid, fired in res.items():
            cur = {q: v for q, v in old.get(sid, {}).items() if q not in props}
            cur.update(fired)
            old[sid] = cur
        res = old
    with open("/tmp/scan_%s.json" % kind, "w") as fh:
        json.dump(res, fh, indent=1)
    n = sum(1 for v in res.values() if v)
    print("%d/%d %s fire at least one check" % (n, len(res), kind))


if __name__ == "__main__":
    main()
