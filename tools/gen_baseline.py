#!/usr/bin/env python3
"""Freeze the (self type, name) pairs of the workspace functions of the reference tree into spec/baseline_fns.json.
vlint.inline inlines only helpers that are NOT in this list (i.e. helpers introduced by a later change), so that the
shape the rules were confirmed on is what they keep seeing.  Run against the pinned tree only."""
import json
import os
import sys

HERE = os.path.dirname(os.path.dirname(os.path.abspath(__file__)))
sys.path.insert(0, HERE)
from vlint.facts import FactBase  # noqa: E402
from vlint.inline import fn_ident  # noqa: E402

ids = set()
sigs = {}
adts = {}
dup = set()
for cfg in ("full", "base", "xen"):
    fb = FactBase(cfg)
    for f in fb.orig_fns.values():
        if f.rec.get("dk") == "Closure":
            continue
        i = fn_ident(f)
        ids.add(i)
        sg = [list(f.rec.get("sig_in") or []), f.rec.get("sig_out") or "", bool(f.rec.get("unsafe"))]
        if i in sigs and sigs[i] != sg:
            dup.add(i)
        sigs[i] = sg
    for r in list(fb.adt_generic.values()) + [x for rs in fb.adt_by_path.values() for x in rs]:
        vs = r.get("variants") or []
        if len(vs) == 1 and r.get("kind", "struct") in ("struct", None) or (len(vs) == 1 and "kind" not in r):
            adts.setdefault(r["path"], [[x["name"], x["ty"]] for x in vs[0]["fields"]])
for i in dup:
    sigs.pop(i, None)   # several functions share the identity (overloads across cfgs): not usable for rename detection
out = sorted(ids)
with open(os.path.join(HERE, "spec", "baseline_fns.json"), "w") as fh:
    json.dump({"comment": "functions (identity, signature) and struct fields of the reference tree; see tools/gen_baseline.py and vlint/canon.py",
               "fns": out, "sigs": sigs, "adts": adts}, fh, indent=0, sort_keys=True)
print(len(out), "functions", len(sigs), "signatures", len(adts), "structs")
