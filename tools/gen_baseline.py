#!/usr/bin/env python3
"""Freeze the (self type, name) pairs of the workspace functions of the reference tree into spec/baseline_fns.json.
vlint.inline inlines only helpers that are NOT in this list (i.e. helpers introduced by a later change), so that the
shape the rules were confirmed on is what they keep seeing.  Run against the pinned tree only."""
import json
import os
import sys

HERE = os.path.dirname(os.path.dirname(os.path.abspath(__file__)))
sys.path.insert(0, HERE)
from vlint.facts import FactBase  # noqa: E402
from vlint.inline import fn_ident  # noqa: E402

ids = set()
for cfg in ("full", "base", "xen"):
    fb = FactBase(cfg)
    for f in fb.fns.values():
        if f.rec.get("dk") == "Closure":
            continue
        ids.add(fn_ident(f))
out = sorted(ids)
with open(os.path.join(HERE, "spec", "baseline_fns.json"), "w") as fh:
    json.dump({"comment": "functions of the reference tree (self type / module-less name); see tools/gen_baseline.py", "fns": out}, fh, indent=0)
print(len(out), "functions")
