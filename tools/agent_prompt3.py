#!/usr/bin/env python3
"""Round-3 prompt: as round 2 (all earlier changes listed) with a push towards less obvious sites."""
import json
import subprocess
import sys

pid, wt = sys.argv[1], sys.argv[2]
base = subprocess.run([sys.executable, "/verif/tools/agent_prompt.py", pid, wt], stdout=subprocess.PIPE, text=True).stdout
desc = json.load(open("/verif/seeded/descriptions.json"))
prev = ["  - %s" % v[0] for k, v in sorted(desc.items()) if k.startswith(pid + "-")]
extra = ("\n\nALREADY TRIED (by others) — do NOT deliver these or close variants of them:\n" + "\n".join(prev) +
         "\nLook in LESS OBVIOUS places this time: the Mutex/RwLock/Arc adapter impls and other forwarding wrappers, `Default`/`From`/`TryFrom`/"
         "`Deref` impls and conversion helpers, macros, `Drop` impls, error-mapping code (`map_err`, `From<Error>`), trait default methods, "
         "constructors (`new`, `with_*`, `from_*`), accessor pairs (getter reads another field than the setter writes), feature-gated variants "
         "(`#[cfg(feature = ...)]`), the test-utils/dummy code only if the library itself uses it. Also consider: a state field updated on "
         "the error path too (or not on the success path), two fields that must change together updated separately, an early `return Ok` "
         "added for a 'nothing to do' case that is not actually a no-op, a cached value that goes stale, a loop that stops one element early "
         "or processes an element twice, a `<`/`<=` pair that must agree across two functions.\n")
marker = "For each change k = 1, 2, 3 create the directory"
i = base.index(marker)
print(base[:i] + extra.strip("\n") + "\n\n" + base[i:])
