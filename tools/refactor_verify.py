#!/usr/bin/env python3
"""Run every quick check against a behaviour-preserving refactoring delivered by a sub-agent.

usage: tools/refactor_verify.py <delivery dir (…/out/k)> <refactor id> [--no-suite]

1. In a scratch worktree of /repo: patch.diff applies, all features compile, the unedited suite passes.
2. Apply the patch to /repo, run all 20 quick checks, undo.  A check that exits non-zero is a false alarm
   (unless reading the patch shows that it is not behaviour-preserving after all).
Result is filed under /verif/refactors/<id>/ (patch.diff, meta.json).
"""
import json
import os
import shutil
import subprocess
import sys
import time

sys.path.insert(0, os.path.dirname(os.path.abspath(__file__)))
from seed_verify import REPO, VERIF, sh, suite  # noqa: E402

WT = "/tmp/rfverify_wt"


def main():
    ddir, rid = sys.argv[1], sys.argv[2]
    patch = os.path.join(ddir, "patch.diff")
    if not os.path.exists(patch):
        print("missing", patch)
        return 2
    res = {"refactor": rid}
    if "--no-suite" not in sys.argv:
        if os.path.isdir(WT):
            subprocess.run(["git", "-C", REPO, "worktree", "remove", "--force", WT])
        subprocess.run(["git", "-C", REPO, "worktree", "prune"])
        subprocess.check_call(["git", "-C", REPO, "worktree", "add", "-q", "--detach", WT, "HEAD"])
        try:
            rc, out = sh("git apply --whitespace=nowarn %s" % patch, cwd=WT)
            if rc != 0:
                print("patch does not apply:", out[-500:])
                return 2
            rc, names = sh("git diff --name-only", cwd=WT)
            res["files"] = names.split()
            rc, out = sh("cargo check --offline --workspace --features vhost/vhost-user-frontend,vhost/vhost-kern,vhost/vhost-vdpa,"
                         "vhost/vhost-net,vhost/vhost-vsock,vhost/test-utils,vhost-user-backend/postcopy 2>&1 | tail -5", cwd=WT)
            res["full_features_compile"] = "error" not in out
            s1 = suite(WT)
            res["suite_with_patch"] = {k: s1[k] for k in ("passed", "failed", "compile_error", "timeout")}
            if not (s1["passed"] >= 105 and not s1["failed"] and not s1["compile_error"] and not s1["timeout"]):
                print("suite does not pass with the refactoring:", s1["tail"][-600:])
                return 1
        finally:
            subprocess.run(["git", "-C", REPO, "worktree", "remove", "--force", WT])
    repo = REPO
    extra_env = {}
    if "--scratch" in sys.argv:
        # run the checks against a scratch worktree instead of /repo (same machinery, VERIF_REPO override)
        repo = sys.argv[sys.argv.index("--scratch") + 1]
        extra_env = {"VERIF_REPO": repo, "VERIF_BUILD": repo.rstrip("/") + "_build"}
    st = subprocess.run(["git", "-C", repo, "status", "--porcelain"], stdout=subprocess.PIPE, text=True).stdout.strip()
    if st:
        print("%s is not clean; not running checks" % repo)
        return 3
    fired = {}
    subprocess.check_call(["git", "-C", repo, "apply", "--whitespace=nowarn", patch])
    try:
        props = [json.loads(l)["id"] for l in open(os.path.join(VERIF, "properties.jsonl"))]
        env = dict(os.environ, VERIF_OUT="/tmp/rfverify_out", **extra_env)
        for q in props:
            r = subprocess.run([os.path.join(VERIF, "check"), q, "--tier", "quick"], stdout=subprocess.PIPE, stderr=subprocess.STDOUT, text=True, env=env)
            if r.returncode != 0:
                rules = [l.strip() for l in r.stdout.splitlines() if l.startswith("  rule ")]
                fired[q] = {"rc": r.returncode, "rules": rules[:8], "tail": r.stdout[-600:] if not rules else ""}
    finally:
        subprocess.check_call(["git", "-C", repo, "checkout", "--", "."])
        subprocess.check_call(["git", "-C", repo, "clean", "-fdq"])   # files the patch added
        shutil.rmtree("/tmp/rfverify_out", ignore_errors=True)
    res["checks_fired"] = fired
    res["date"] = time.strftime("%Y-%m-%d")
    dst = os.path.join(VERIF, "refactors", rid)
    os.makedirs(dst, exist_ok=True)
    shutil.copy(patch, os.path.join(dst, "patch.diff"))
    rd = os.path.join(ddir, "README.md")
    if os.path.exists(rd):
        shutil.copy(rd, os.path.join(dst, "AGENT_README.md"))
    with open(os.path.join(dst, "meta.json"), "w") as fh:
        json.dump(res, fh, indent=1)
    print(rid, "fired:", json.dumps(fired, indent=1) if fired else "nothing (silent)")
    return 0


if __name__ == "__main__":
    sys.exit(main())
