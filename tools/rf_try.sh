#!/bin/sh
# usage: tools/rf_try.sh <patch file or refactor/seed id> CNN [CNN...]  — run checks against a scratch worktree with the patch applied
P=$1; shift
[ -f "$P" ] || { [ -f /verif/refactors/$P/patch.diff ] && P=/verif/refactors/$P/patch.diff; }
[ -f "$P" ] || { [ -f /verif/seeded/$P/patch.diff ] && P=/verif/seeded/$P/patch.diff; }
WT=${RF_WT:-/tmp/dev_wt}
[ -d "$WT" ] || git -C /repo worktree add -q --detach "$WT" HEAD   # scratch worktree (remove with: git -C /repo worktree remove --force $WT)
git -C $WT checkout -q -- . && git -C $WT clean -fdq
[ "$P" = "-" ] || git -C $WT apply --whitespace=nowarn $P || exit 2
for c in "$@"; do
  VERIF_REPO=$WT VERIF_BUILD=${WT}_build VERIF_OUT=${WT}_out /verif/check $c --tier quick 2>&1 | grep -v "^\[facts\]" | cut -c1-600 | tail -${RF_TAIL:-8}
done
git -C $WT checkout -q -- .; git -C $WT clean -fdq
