#!/usr/bin/env python3
"""Round-4 refactoring prompt: larger, composite clean-up PRs (several kinds of change in one patch, new abstractions)."""
import glob
import subprocess
import sys

area, wt = sys.argv[1], sys.argv[2]
base = subprocess.run([sys.executable, "/verif/tools/agent_prompt_refactor.py", area, wt], stdout=subprocess.PIPE, text=True).stdout
prev = []
for d in sorted(glob.glob("/verif/refactors/*-%s-*/AGENT_README.md" % area)):
    txt = open(d).read()
    first = [l.strip("# ").strip() for l in txt.splitlines() if l.strip()][:1]
    prev.append("  - " + " ".join(first)[:160])
extra = ("\n\nALREADY DONE (by others) — do NOT repeat these:\n" + "\n".join(prev) +
         "\nThis time produce 4 LARGER changes, each the size of a real clean-up pull request (60-250 changed lines, several functions "
         "touched), all strictly behaviour-preserving with respect to the protocol, the wire, the accepted inputs, the errors returned and the "
         "order of I/O, locking and state changes. One of each kind:\n"
         "  (1) introduce a new private abstraction and route existing code through it: a small private trait with one impl, a generic private "
         "helper (`fn with_x<T>(.., f: impl FnOnce(..) -> T) -> T`), a private newtype or guard struct with methods, or a `macro_rules!` that "
         "generates several near-identical arms/functions that exist today; at least three existing call sites must go through it;\n"
         "  (2) a composite tidy-up of ONE long function and its helpers: rename locals, hoist pure computations, turn `match` into `?`/"
         "combinators or back, merge or split private helpers, replace explicit loops by iterator chains or back, all in one patch, keeping every "
         "check, every side effect and their order;\n"
         "  (3) data-layout change of private state: split one struct into two (an inner struct holding a group of related fields), or merge "
         "two, replace a pair of parallel fields/vectors by a vector of small structs, wrap a field in a private newtype, replace a `bool` "
         "field by a two-variant private enum (or the reverse), updating every reader and writer;\n"
         "  (4) error-handling style change across a file: introduce `impl From<A> for B` and use `?` where `map_err` was written out (or the "
         "reverse), a private `fn err_x() -> Error` constructor for a repeated error expression, `ok_or`/`ok_or_else`/`then_some`/`filter` forms "
         "for `if cond { return Err(..) }` (or the reverse) — the SAME error values on the SAME inputs.\n")
marker = "For each change k = 1..4 create the directory"
i = base.index(marker)
out = base[:i] + extra.strip("\n") + "\n\n" + base[i:]
out = out.replace("be 5–60 changed lines", "be 60–250 changed lines")
print(out)
