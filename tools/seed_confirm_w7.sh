#!/bin/sh
# confirm round-6 deliveries (/tmp/w7_CXX/out/k) as seeds CXX-(k+19), in parallel slots; feature-gated demos get their own command
cd /verif
demo_cmd() {
  case "$1" in
    C19-17) echo "cargo test --offline -p vhost --features vhost-vdpa --test kern_uapi_group_asid";;
    C19-18) echo "cargo test --offline -p vhost --features vhost-kern --test kern_uapi_mem_table";;
    C19-19) echo "cargo test --offline -p vhost --features vhost-vdpa --test kern_uapi_iotlb_v1";;
    C14-18) echo "cargo test --offline -p vhost --features vhost-vdpa --lib demo_c14_2";;
    C09-19) echo "cargo test --offline -p vhost-user-backend --features postcopy --test postcopy_fd_accounting";;
  esac
}
ls -d /tmp/w7_C*/out/[0-9]* 2>/dev/null | while read d; do
  p=$(echo $d | sed 's#/tmp/w7_\(C[0-9]*\)/out/.*#\1#'); k=$(basename $d); id=$p-$((k+19))
  [ -f "$d/patch.diff" ] || continue
  [ -f seeded/$id/meta.json ] && continue
  echo "$p $d $id"
done > /tmp/seed_todo7.txt
wc -l /tmp/seed_todo7.txt
N=${SLOTS:-5}
i=0
while [ $i -lt $N ]; do
  ( awk -v n=$N -v i=$i 'NR%n==i' /tmp/seed_todo7.txt | while read p d id; do
      SEED_DEMO_CMD="$(demo_cmd $id)" SEED_SLOT=$i SEED_JOBS=3 python3 tools/seed_verify.py $p $d $id confirm > /tmp/seed_confirm_$id.log 2>&1
      echo "$id rc=$?"
    done ) &
  i=$((i+1))
done
wait
echo done
