#!/usr/bin/env python3
"""Round-7 prompt: all earlier changes listed; this time SMALL edits (one token / one line) at sites not yet touched."""
import json
import subprocess
import sys

pid, wt = sys.argv[1], sys.argv[2]
base = subprocess.run([sys.executable, "/verif/tools/agent_prompt.py", pid, wt], stdout=subprocess.PIPE, text=True).stdout
desc = json.load(open("/verif/seeded/descriptions.json"))
prev = ["  - %s" % v[0] for k, v in sorted(desc.items()) if k.startswith(pid + "-")]
extra = ("\n\nALREADY TRIED (by others) — do NOT deliver these or close variants of them (same site with a slightly different edit counts as "
         "a close variant):\n" + "\n".join(prev) +
         "\nNineteen changes have been tried already. Deliver 3 more SMALL changes — each a single-token or single-line edit of the kind a "
         "typo, a merge accident or a hasty review would leave behind — at code sites that none of the above touched: a comparison operator "
         "(`<` / `<=`, `==` / `!=`), an off-by-one in a bound or index, `&&` / `||`, a missing or extra `!`, a wrong constant / enum variant / "
         "feature bit of the same type, two arguments of the same type swapped, `x` used where `y` (same type) was meant, a wrong field of the "
         "same struct, `Some`/`None` or `Ok`/`Err` of the wrong arm, a dropped `?`, `=` instead of `|=` (or the reverse), an early `return`/`continue`/"
         "`break` one statement too early or too late, `iter()` / `iter().rev()` / `skip(1)`, `first()` / `last()`, `min` / `max`, `saturating_` / "
         "`wrapping_` / `checked_` arithmetic exchanged, a mask with one bit more or less, a cast to a narrower integer type. Read ALL the code "
         "the property touches first (both crates, including the less visited files: gpu_backend_req.rs, gpu_message.rs, backend.rs, "
         "frontend_req_handler.rs, backend_req.rs, vhost_kern/*, vring.rs, event_loop.rs, lib.rs, bitmap.rs) and pick sites where such a slip "
         "really breaks THIS property, still compiles without new warnings, and is not noticed by the existing tests. Deliver 3 changes. Favour kinds of slip the list above does not contain yet (look at which operators, constants, forwarders and bounds it already covers and pick others).\n")
marker = "For each change k = 1, 2, 3 create the directory"
i = base.index(marker)
out = base[:i] + extra.strip("\n") + "\n\n" + base[i:].replace("k = 1, 2, 3", "k = 1, 2, 3")
out = out.replace("produce up to 3 DIFFERENT", "produce 3 DIFFERENT").replace("Make the three changes", "Make the three changes")
print(out)
