#!/usr/bin/env python3
"""Print the prompt given to an independent sub-agent for seeding a property-breaking change.
Only the property's text and the scratch worktree path are given (nothing from /verif)."""
import json
import sys

pid, wt = sys.argv[1], sys.argv[2]
props = {json.loads(l)["id"]: json.loads(l) for l in open("/verif/properties.jsonl")}
p = props[pid]
print(f"""You are working in a scratch git worktree of the rust-vmm/vhost repository at {wt} (a Rust workspace with two crates: `vhost` — the vhost-user protocol endpoints, message framing with fd passing, kernel vhost/vDPA ioctl backends — and `vhost-user-backend` — a daemon framework for vhost-user device backends). Work ONLY inside {wt}; never touch /repo or /verif. The sandbox is offline: always pass `--offline` to cargo and set `CARGO_TARGET_DIR={wt}/target`.

The existing test suite (105 tests, all passing on the unmodified tree) is run with:
  cd {wt} && CARGO_TARGET_DIR={wt}/target cargo test --workspace --no-fail-fast --offline
A broader compile check is:
  cd {wt} && CARGO_TARGET_DIR={wt}/target cargo check --offline --workspace --features vhost/vhost-user-frontend,vhost/vhost-kern,vhost/vhost-vdpa,vhost/vhost-net,vhost/vhost-vsock,vhost/test-utils,vhost-user-backend/postcopy

PROPERTY that holds (as far as it is implemented) on the unmodified code — "{p['title']}":
{p['statement']}
It quantifies over: {p['quantifier']['text']}

YOUR TASK: produce up to 3 DIFFERENT, realistic changes to the library source (not to tests) each of which makes this property false, while
 (a) the workspace still compiles (both commands above),
 (b) the whole existing test suite still passes, unedited, and
 (c) the break needs something specific to manifest — a particular interleaving, a fault/crash at a particular point, a multi-step sequence of operations, an unusual input or boundary value, or two cooperating sites that each look fine alone — NOT something ordinary use would expose at once.
Think of plausible mistakes: a refactoring that drops a conjunct, an "optimisation" that reorders two steps, an off-by-one at a boundary, a wrong-but-similar constant/field/identifier, a check moved after the effect, an error path that forgets a cleanup, a condition inverted only for a rare case, etc. Prefer subtle, small patches a reviewer could miss. Make the three changes attack different parts/clauses of the property and different code sites.

For each change k = 1, 2, 3 create the directory {wt}/out/<k>/ containing:
  - patch.diff  : `git diff` of the library change against HEAD (library sources only)
  - demo.diff   : a separate patch that adds a demonstration (a new #[test] in an appropriate test module or tests/ file, or a small example program) which FAILS (or hangs past a timeout you set, or panics) WITH the change applied and PASSES WITHOUT it. Keep the demonstration deterministic where possible; if it needs a particular schedule, force it (barriers/sleeps/hooks inside the demo only).
  - README.md   : what the change is, which clause of the property it breaks and why, what it needs in order to manifest, and the exact commands you ran with their observed results: (1) existing suite passes with the change, (2) demo fails with the change, (3) demo passes without the change.
You must actually run and confirm (1), (2) and (3) for every change you deliver; drop any change for which you cannot. Restore the worktree between changes with `git -C {wt} checkout -- . && git -C {wt} clean -fdq -e out -e target`. If the property concerns kernel ioctls or anything that cannot be executed in this sandbox, the demonstration may be a test that checks the encoded request/number/layout/argument against the value the Linux UAPI prescribes.
Finish by replying with a short list of the changes you delivered (one line each: directory, file touched, one-sentence description). Do not ask questions; make reasonable decisions yourself.""")
