#!/usr/bin/env python3
"""Confirm a seeded change delivered by a sub-agent and file it under /verif/seeded/<id>/.

usage: tools/seed_verify.py <property> <delivery dir (…/out/k)> <seed id>

In a scratch worktree of /repo (outside /repo and /verif):
  1. patch.diff applies, the workspace compiles and the unedited suite passes (105 tests);
  2. with demo.diff added, at least one test fails (or the run times out);
  3. with patch.diff reverted (demo kept) everything passes.
Then the change is copied to /verif/seeded/<seed id>/ with meta.json, and every property's quick check is
run against /repo with the patch applied (and undone straight afterwards) to record which checks fire.
"""
import json
import os
import re
import shutil
import subprocess
import sys
import time

VERIF = os.path.dirname(os.path.dirname(os.path.abspath(__file__)))
REPO = "/repo"
WT = "/tmp/seedverify_wt"
TARGET = "/tmp/seedverify_target"


def sh(cmd, cwd=None, timeout=1500, env=None):
    e = dict(os.environ, CARGO_TARGET_DIR=TARGET, CARGO_NET_OFFLINE="true", CARGO_BUILD_JOBS=os.environ.get("SEED_JOBS", "16"))
    if env:
        e.update(env)
    try:
        r = subprocess.run(cmd, cwd=cwd, shell=True, stdout=subprocess.PIPE, stderr=subprocess.STDOUT, text=True, timeout=timeout, env=e)
        return r.returncode, r.stdout
    except subprocess.TimeoutExpired as ex:
        return 124, (ex.stdout or b"").decode() if isinstance(ex.stdout, bytes) else (ex.stdout or "")


def suite(cwd, timeout=900, cmd=None):
    rc, out = sh((cmd or "cargo test --workspace --no-fail-fast --offline") + " 2>&1", cwd=cwd, timeout=timeout)
    passed = sum(int(x) for x in re.findall(r"test result: \w+\. (\d+) passed", out))
    failed = re.findall(r"^test (\S+) \.\.\. FAILED", out, re.M)
    compile_err = "error: could not compile" in out or "error[E" in out
    return {"rc": rc, "passed": passed, "failed": failed, "compile_error": compile_err, "timeout": rc == 124, "tail": out[-1500:]}


def main():
    global WT, TARGET
    pid, ddir, sid = sys.argv[1], sys.argv[2], sys.argv[3]
    phase = sys.argv[4] if len(sys.argv) > 4 else "all"   # all | confirm | checks
    WT = "/tmp/seedverify_wt_%s" % sid
    slot = os.environ.get("SEED_SLOT")
    if slot:
        TARGET = "/tmp/seedverify_target_%s" % slot
    dst = os.path.join(VERIF, "seeded", sid)
    if phase == "checks":
        with open(os.path.join(dst, "meta.json")) as fh:
            res = json.load(fh)
        if not res.get("confirmed"):
            print("not confirmed; skipping checks")
            return 1
        return run_checks(pid, sid, os.path.join(dst, "patch.diff"), res, dst)
    patch = os.path.join(ddir, "patch.diff")
    demo = os.path.join(ddir, "demo.diff")
    for p in (patch, demo):
        if not os.path.exists(p):
            print("missing", p)
            return 2
    if os.path.isdir(WT):
        subprocess.run(["git", "-C", REPO, "worktree", "remove", "--force", WT])
    subprocess.run(["git", "-C", REPO, "worktree", "prune"])
    subprocess.check_call(["git", "-C", REPO, "worktree", "add", "-q", "--detach", WT, "HEAD"])
    res = {"property": pid, "seed": sid}
    try:
        rc, out = sh("git apply --whitespace=nowarn %s" % patch, cwd=WT)
        if rc != 0:
            print("patch does not apply:", out[-500:])
            return 2
        # touching only library sources?
        rc, names = sh("git diff --name-only", cwd=WT)
        res["files"] = names.split()
        rc, out = sh("cargo check --offline --workspace --features vhost/vhost-user-frontend,vhost/vhost-kern,vhost/vhost-vdpa,"
                     "vhost/vhost-net,vhost/vhost-vsock,vhost/test-utils,vhost-user-backend/postcopy 2>&1 | tail -5", cwd=WT)
        res["full_features_compile"] = "error" not in out
        s1 = suite(WT)
        res["suite_with_patch"] = {k: s1[k] for k in ("passed", "failed", "compile_error", "timeout")}
        ok1 = s1["passed"] >= 105 and not s1["failed"] and not s1["compile_error"] and not s1["timeout"]
        rc, out = sh("git apply --whitespace=nowarn %s" % demo, cwd=WT)
        if rc != 0:
            print("demo does not apply:", out[-500:])
            return 2
        dcmd = os.environ.get("SEED_DEMO_CMD")
        if dcmd:
            res["demo_cmd"] = dcmd
        s2 = suite(WT, timeout=600, cmd=dcmd)
        res["demo_with_patch"] = {k: s2[k] for k in ("passed", "failed", "compile_error", "timeout")}
        ok2 = (bool(s2["failed"]) or s2["timeout"]) and not s2["compile_error"]
        rc, out = sh("git apply -R --whitespace=nowarn %s" % patch, cwd=WT)
        if rc != 0:
            print("cannot revert patch:", out[-300:])
            return 2
        s3 = suite(WT, timeout=600, cmd=dcmd)
        res["demo_without_patch"] = {k: s3[k] for k in ("passed", "failed", "compile_error", "timeout")}
        ok3 = not s3["failed"] and not s3["compile_error"] and not s3["timeout"] and s3["passed"] > (0 if dcmd else 105 - 1)
        res["confirmed"] = bool(ok1 and ok2 and ok3)
        print(json.dumps(res, indent=1))
        if not res["confirmed"]:
            print("NOT CONFIRMED")
            if not ok1:
                print(s1["tail"][-800:])
            return 1
    finally:
        subprocess.run(["git", "-C", REPO, "worktree", "remove", "--force", WT])
    # file it
    os.makedirs(dst, exist_ok=True)
    shutil.copy(patch, os.path.join(dst, "patch.diff"))
    shutil.copy(demo, os.path.join(dst, "demo.diff"))
    rd = os.path.join(ddir, "README.md")
    if os.path.exists(rd):
        shutil.copy(rd, os.path.join(dst, "AGENT_README.md"))
    res["date"] = time.strftime("%Y-%m-%d")
    res["ran"] = ["cargo test --workspace --no-fail-fast --offline (with patch; with patch+demo; with demo only)",
                  "./check CNN --tier quick for all 20 properties with the patch applied to /repo (undone afterwards)"]
    with open(os.path.join(dst, "meta.json"), "w") as fh:
        json.dump(res, fh, indent=1)
    if phase == "confirm":
        print("confirmed and filed under", dst)
        return 0
    return run_checks(pid, sid, os.path.join(dst, "patch.diff"), res, dst)


def run_checks(pid, sid, patch, res, dst):
    # run the checks against /repo with the patch applied
    st = subprocess.run(["git", "-C", REPO, "status", "--porcelain"], stdout=subprocess.PIPE, text=True).stdout.strip()
    if st:
        print("/repo is not clean; not running checks")
        return 3
    fired = {}
    subprocess.check_call(["git", "-C", REPO, "apply", "--whitespace=nowarn", patch])
    try:
        props = [json.loads(l)["id"] for l in open(os.path.join(VERIF, "properties.jsonl"))]
        env = dict(os.environ, VERIF_OUT="/tmp/seedverify_out")
        import concurrent.futures

        def one(q):
            r = subprocess.run([os.path.join(VERIF, "check"), q, "--tier", "quick"], stdout=subprocess.PIPE, stderr=subprocess.STDOUT, text=True, env=env)
            rules = [l.strip()[5:].split(" at ")[0].split(": ")[0] for l in r.stdout.splitlines() if l.startswith("  rule ")]
            return q, r.returncode, rules
        # the first check extracts the facts of the patched tree; the others reuse them and run side by side
        results = [one(props[0])]
        with concurrent.futures.ThreadPoolExecutor(int(os.environ.get("SEED_CHECK_JOBS", "8"))) as ex:
            results += list(ex.map(one, props[1:]))
        for q, rc, rules in results:
            if rc == 1:
                fired[q] = rules[:6]
            elif rc == 2:
                fired[q] = ["<exit 2>"]
    finally:
        subprocess.check_call(["git", "-C", REPO, "checkout", "--", "."])
        subprocess.check_call(["git", "-C", REPO, "clean", "-fdq"])   # files the patch added
        shutil.rmtree("/tmp/seedverify_out", ignore_errors=True)
    res["checks_fired"] = fired
    res["caught_by_own_property"] = pid in fired
    with open(os.path.join(dst, "meta.json"), "w") as fh:
        json.dump(res, fh, indent=1)
    print("filed under", dst, "fired:", fired)
    return 0


if __name__ == "__main__":
    sys.exit(main())
