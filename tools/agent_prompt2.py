#!/usr/bin/env python3
"""Round-2 prompt: as agent_prompt.py plus the list of changes already delivered for this property (so that the new
ones differ).  The list describes earlier sub-agent output only; nothing about the checks in /verif is given."""
import json
import subprocess
import sys

pid, wt = sys.argv[1], sys.argv[2]
base = subprocess.run([sys.executable, "/verif/tools/agent_prompt.py", pid, wt], stdout=subprocess.PIPE, text=True).stdout
desc = json.load(open("/verif/seeded/descriptions.json"))
prev = ["  - %s" % v[0] for k, v in sorted(desc.items()) if k.startswith(pid + "-")]
extra = ("\n\nALREADY TRIED (by someone else) — do NOT deliver these or close variants of them; choose different clauses of the property, "
         "different functions and different kinds of mistake:\n" + "\n".join(prev) +
         "\nAim for breadth: at least one change in a file none of the above touched, and at least one that is a 'two cooperating sites' or "
         "'ordering of two steps' kind of mistake rather than a changed constant or operator.\n")
marker = "For each change k = 1, 2, 3 create the directory"
i = base.index(marker)
print(base[:i] + extra.strip("\n") + "\n\n" + base[i:])
