#!/usr/bin/env python3
"""Round-2 refactoring prompt: as agent_prompt_refactor.py plus the refactorings already delivered for the area."""
import glob
import os
import re
import subprocess
import sys

area, wt = sys.argv[1], sys.argv[2]
base = subprocess.run([sys.executable, "/verif/tools/agent_prompt_refactor.py", area, wt], stdout=subprocess.PIPE, text=True).stdout
prev = []
for d in sorted(glob.glob("/verif/refactors/rf-%s-*/AGENT_README.md" % area)):
    txt = open(d).read()
    first = [l.strip("# ").strip() for l in txt.splitlines() if l.strip()][:2]
    prev.append("  - " + " — ".join(first)[:300])
extra = ("\n\nALREADY DONE (by someone else) — do NOT repeat these; pick different functions and different kinds of clean-up:\n" + "\n".join(prev) +
         "\nThis time produce 5 changes, and include at least: one that replaces explicit loops/matches by iterator or Option/Result combinators "
         "(or the reverse direction); one that moves a block of logic into a new private helper taking several parameters, or inlines an existing "
         "private helper into all its callers; one that changes the order of two independent checks or statements (argue independence "
         "carefully); one that changes how a struct value is built (constructor call vs. struct-update/setters vs. literal) without changing "
         "the value; one that renames a private function/field/local and adjusts all uses.\n")
marker = "For each change k = 1..4 create the directory"
i = base.index(marker)
out = base[:i] + extra.strip("\n") + "\n\n" + base[i:].replace("k = 1..4", "k = 1..5")
out = out.replace("Produce 4 DIFFERENT", "Produce 5 DIFFERENT").replace("Make the 4 changes", "Make the 5 changes")
print(out)
