#!/usr/bin/env python3
"""Print the prompt given to an independent sub-agent for producing behaviour-preserving refactorings
(used to test the checks for false alarms). Nothing from /verif is given."""
import sys

area, wt = sys.argv[1], sys.argv[2]
AREAS = {
    "msg": "vhost/src/vhost_user/message.rs and vhost/src/vhost_user/gpu_message.rs (message structs, validators, flags)",
    "conn": "vhost/src/vhost_user/connection.rs and vhost/src/vhost_user/mod.rs (socket endpoint: send/receive helpers, fd passing, error types)",
    "fe": "vhost/src/vhost_user/frontend.rs, vhost/src/vhost_user/frontend_req_handler.rs, vhost/src/vhost_user/backend_req.rs and vhost/src/vhost_user/gpu_backend_req.rs (frontend endpoint, proxies, frontend-side request server)",
    "be": "vhost/src/vhost_user/backend_req_handler.rs and vhost/src/vhost_user/backend.rs (backend request server and handler traits/adapters)",
    "daemon": "vhost-user-backend/src/handler.rs, vhost-user-backend/src/lib.rs and vhost-user-backend/src/backend.rs (daemon request handler, daemon lifecycle)",
    "vring": "vhost-user-backend/src/vring.rs, vhost-user-backend/src/event_loop.rs and vhost-user-backend/src/bitmap.rs (vring state, worker event loop, dirty bitmap)",
    "kern": "vhost/src/vhost_kern/*.rs, vhost/src/vdpa.rs, vhost/src/backend.rs, vhost/src/net.rs, vhost/src/vsock.rs (kernel vhost / vDPA ioctl backends)",
}
print(f"""You are working in a scratch git worktree of the rust-vmm/vhost repository at {wt} (a Rust workspace with two crates: `vhost` — the vhost-user protocol endpoints, message framing with fd passing, kernel vhost/vDPA ioctl backends — and `vhost-user-backend` — a daemon framework for vhost-user device backends). Work ONLY inside {wt}; never touch /repo or /verif. The sandbox is offline: always pass `--offline` to cargo and set `CARGO_TARGET_DIR={wt}/target`.

The existing test suite (105 tests, all passing on the unmodified tree) is run with:
  cd {wt} && CARGO_TARGET_DIR={wt}/target cargo test --workspace --no-fail-fast --offline
A broader compile check is:
  cd {wt} && CARGO_TARGET_DIR={wt}/target cargo check --offline --workspace --features vhost/vhost-user-frontend,vhost/vhost-kern,vhost/vhost-vdpa,vhost/vhost-net,vhost/vhost-vsock,vhost/test-utils,vhost-user-backend/postcopy

YOUR TASK: act as a careful maintainer doing routine clean-up. Produce 4 DIFFERENT, realistic, strictly BEHAVIOUR-PRESERVING changes to the library source in this area: {AREAS[area]}.
Every observable behaviour must stay exactly the same for every input, schedule and history: same bytes on the wire, same accepted/rejected inputs, same error values, same order of side effects (I/O, fd handling, locking, callbacks), same panics (none added, none removed). Typical examples of what maintainers really do: rename locals or private helpers; extract a private helper function out of a long function, or inline a small private helper into its only callers; replace a `match` by `if let`/`?`/combinators (`map_err`, `ok_or`, `and_then`) or the other way round; restructure early returns into nested ifs or vice versa; reorder two provably independent pure computations; replace an index loop by an iterator chain; introduce a named constant for a literal (same value); replace `a as u64` by `u64::from(a)`; split or merge `impl` blocks; move a function to another module of the same crate (keeping its path re-exported where public); add a doc comment, a `debug_assert!`-free log-free comment, `#[inline]`, `#[must_use]`; add a new private field or a new public method that nothing existing uses; De Morgan / condition re-association that is exactly equivalent (be careful with overflow and short-circuit order of side effects); change `&Vec<T>` to `&[T]` parameters; replace a hand-written loop by an equivalent std method.
Make the 4 changes of different kinds and at different code sites; each should touch real logic (not only comments/formatting) and be 5–60 changed lines. Do NOT fix bugs, do NOT change any behaviour, do NOT touch tests.

For each change k = 1..4 create the directory {wt}/out/<k>/ containing:
  - patch.diff : `git diff` of the library change against HEAD (library sources only)
  - README.md  : what the change is, and a short argument why it is behaviour-preserving for all inputs; plus the commands you ran and their results.
For every change you must actually run both commands above with the change applied and confirm that the workspace compiles and all 105 tests pass. Restore the worktree between changes with `git -C {wt} checkout -- . && git -C {wt} clean -fdq -e out -e target`.
Finish by replying with a short list of the changes you delivered (one line each: directory, file touched, one-sentence description). Do not ask questions; make reasonable decisions yourself.""")
