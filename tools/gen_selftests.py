#!/usr/bin/env python3
"""Regenerate selftest/seeded_cNN.json and selftest/refactors_cNN.json from the last full scans
(tools/seed_scan.py -> /tmp/scan_seeded.json, tools/seed_scan.py --refactors -> /tmp/scan_refactors.json).

seeded_cNN: every independent seeded change against its own property (must be reported) and against at most two sibling
properties whose quick check fires on it; the expectation is the rule id of the first report.
refactors_cNN: every behaviour-preserving refactoring against the properties of its code area (must stay silent); the
(refactoring, property) pairs that are documented limits (DESIGN §9.5) are left out.
"""
import json
import os
import sys

VERIF = os.path.dirname(os.path.dirname(os.path.abspath(__file__)))
AREA_PROPS = {
    "be": ["C01", "C02", "C03", "C04", "C05", "C06", "C07", "C08", "C09", "C10", "C20"],
    "conn": ["C01", "C03", "C04", "C05", "C06", "C08", "C09", "C10"],
    "daemon": ["C02", "C03", "C05", "C11", "C12", "C13", "C14", "C15", "C16", "C17"],
    "fe": ["C01", "C02", "C03", "C05", "C06", "C07", "C10", "C16", "C18"],
    "kern": ["C14", "C19"],
    "msg": ["C01", "C02", "C03", "C04", "C05", "C06", "C10", "C13", "C18", "C20"],
    "vring": ["C02", "C03", "C05", "C09", "C11", "C12", "C14", "C15", "C17"],
}
# documented limits: refactorings on which these properties' checks still report "cannot certify" (DESIGN §9.5)
LIMITS = {"r4-be-2", "r4-be-3", "r4-conn-2", "r4-fe-2"}


def main():
    seeds = json.load(open("/tmp/scan_seeded.json"))
    refs = json.load(open("/tmp/scan_refactors.json"))
    props = ["C%02d" % i for i in range(1, 21)]
    per = {p: [] for p in props}
    missing = []
    for sid in sorted(seeds, key=lambda s: (s.split("-")[0], int(s.split("-")[1]))):
        fired = seeds[sid]
        own = sid.split("-")[0]
        if own not in fired:
            missing.append(sid)
            continue
        sibs = [q for q in sorted(fired) if q != own][:2]
        for q in [own] + sibs:
            rule = fired[q][0].split(":")[0]
            per[q].append({"id": "seed-%s@%s" % (sid, q), "patch": "seeded/%s/patch.diff" % sid, "expect": rule + ":"})
    for p in props:
        with open(os.path.join(VERIF, "selftest", "seeded_%s.json" % p.lower()), "w") as fh:
            json.dump({"property": p, "variants": per[p]}, fh, indent=1)
    n_seed = sum(len(v) for v in per.values())
    per = {p: [] for p in props}
    alarms = []
    for rid in sorted(refs):
        area = rid.split("-")[1]
        for q in AREA_PROPS.get(area, []):
            if q in refs[rid]:
                alarms.append((rid, q))
                if rid in LIMITS:
                    continue
            per[q].append({"id": "refactor-%s@%s" % (rid, q), "patch": "refactors/%s/patch.diff" % rid, "silent": True})
    for p in props:
        with open(os.path.join(VERIF, "selftest", "refactors_%s.json" % p.lower()), "w") as fh:
            json.dump({"property": p, "variants": per[p]}, fh, indent=1)
    n_ref = sum(len(v) for v in per.values())
    print("seed instances: %d (%d seeds; not caught by own property: %s)" % (n_seed, len(seeds), missing))
    print("refactor instances: %d (%d refactorings); alarming pairs: %s" % (n_ref, len(refs), alarms))
    return 1 if missing or [a for a in alarms if a[0] not in LIMITS] else 0


if __name__ == "__main__":
    sys.exit(main())
