#!/bin/sh
# usage: tools/dbg.sh <patch|seed id|-> <python file>   — run a python snippet with `fb` = FactBase("full") of /tmp/dev_wt (+patch)
P=$1; S=$2
WT=${RF_WT:-/tmp/dev_wt}
[ -d "$WT" ] || git -C /repo worktree add -q --detach "$WT" HEAD   # scratch worktree (remove with: git -C /repo worktree remove --force $WT)
git -C $WT checkout -q -- . && git -C $WT clean -fdq
if [ "$P" != "-" ]; then
  [ -f "$P" ] || { [ -f /verif/refactors/$P/patch.diff ] && P=/verif/refactors/$P/patch.diff; }
  [ -f "$P" ] || { [ -f /verif/seeded/$P/patch.diff ] && P=/verif/seeded/$P/patch.diff; }
  git -C $WT apply --whitespace=nowarn $P || exit 2
fi
cd /verif && VERIF_REPO=$WT VERIF_BUILD=${WT}_build VERIF_OUT=${WT}_out python3 -c "
import sys; sys.path.insert(0,'/verif')
from vlint.facts import FactBase
fb = FactBase('${DBG_CFG:-full}')
exec(open('$S').read())
" 2>&1 | grep -v '^\[facts\]'
git -C $WT checkout -q -- .; git -C $WT clean -fdq
