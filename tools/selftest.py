#!/usr/bin/env python3
"""Checker self-validation: apply seeded one-line variants to a scratch copy of /repo (outside
/repo and /verif), re-run the property's quick check against the copy and require that the
named rule reports the seeded instance. Scratch copies and their build output are removed.

usage: tools/selftest.py [CNN ...] [--jobs N] [--only id-substring] [--keep]
Exit 0: every applicable variant was flagged; 2: some applicable variant was NOT flagged
(checker defect); variants whose anchor text no longer occurs exactly once are 'not applicable'.
"""
import argparse
import concurrent.futures
import glob
import json
import os
import shutil
import subprocess
import sys
import tempfile

VERIF = os.path.dirname(os.path.dirname(os.path.abspath(__file__)))
REPO = "/repo"


def load_variants(pids, only=None):
    out = []
    for p in sorted(glob.glob(os.path.join(VERIF, "selftest", "*.json"))):
        with open(p) as fh:
            data = json.load(fh)
        for v in data["variants"]:
            v.setdefault("property", data.get("property"))
            if pids and v["property"] not in pids:
                continue
            if only and only not in v["id"]:
                continue
            out.append(v)
    return out


def run_worker(wid, variants, keep=False):
    results = []
    root = tempfile.mkdtemp(prefix="vsel%d_" % wid, dir=os.environ.get("VERIF_SCRATCH", "/tmp"))
    try:
        scratch = os.path.join(root, "repo")
        build = os.path.join(root, "build")
        out = os.path.join(root, "out")
        os.makedirs(build)
        # warm third-party build output by hard-linking the main target dir when present
        main_t = os.path.join(VERIF, "build", "target")
        if os.path.isdir(main_t):
            subprocess.run(["cp", "-al", main_t, os.path.join(build, "target")], check=False)
        subprocess.run(["rsync", "-a", "--exclude", "target", "--exclude", ".git", REPO + "/", scratch + "/"],
                       check=True)
        for v in variants:
            res = {"id": v["id"], "property": v["property"], "expect": v.get("expect")}
            edits = v.get("edits") or [v]
            originals = {}
            applicable = True
            if v.get("patch"):
                # a whole patch (an independently seeded change or a refactoring kept under /verif)
                edits = []
                pfile = os.path.join(VERIF, v["patch"])
                touched = [l[6:].strip() for l in open(pfile) if l.startswith("+++ b/")]
                for rel in touched:
                    pth = os.path.join(scratch, rel)
                    originals[pth] = open(pth).read() if os.path.exists(pth) else None
                pr = subprocess.run(["patch", "-p1", "-s", "--no-backup-if-mismatch", "-d", scratch, "-i", pfile],
                                    stdout=subprocess.PIPE, stderr=subprocess.STDOUT, text=True)
                if pr.returncode != 0:
                    applicable = False
                    res["why"] = "patch does not apply: %s" % pr.stdout[-200:]
            for e in edits:
                path = os.path.join(scratch, e["file"])
                try:
                    src = originals.get(path) if path in originals else open(path).read()
                except OSError:
                    applicable = False
                    break
                cur = open(path).read()
                if cur.count(e["find"]) != 1:
                    applicable = False
                    res["why"] = "anchor text occurs %d times in %s" % (cur.count(e["find"]), e["file"])
                    break
                originals.setdefault(path, cur)
                with open(path, "w") as fh:
                    fh.write(cur.replace(e["find"], e["replace"]))
            if not applicable:
                for path, src in originals.items():
                    if src is None:
                        if os.path.exists(path):
                            os.remove(path)
                        continue
                    with open(path, "w") as fh:
                        fh.write(src)
                res["status"] = "not-applicable"
                results.append(res)
                continue
            env = dict(os.environ, VERIF_REPO=scratch, VERIF_BUILD=build, VERIF_OUT=out)
            r = subprocess.run([os.path.join(VERIF, "check"), v["property"], "--tier", "quick"],
                               env=env, stdout=subprocess.PIPE, stderr=subprocess.STDOUT, text=True)
            outp = r.stdout
            fired = []
            for line in outp.splitlines():
                if line.startswith("  rule "):
                    fired.append(line.strip())
            want = v.get("expect", "")
            hit = [l for l in fired if want in l]
            if v.get("silent"):
                # negative control: a behaviour-preserving edit must not raise an alarm
                res["status"] = "silent-ok" if r.returncode == 0 else "FALSE-ALARM"
                if r.returncode != 0:
                    res["out"] = outp[-800:]
            elif r.returncode == 2:
                res["status"] = "does-not-build"
                res["out"] = outp[-1500:]
            elif r.returncode == 1 and hit:
                res["status"] = "fired"
                res["report"] = hit[0][:300]
            elif r.returncode == 1:
                res["status"] = "fired-other"
                res["report"] = fired[:3]
            else:
                res["status"] = "MISSED"
                res["out"] = outp[-600:]
            results.append(res)
            for path, src in originals.items():
                if src is None:
                    if os.path.exists(path):
                        os.remove(path)
                    continue
                with open(path, "w") as fh:
                    fh.write(src)
    finally:
        if not keep:
            shutil.rmtree(root, ignore_errors=True)
    return results


def main():
    ap = argparse.ArgumentParser()
    ap.add_argument("pids", nargs="*")
    ap.add_argument("--jobs", type=int, default=6)
    ap.add_argument("--only")
    ap.add_argument("--keep", action="store_true")
    ap.add_argument("--json")
    a = ap.parse_args()
    pids = [p.upper() for p in a.pids]
    vs = load_variants(pids, a.only)
    if not vs:
        print("no variants")
        return 0
    jobs = max(1, min(a.jobs, len(vs)))
    chunks = [vs[i::jobs] for i in range(jobs)]
    results = []
    with concurrent.futures.ThreadPoolExecutor(jobs) as ex:
        for rs in ex.map(lambda iv: run_worker(iv[0], iv[1], a.keep), enumerate(chunks)):
            results.extend(rs)
    results.sort(key=lambda r: r["id"])
    bad = 0
    for r in results:
        st = r["status"]
        print("%-14s %-40s %s" % (st, r["id"], r.get("report") or r.get("why") or ""))
        if st in ("MISSED", "does-not-build", "fired-other", "FALSE-ALARM"):
            bad += 1
            if r.get("out"):
                print("    " + r["out"].replace("\n", "\n    "))
    n_app = len([r for r in results if r["status"] != "not-applicable"])
    n_fired = len([r for r in results if r["status"] in ("fired", "silent-ok")])
    print("selftest: fired %d/%d applicable (%d not applicable)" % (n_fired, n_app, len(results) - n_app))
    if a.json:
        with open(a.json, "w") as fh:
            json.dump(results, fh, indent=1)
    return 2 if bad else 0


if __name__ == "__main__":
    sys.exit(main())
