// factgen: rustc_private driver that dumps type-checked facts (MIR bodies, ADT layouts,
// constants, impl tables) of the workspace crates as JSON lines. No rule logic lives here.
//
// Usage (as RUSTC_WORKSPACE_WRAPPER): factgen <rustc> <rustc args...>
// Env: FACTGEN_OUT = directory for <crate>.jsonl ; FACTGEN_CRATES = comma list of crate names.
#![feature(rustc_private)]
#![allow(clippy::all)]

extern crate rustc_abi;
extern crate rustc_driver;
extern crate rustc_hir;
extern crate rustc_interface;
extern crate rustc_middle;
extern crate rustc_span;

use std::collections::BTreeMap;
use std::fmt::Write as _;

use rustc_driver::Compilation;
use rustc_hir::def::DefKind;
use rustc_hir::def_id::{DefId, LOCAL_CRATE};
use rustc_middle::mir::{
    self, AggregateKind, BinOp, Body, CastKind, Const, ConstValue, Operand, Place, PlaceElem,
    Rvalue, StatementKind, TerminatorKind, UnwindAction,
};
use rustc_middle::ty::print::{with_no_trimmed_paths, with_resolve_crate_name};
use rustc_middle::ty::{self, Instance, Ty, TyCtxt, TypingEnv};
use rustc_span::Span;

// ---------------------------------------------------------------- JSON helpers

fn esc(s: &str) -> String {
    let mut o = String::with_capacity(s.len() + 2);
    o.push('"');
    for c in s.chars() {
        match c {
            '"' => o.push_str("\\\""),
            '\\' => o.push_str("\\\\"),
            '\n' => o.push_str("\\n"),
            '\r' => o.push_str("\\r"),
            '\t' => o.push_str("\\t"),
            c if (c as u32) < 0x20 => {
                let _ = write!(o, "\\u{:04x}", c as u32);
            }
            c => o.push(c),
        }
    }
    o.push('"');
    o
}

struct Obj(String);
impl Obj {
    fn new() -> Self {
        Obj(String::from("{"))
    }
    fn sep(&mut self) {
        if self.0.len() > 1 {
            self.0.push(',');
        }
    }
    fn s(mut self, k: &str, v: &str) -> Self {
        self.sep();
        let _ = write!(self.0, "{}:{}", esc(k), esc(v));
        self
    }
    fn raw(mut self, k: &str, v: &str) -> Self {
        self.sep();
        let _ = write!(self.0, "{}:{}", esc(k), v);
        self
    }
    fn n(self, k: &str, v: i128) -> Self {
        let s = v.to_string();
        self.raw(k, &s)
    }
    fn u(self, k: &str, v: u128) -> Self {
        // JSON numbers: python parses arbitrary ints.
        let s = v.to_string();
        self.raw(k, &s)
    }
    fn b(self, k: &str, v: bool) -> Self {
        self.raw(k, if v { "true" } else { "false" })
    }
    fn opt_s(self, k: &str, v: Option<&str>) -> Self {
        match v {
            Some(v) => self.s(k, v),
            None => self.raw(k, "null"),
        }
    }
    fn end(mut self) -> String {
        self.0.push('}');
        self.0
    }
}

fn arr(items: Vec<String>) -> String {
    let mut o = String::from("[");
    for (i, it) in items.iter().enumerate() {
        if i > 0 {
            o.push(',');
        }
        o.push_str(it);
    }
    o.push(']');
    o
}

// ---------------------------------------------------------------- context

struct Cx<'tcx> {
    tcx: TyCtxt<'tcx>,
    crate_name: String,
    // concrete ADT types seen (type string -> Ty) for layout records
    seen_tys: BTreeMap<String, Ty<'tcx>>,
}

impl<'tcx> Cx<'tcx> {
    fn ty_str(&self, ty: Ty<'tcx>) -> String {
        with_resolve_crate_name!(with_no_trimmed_paths!(ty.to_string()))
    }

    fn def_key(&self, did: DefId) -> String {
        let tcx = self.tcx;
        let krate = tcx.crate_name(did.krate).to_string();
        format!("{}{}", krate, tcx.def_path(did).to_string_no_crate_verbose())
    }

    fn def_path(&self, did: DefId) -> String {
        with_resolve_crate_name!(with_no_trimmed_paths!(self.tcx.def_path_str(did)))
    }

    fn loc(&self, span: Span) -> (String, usize) {
        let sm = self.tcx.sess.source_map();
        let lo = sm.lookup_char_pos(span.lo());
        let f = match &lo.file.name {
            rustc_span::FileName::Real(r) => match r.local_path() {
                Some(p) => p.display().to_string(),
                None => format!("{:?}", r),
            },
            other => format!("{:?}", other),
        };
        (f, lo.line)
    }

    fn note_ty(&mut self, ty: Ty<'tcx>) {
        // record concrete ADTs (peeling refs, raw pointers, slices, arrays, tuples one level deep)
        let mut stack = vec![ty];
        let mut depth = 0;
        while let Some(t) = stack.pop() {
            depth += 1;
            if depth > 64 {
                break;
            }
            match t.kind() {
                ty::Ref(_, inner, _) => stack.push(*inner),
                ty::RawPtr(inner, _) => stack.push(*inner),
                ty::Slice(inner) => stack.push(*inner),
                ty::Array(inner, _) => stack.push(*inner),
                ty::Tuple(ts) => {
                    for x in ts.iter() {
                        stack.push(x);
                    }
                }
                ty::Adt(def, args) => {
                    use rustc_middle::ty::TypeVisitableExt;
                    if !t.has_non_region_param() && !t.has_escaping_bound_vars() {
                        let krate = self.tcx.crate_name(def.did().krate).to_string();
                        if krate == "vhost" || krate == "vhost_user_backend" {
                            let s = self.ty_str(t);
                            self.seen_tys.entry(s).or_insert(t);
                        }
                    }
                    for a in args.iter() {
                        if let Some(t2) = a.as_type() {
                            stack.push(t2);
                        }
                    }
                }
                _ => {}
            }
        }
    }

    // ------------------------------------------------------------ def description

    /// Describe a function-like DefId: name, container (impl self type / trait), kind.
    fn fn_ident(&self, did: DefId) -> Obj {
        let tcx = self.tcx;
        let mut o = Obj::new().s("key", &self.def_key(did)).s("path", &self.def_path(did));
        let name = tcx.opt_item_name(did).map(|s| s.to_string());
        o = o.opt_s("name", name.as_deref());
        let kind = tcx.def_kind(did);
        o = o.s("dk", &format!("{:?}", kind));
        if matches!(kind, DefKind::AssocFn) {
            let parent = tcx.parent(did);
            match tcx.def_kind(parent) {
                DefKind::Impl { of_trait } => {
                    let self_ty = tcx.type_of(parent).instantiate_identity().skip_norm_wip();
                    o = o.s("self_ty", &self.ty_str(self_ty));
                    if let ty::Adt(adt, _) = self_ty.kind() {
                        o = o.s("self_adt", &self.def_path(adt.did()));
                    }
                    if of_trait {
                        let tr = tcx.impl_trait_ref(parent).instantiate_identity().skip_norm_wip();
                        o = o.s("trait", &self.def_path(tr.def_id));
                        o = o.s("trait_ref", &with_resolve_crate_name!(with_no_trimmed_paths!(tr.to_string())));
                    }
                }
                DefKind::Trait => {
                    o = o.s("trait", &self.def_path(parent)).b("trait_decl", true);
                }
                _ => {}
            }
        } else if matches!(kind, DefKind::Closure) {
            let parent = tcx.typeck_root_def_id(did);
            o = o.s("closure_of", &self.def_key(parent));
        }
        o
    }

    // ------------------------------------------------------------ MIR pieces

    fn place(&mut self, body: &Body<'tcx>, p: &Place<'tcx>) -> String {
        let tcx = self.tcx;
        let mut projs = Vec::new();
        let mut pty = mir::PlaceTy::from_ty(body.local_decls[p.local].ty);
        for elem in p.projection.iter() {
            let s = match elem {
                PlaceElem::Deref => Obj::new().s("k", "deref").end(),
                PlaceElem::Field(f, fty) => {
                    let mut o = Obj::new().s("k", "field").n("i", f.as_usize() as i128);
                    let mut fname: Option<String> = None;
                    if let ty::Adt(adt, _) = pty.ty.kind() {
                        let vi = pty.variant_index.unwrap_or(rustc_abi::FIRST_VARIANT);
                        if adt.is_enum() || adt.is_struct() || adt.is_union() {
                            if let Some(v) = adt.variants().get(vi) {
                                if let Some(fd) = v.fields.get(f) {
                                    fname = Some(fd.name.to_string());
                                }
                            }
                        }
                        o = o.s("adt", &self.def_path(adt.did()));
                    }
                    o = o.opt_s("n", fname.as_deref());
                    o = o.s("ty", &self.ty_str(fty));
                    o.end()
                }
                PlaceElem::Index(l) => Obj::new().s("k", "index").n("l", l.as_usize() as i128).end(),
                PlaceElem::ConstantIndex { offset, min_length, from_end } => Obj::new()
                    .s("k", "cidx")
                    .n("off", offset as i128)
                    .n("min", min_length as i128)
                    .b("end", from_end)
                    .end(),
                PlaceElem::Subslice { from, to, from_end } => Obj::new()
                    .s("k", "sub")
                    .n("from", from as i128)
                    .n("to", to as i128)
                    .b("end", from_end)
                    .end(),
                PlaceElem::Downcast(name, vi) => {
                    let mut n = name.map(|s| s.to_string());
                    if n.is_none() {
                        if let ty::Adt(adt, _) = pty.ty.kind() {
                            n = Some(adt.variant(vi).name.to_string());
                        }
                    }
                    Obj::new()
                        .s("k", "down")
                        .opt_s("v", n.as_deref())
                        .n("i", vi.as_usize() as i128)
                        .end()
                }
                PlaceElem::OpaqueCast(t) => Obj::new().s("k", "opaque").s("ty", &self.ty_str(t)).end(),
                PlaceElem::UnwrapUnsafeBinder(t) => {
                    Obj::new().s("k", "unbind").s("ty", &self.ty_str(t)).end()
                }
            };
            projs.push(s);
            pty = pty.projection_ty(tcx, elem);
        }
        Obj::new().n("l", p.local.as_usize() as i128).raw("p", &arr(projs)).end()
    }

    fn alloc_bytes(&self, alloc_id: mir::interpret::AllocId, offset: u64, len: Option<u64>) -> Option<String> {
        let tcx = self.tcx;
        let ga = tcx.try_get_global_alloc(alloc_id)?;
        let mem = match ga {
            mir::interpret::GlobalAlloc::Memory(m) => m,
            _ => return None,
        };
        let alloc = mem.inner();
        let total = alloc.len() as u64;
        if offset > total {
            return None;
        }
        let end = match len {
            Some(l) => (offset + l).min(total),
            None => total,
        };
        if end - offset > 4096 {
            return None;
        }
        let bytes = alloc.inspect_with_uninit_and_ptr_outside_interpreter(offset as usize..end as usize);
        let mut s = String::new();
        for b in bytes {
            let _ = write!(s, "{:02x}", b);
        }
        Some(s)
    }

    fn constant(&mut self, owner: DefId, c: &Const<'tcx>) -> String {
        let tcx = self.tcx;
        let ty = c.ty();
        let mut o = Obj::new().s("k", "const").s("ty", &self.ty_str(ty));
        // function items
        if let ty::FnDef(did, args) = ty.kind() {
            o = o.raw("fn", &self.callee(owner, *did, args));
            return o.end();
        }
        if let ty::Closure(did, _) = ty.kind() {
            o = o.s("closure", &self.def_key(*did));
        }
        if let Const::Unevaluated(u, _) = c {
            o = o.s("def", &self.def_path(u.def)).s("def_key", &self.def_key(u.def));
            if let Some(p) = u.promoted {
                o = o.n("promoted", p.as_usize() as i128);
            }
        }
        let tenv = TypingEnv::post_analysis(tcx, owner);
        use rustc_middle::ty::TypeVisitableExt;
        let generic = match c {
            Const::Unevaluated(u, _) => u.args.has_non_region_param(),
            Const::Ty(_, ct) => ct.has_non_region_param(),
            Const::Val(..) => false,
        };
        if generic {
            return o.b("generic", true).end();
        }
        match c.eval(tcx, tenv, rustc_span::DUMMY_SP) {
            Ok(ConstValue::Scalar(mir::interpret::Scalar::Int(i))) => {
                let size = i.size();
                let bits = i.to_bits(size);
                o = o.u("v", bits).n("sz", size.bytes() as i128);
                if ty.is_signed() {
                    let sv = size.sign_extend(bits);
                    o = o.n("sv", sv as i128);
                }
            }
            Ok(ConstValue::Scalar(mir::interpret::Scalar::Ptr(ptr, _))) => {
                let (prov, off) = ptr.into_raw_parts();
                let alloc_id = prov.alloc_id();
                // pointee size if known
                let mut len = None;
                if let Some(inner) = ty.builtin_deref(true) {
                    if let Ok(l) = tcx.layout_of(tenv.as_query_input(inner)) {
                        len = Some(l.size.bytes());
                    }
                }
                if let Some(h) = self.alloc_bytes(alloc_id, off.bytes(), len) {
                    o = o.s("pointee", &h);
                }
                o = o.b("ptr", true);
            }
            Ok(ConstValue::ZeroSized) => {
                o = o.b("zst", true);
            }
            Ok(ConstValue::Slice { alloc_id, meta }) => {
                if let Some(h) = self.alloc_bytes(alloc_id, 0, None) {
                    o = o.s("slice", &h);
                }
                o = o.n("meta", meta as i128);
            }
            Ok(ConstValue::Indirect { alloc_id, offset }) => {
                let mut len = None;
                if let Ok(l) = tcx.layout_of(tenv.as_query_input(ty)) {
                    len = Some(l.size.bytes());
                }
                if let Some(h) = self.alloc_bytes(alloc_id, offset.bytes(), len) {
                    o = o.s("bytes", &h);
                }
            }
            Err(_) => {
                o = o.b("evalerr", true);
            }
        }
        o.end()
    }

    fn operand(&mut self, owner: DefId, body: &Body<'tcx>, op: &Operand<'tcx>) -> String {
        match op {
            Operand::Copy(p) => Obj::new().s("k", "copy").raw("pl", &self.place(body, p)).end(),
            Operand::Move(p) => Obj::new().s("k", "move").raw("pl", &self.place(body, p)).end(),
            Operand::Constant(c) => self.constant(owner, &c.const_),
            #[allow(unreachable_patterns)]
            _ => Obj::new().s("k", "other").s("dbg", &format!("{:?}", op)).end(),
        }
    }

    fn callee(&mut self, owner: DefId, did: DefId, args: ty::GenericArgsRef<'tcx>) -> String {
        let tcx = self.tcx;
        let mut o = self.fn_ident(did);
        let gargs: Vec<String> = args
            .iter()
            .filter_map(|a| a.as_type().map(|t| esc(&self.ty_str(t))))
            .collect();
        o = o.raw("gargs", &arr(gargs));
        for a in args.iter() {
            if let Some(t) = a.as_type() {
                self.note_ty(t);
            }
        }
        o = o.b("local", did.is_local());
        // is it a trait item (declared in a trait)?
        let in_trait = tcx.trait_of_assoc(did);
        if let Some(tr) = in_trait {
            o = o.s("of_trait", &self.def_path(tr));
            if let Some(a0) = args.iter().next().and_then(|a| a.as_type()) {
                o = o.s("recv_ty", &self.ty_str(a0));
            }
        }
        if matches!(tcx.def_kind(did), DefKind::Fn | DefKind::AssocFn) {
            let tenv = TypingEnv::post_analysis(tcx, owner);
            if let Ok(Some(inst)) = Instance::try_resolve(tcx, tenv, did, args) {
                let rdid = inst.def_id();
                let kind = match inst.def {
                    ty::InstanceKind::Item(_) => "item",
                    ty::InstanceKind::Virtual(..) => "virtual",
                    ty::InstanceKind::Intrinsic(_) => "intrinsic",
                    ty::InstanceKind::ClosureOnceShim { .. } => "closure_once",
                    ty::InstanceKind::FnPtrShim(..) => "fnptr_shim",
                    ty::InstanceKind::DropGlue(..) => "drop_glue",
                    ty::InstanceKind::CloneShim(..) => "clone_shim",
                    ty::InstanceKind::ReifyShim(..) => "reify",
                    _ => "other",
                };
                if rdid != did || in_trait.is_some() {
                    let r = self.fn_ident(rdid).s("ik", kind).b("local", rdid.is_local());
                    let rg: Vec<String> = inst
                        .args
                        .iter()
                        .filter_map(|a| a.as_type().map(|t| esc(&self.ty_str(t))))
                        .collect();
                    o = o.raw("res", &r.raw("gargs", &arr(rg)).end());
                } else {
                    o = o.s("ik", kind);
                }
            }
        }
        o.end()
    }

    fn rvalue(&mut self, owner: DefId, body: &Body<'tcx>, rv: &Rvalue<'tcx>) -> String {
        match rv {
            Rvalue::Use(op, _) => Obj::new().s("k", "use").raw("op", &self.operand(owner, body, op)).end(),
            Rvalue::Repeat(op, n) => Obj::new()
                .s("k", "repeat")
                .raw("op", &self.operand(owner, body, op))
                .s("n", &format!("{}", n))
                .end(),
            Rvalue::Ref(_, bk, p) => Obj::new()
                .s("k", "ref")
                .s("bk", match bk {
                    mir::BorrowKind::Shared => "shared",
                    mir::BorrowKind::Fake(_) => "fake",
                    mir::BorrowKind::Mut { .. } => "mut",
                })
                .raw("pl", &self.place(body, p))
                .end(),
            Rvalue::ThreadLocalRef(d) => Obj::new().s("k", "tls").s("def", &self.def_path(*d)).end(),
            Rvalue::RawPtr(k, p) => Obj::new()
                .s("k", "rawptr")
                .s("bk", &format!("{:?}", k))
                .raw("pl", &self.place(body, p))
                .end(),
            Rvalue::Cast(ck, op, ty) => {
                let cks = match ck {
                    CastKind::IntToInt => "IntToInt".to_string(),
                    CastKind::PtrToPtr => "PtrToPtr".to_string(),
                    CastKind::Transmute => "Transmute".to_string(),
                    CastKind::PointerCoercion(pc, _) => format!("PointerCoercion({:?})", pc),
                    other => format!("{:?}", other),
                };
                let from_ty = op.ty(&body.local_decls, self.tcx);
                Obj::new()
                    .s("k", "cast")
                    .s("ck", &cks)
                    .raw("op", &self.operand(owner, body, op))
                    .s("from", &self.ty_str(from_ty))
                    .s("ty", &self.ty_str(*ty))
                    .end()
            }
            Rvalue::BinaryOp(op, ab) => {
                let (a, b) = &**ab;
                let ops = match op {
                    BinOp::Add => "Add",
                    BinOp::AddUnchecked => "AddUnchecked",
                    BinOp::AddWithOverflow => "AddWithOverflow",
                    BinOp::Sub => "Sub",
                    BinOp::SubUnchecked => "SubUnchecked",
                    BinOp::SubWithOverflow => "SubWithOverflow",
                    BinOp::Mul => "Mul",
                    BinOp::MulUnchecked => "MulUnchecked",
                    BinOp::MulWithOverflow => "MulWithOverflow",
                    BinOp::Div => "Div",
                    BinOp::Rem => "Rem",
                    BinOp::BitXor => "BitXor",
                    BinOp::BitAnd => "BitAnd",
                    BinOp::BitOr => "BitOr",
                    BinOp::Shl => "Shl",
                    BinOp::ShlUnchecked => "ShlUnchecked",
                    BinOp::Shr => "Shr",
                    BinOp::ShrUnchecked => "ShrUnchecked",
                    BinOp::Eq => "Eq",
                    BinOp::Lt => "Lt",
                    BinOp::Le => "Le",
                    BinOp::Ne => "Ne",
                    BinOp::Ge => "Ge",
                    BinOp::Gt => "Gt",
                    BinOp::Cmp => "Cmp",
                    BinOp::Offset => "Offset",
                };
                let aty = a.ty(&body.local_decls, self.tcx);
                Obj::new()
                    .s("k", "bin")
                    .s("op", ops)
                    .raw("a", &self.operand(owner, body, a))
                    .raw("b", &self.operand(owner, body, b))
                    .s("aty", &self.ty_str(aty))
                    .end()
            }
            Rvalue::UnaryOp(op, a) => {
                let aty = a.ty(&body.local_decls, self.tcx);
                Obj::new()
                    .s("k", "un")
                    .s("op", &format!("{:?}", op))
                    .raw("a", &self.operand(owner, body, a))
                    .s("aty", &self.ty_str(aty))
                    .end()
            }
            Rvalue::Discriminant(p) => {
                Obj::new().s("k", "discr").raw("pl", &self.place(body, p)).end()
            }
            Rvalue::Aggregate(kind, ops) => {
                let mut o = Obj::new().s("k", "agg");
                match &**kind {
                    AggregateKind::Array(t) => {
                        o = o.s("ak", "array").s("ety", &self.ty_str(*t));
                    }
                    AggregateKind::Tuple => {
                        o = o.s("ak", "tuple");
                    }
                    AggregateKind::Adt(did, vi, _args, _, active) => {
                        let adt = self.tcx.adt_def(*did);
                        let v = adt.variant(*vi);
                        let fnames: Vec<String> =
                            v.fields.iter().map(|f| esc(&f.name.to_string())).collect();
                        o = o
                            .s("ak", "adt")
                            .s("adt", &self.def_path(*did))
                            .s("variant", &v.name.to_string())
                            .n("vi", vi.as_usize() as i128)
                            .raw("fields", &arr(fnames));
                        if let Some(a) = active {
                            o = o.n("active", a.as_usize() as i128);
                        }
                    }
                    AggregateKind::Closure(did, _) => {
                        o = o.s("ak", "closure").s("closure", &self.def_key(*did));
                    }
                    AggregateKind::RawPtr(t, m) => {
                        o = o.s("ak", "rawptr").s("ety", &self.ty_str(*t)).s("mt", &format!("{:?}", m));
                    }
                    other => {
                        o = o.s("ak", "other").s("dbg", &format!("{:?}", other));
                    }
                }
                let opsj: Vec<String> = ops.iter().map(|x| self.operand(owner, body, x)).collect();
                o.raw("ops", &arr(opsj)).end()
            }
            Rvalue::CopyForDeref(p) => {
                Obj::new().s("k", "use").raw("op", &Obj::new().s("k", "copy").raw("pl", &self.place(body, p)).end()).end()
            }
            Rvalue::WrapUnsafeBinder(op, _) => {
                Obj::new().s("k", "use").raw("op", &self.operand(owner, body, op)).end()
            }
        }
    }

    fn body(&mut self, owner: DefId, body: &Body<'tcx>) -> String {
        let tcx = self.tcx;
        // locals
        let mut names: BTreeMap<usize, String> = BTreeMap::new();
        let mut dbg_extra: Vec<String> = Vec::new();
        for vdi in body.var_debug_info.iter() {
            match &vdi.value {
                mir::VarDebugInfoContents::Place(p) => {
                    if p.projection.is_empty() {
                        names.entry(p.local.as_usize()).or_insert(vdi.name.to_string());
                    } else {
                        // captured upvar or similar: record name -> place
                        dbg_extra.push(
                            Obj::new().s("name", &vdi.name.to_string()).raw("pl", &self.place(body, p)).end(),
                        );
                    }
                }
                mir::VarDebugInfoContents::Const(_) => {}
            }
        }
        let mut locals = Vec::new();
        for (l, decl) in body.local_decls.iter_enumerated() {
            self.note_ty(decl.ty);
            let mut o = Obj::new().s("ty", &self.ty_str(decl.ty));
            o = o.opt_s("name", names.get(&l.as_usize()).map(|s| s.as_str()));
            if let ty::Adt(adt, _) = decl.ty.peel_refs().kind() {
                o = o.s("adt", &self.def_path(adt.did()));
            }
            locals.push(o.end());
        }
        let mut blocks = Vec::new();
        for (_bb, data) in body.basic_blocks.iter_enumerated() {
            let mut stmts = Vec::new();
            for st in data.statements.iter() {
                let line = self.loc(st.source_info.span).1;
                match &st.kind {
                    StatementKind::Assign(b) => {
                        let (p, rv) = &**b;
                        stmts.push(
                            Obj::new()
                                .s("k", "assign")
                                .raw("lhs", &self.place(body, p))
                                .raw("rv", &self.rvalue(owner, body, rv))
                                .n("line", line as i128)
                                .b("exp", st.source_info.span.from_expansion())
                                .end(),
                        );
                    }
                    StatementKind::SetDiscriminant { place, variant_index } => {
                        stmts.push(
                            Obj::new()
                                .s("k", "setdiscr")
                                .raw("lhs", &self.place(body, place))
                                .n("vi", variant_index.as_usize() as i128)
                                .n("line", line as i128)
                                .end(),
                        );
                    }
                    StatementKind::Intrinsic(i) => {
                        stmts.push(
                            Obj::new().s("k", "intrinsic").s("dbg", &format!("{:?}", i)).n("line", line as i128).end(),
                        );
                    }
                    StatementKind::StorageDead(l) => {
                        stmts.push(Obj::new().s("k", "dead").n("l", l.as_usize() as i128).end());
                    }
                    _ => {}
                }
            }
            let term = data.terminator();
            let (tfile, tline) = self.loc(term.source_info.span);
            let _ = tfile;
            let unwind_of = |u: &UnwindAction| -> String {
                match u {
                    UnwindAction::Cleanup(bb) => bb.as_usize().to_string(),
                    UnwindAction::Continue => "\"continue\"".to_string(),
                    UnwindAction::Unreachable => "\"unreachable\"".to_string(),
                    UnwindAction::Terminate(_) => "\"terminate\"".to_string(),
                }
            };
            let t = match &term.kind {
                TerminatorKind::Goto { target } => {
                    Obj::new().s("k", "goto").n("t", target.as_usize() as i128)
                }
                TerminatorKind::SwitchInt { discr, targets } => {
                    let vals: Vec<String> = targets.iter().map(|(v, _)| v.to_string()).collect();
                    let tg: Vec<String> = targets.iter().map(|(_, t)| t.as_usize().to_string()).collect();
                    let dty = discr.ty(&body.local_decls, tcx);
                    Obj::new()
                        .s("k", "switch")
                        .raw("op", &self.operand(owner, body, discr))
                        .s("dty", &self.ty_str(dty))
                        .raw("vals", &arr(vals))
                        .raw("tgts", &arr(tg))
                        .n("otherwise", targets.otherwise().as_usize() as i128)
                }
                TerminatorKind::Return => Obj::new().s("k", "ret"),
                TerminatorKind::Unreachable => Obj::new().s("k", "unreachable"),
                TerminatorKind::UnwindResume => Obj::new().s("k", "resume"),
                TerminatorKind::UnwindTerminate(_) => Obj::new().s("k", "terminate"),
                TerminatorKind::Drop { place, target, unwind, .. } => {
                    let pty = place.ty(&body.local_decls, tcx).ty;
                    Obj::new()
                        .s("k", "drop")
                        .raw("pl", &self.place(body, place))
                        .s("ty", &self.ty_str(pty))
                        .n("t", target.as_usize() as i128)
                        .raw("unwind", &unwind_of(unwind))
                }
                TerminatorKind::Call { func, args, destination, target, unwind, .. } => {
                    let mut o = Obj::new().s("k", "call");
                    o = o.raw("f", &self.operand(owner, body, func));
                    let a: Vec<String> = args.iter().map(|x| self.operand(owner, body, &x.node)).collect();
                    let atys: Vec<String> = args
                        .iter()
                        .map(|x| esc(&self.ty_str(x.node.ty(&body.local_decls, tcx))))
                        .collect();
                    o = o.raw("args", &arr(a)).raw("atys", &arr(atys));
                    o = o.raw("dest", &self.place(body, destination));
                    let dty = destination.ty(&body.local_decls, tcx).ty;
                    o = o.s("dty", &self.ty_str(dty));
                    o = match target {
                        Some(t) => o.n("t", t.as_usize() as i128),
                        None => o.raw("t", "null"),
                    };
                    o.raw("unwind", &unwind_of(unwind))
                }
                TerminatorKind::TailCall { func, args, .. } => {
                    let a: Vec<String> = args.iter().map(|x| self.operand(owner, body, &x.node)).collect();
                    Obj::new().s("k", "tailcall").raw("f", &self.operand(owner, body, func)).raw("args", &arr(a))
                }
                TerminatorKind::Assert { cond, expected, msg, target, unwind } => {
                    let kind = match &**msg {
                        mir::AssertKind::BoundsCheck { .. } => "BoundsCheck".to_string(),
                        mir::AssertKind::Overflow(op, _, _) => format!("Overflow({:?})", op),
                        mir::AssertKind::OverflowNeg(_) => "OverflowNeg".to_string(),
                        mir::AssertKind::DivisionByZero(_) => "DivisionByZero".to_string(),
                        mir::AssertKind::RemainderByZero(_) => "RemainderByZero".to_string(),
                        mir::AssertKind::MisalignedPointerDereference { .. } => "Misaligned".to_string(),
                        mir::AssertKind::NullPointerDereference => "NullDeref".to_string(),
                        mir::AssertKind::InvalidEnumConstruction(_) => "InvalidEnum".to_string(),
                        other => format!("{:?}", other).chars().take(40).collect(),
                    };
                    let mut o = Obj::new()
                        .s("k", "assert")
                        .raw("cond", &self.operand(owner, body, cond))
                        .b("expected", *expected)
                        .s("msg", &kind);
                    match &**msg {
                        mir::AssertKind::BoundsCheck { len, index } => {
                            o = o
                                .raw("len", &self.operand(owner, body, len))
                                .raw("index", &self.operand(owner, body, index));
                        }
                        mir::AssertKind::Overflow(_, a, b) => {
                            o = o.raw("a", &self.operand(owner, body, a)).raw("b", &self.operand(owner, body, b));
                        }
                        _ => {}
                    }
                    o.n("t", target.as_usize() as i128).raw("unwind", &unwind_of(unwind))
                }
                TerminatorKind::FalseEdge { real_target, .. } => {
                    Obj::new().s("k", "goto").n("t", real_target.as_usize() as i128)
                }
                TerminatorKind::FalseUnwind { real_target, .. } => {
                    Obj::new().s("k", "goto").n("t", real_target.as_usize() as i128)
                }
                other => Obj::new().s("k", "other").s("dbg", &format!("{:?}", other).chars().take(80).collect::<String>()),
            };
            let t = t.n("line", tline as i128).b("exp", term.source_info.span.from_expansion()).end();
            blocks.push(
                Obj::new().raw("stmts", &arr(stmts)).raw("term", &t).b("cleanup", data.is_cleanup).end(),
            );
        }
        Obj::new()
            .n("argc", body.arg_count as i128)
            .raw("locals", &arr(locals))
            .raw("dbg", &arr(dbg_extra))
            .raw("blocks", &arr(blocks))
            .end()
    }

    fn fn_record(&mut self, did: DefId) -> Option<String> {
        let tcx = self.tcx;
        let ldid = did.as_local()?;
        if !tcx.is_mir_available(did) {
            return None;
        }
        let kind = tcx.def_kind(did);
        // const fns / consts are skipped unless they are functions
        let body: &Body<'tcx> = if matches!(kind, DefKind::Const { .. } | DefKind::AssocConst { .. }) {
            tcx.mir_for_ctfe(did)
        } else {
            tcx.optimized_mir(did)
        };
        let (file, line) = self.loc(body.span);
        let mut o = self.fn_ident(did);
        o = o.s("k", "fn").s("crate", &self.crate_name.clone());
        o = o.s("file", &file).n("line", line as i128);
        let hi = tcx.sess.source_map().lookup_char_pos(body.span.hi()).line;
        o = o.n("end_line", hi as i128);
        o = o.b("exp", tcx.def_span(did).from_expansion());
        if matches!(kind, DefKind::Fn | DefKind::AssocFn) {
            let vis = tcx.visibility(did);
            o = o.s("vis", &format!("{:?}", vis).chars().take(60).collect::<String>());
            o = o.b("pub", vis.is_public());
            let sig = tcx.fn_sig(did).instantiate_identity().skip_norm_wip().skip_binder();
            let ins: Vec<String> = sig.inputs().iter().map(|t| esc(&self.ty_str(*t))).collect();
            o = o.raw("sig_in", &arr(ins)).s("sig_out", &self.ty_str(sig.output()));
            o = o.b("unsafe", sig.safety().is_unsafe());
            let gens = tcx.generics_of(did);
            let gn: Vec<String> = gens.own_params.iter().map(|p| esc(&p.name.to_string())).collect();
            o = o.raw("generics", &arr(gn));
        }
        let _ = ldid;
        let b = self.body(did, body);
        o = o.raw("body", &b);
        // promoted bodies
        let proms = tcx.promoted_mir(did);
        let mut pj = Vec::new();
        for p in proms.iter() {
            pj.push(self.body(did, p));
        }
        o = o.raw("promoted", &arr(pj));
        Some(o.end())
    }

    fn adt_record(&mut self, key: &str, ty: Ty<'tcx>) -> Option<String> {
        let tcx = self.tcx;
        let ty::Adt(adt, args) = ty.kind() else { return None };
        let tenv = TypingEnv::fully_monomorphized();
        let mut o = Obj::new().s("k", "adt").s("ty", key).s("path", &self.def_path(adt.did()));
        o = o.s("crate", &tcx.crate_name(adt.did().krate).to_string());
        o = o.s("kind", if adt.is_enum() { "enum" } else if adt.is_union() { "union" } else { "struct" });
        let repr = adt.repr();
        o = o.b("repr_c", repr.c()).b("repr_transparent", repr.transparent());
        o = o.n("repr_pack", repr.pack.map(|a| a.bytes() as i128).unwrap_or(0));
        o = o.opt_s("repr_int", repr.int.map(|i| format!("{:?}", i)).as_deref());
        let layout = tcx.layout_of(tenv.as_query_input(ty)).ok();
        if let Some(l) = &layout {
            o = o.n("size", l.size.bytes() as i128).n("align", l.align.abi.bytes() as i128);
        }
        let (file, line) = self.loc(tcx.def_span(adt.did()));
        o = o.s("file", &file).n("line", line as i128);
        let mut vars = Vec::new();
        for (vi, v) in adt.variants().iter_enumerated() {
            let mut vo = Obj::new().s("name", &v.name.to_string()).n("i", vi.as_usize() as i128);
            if adt.is_enum() {
                let d = adt.discriminant_for_variant(tcx, vi);
                vo = vo.u("discr", d.val);
            }
            let mut fields = Vec::new();
            for (fi, f) in v.fields.iter_enumerated() {
                let fty = f.ty(tcx, args);
                let mut fo = Obj::new().s("name", &f.name.to_string()).s("ty", &self.ty_str(fty));
                fo = fo.b("pub", f.vis.is_public());
                if let Some(l) = &layout {
                    if !adt.is_enum() {
                        let off = l.fields.offset(fi.as_usize());
                        fo = fo.n("offset", off.bytes() as i128);
                    }
                }
                if let Ok(fl) = tcx.layout_of(tenv.as_query_input(fty)) {
                    fo = fo.n("size", fl.size.bytes() as i128);
                }
                fields.push(fo.end());
            }
            vo = vo.raw("fields", &arr(fields));
            vars.push(vo.end());
        }
        o = o.raw("variants", &arr(vars));
        Some(o.end())
    }
}

struct Cb;

impl rustc_driver::Callbacks for Cb {
    fn after_analysis<'tcx>(
        &mut self,
        _compiler: &rustc_interface::interface::Compiler,
        tcx: TyCtxt<'tcx>,
    ) -> Compilation {
        let crate_name = tcx.crate_name(LOCAL_CRATE).to_string();
        let wanted = std::env::var("FACTGEN_CRATES").unwrap_or_else(|_| "vhost,vhost_user_backend".into());
        if !wanted.split(',').any(|c| c == crate_name) {
            return Compilation::Continue;
        }
        let out_dir = match std::env::var("FACTGEN_OUT") {
            Ok(d) => d,
            Err(_) => return Compilation::Continue,
        };
        let mut cx = Cx { tcx, crate_name: crate_name.clone(), seen_tys: BTreeMap::new() };
        let mut lines: Vec<String> = Vec::new();

        // functions, closures
        for ldid in tcx.mir_keys(()).iter() {
            let did = ldid.to_def_id();
            let kind = tcx.def_kind(did);
            // bodies of generic (associated) constants: their value cannot be evaluated here, so the initialiser is
            // kept as a body and resolved symbolically by the analyses (e.g. `const HDR: usize = size_of::<H>()`)
            let generic_const = match kind {
                DefKind::Const { .. } => tcx.generics_of(did).count() > 0,
                DefKind::AssocConst { .. } => {
                    use rustc_middle::ty::TypeVisitableExt;
                    tcx.associated_item(did).defaultness(tcx).has_value()
                        && (tcx.generics_of(did).count() > 0 || tcx.type_of(did).instantiate_identity().skip_norm_wip().has_non_region_param())
                }
                _ => false,
            };
            if !matches!(kind, DefKind::Fn | DefKind::AssocFn | DefKind::Closure) && !generic_const {
                continue;
            }
            if let Some(r) = cx.fn_record(did) {
                lines.push(r);
            }
        }

        // items: consts, impls, traits, adts
        let items = tcx.hir_crate_items(());
        for ldid in items.definitions() {
            let did = ldid.to_def_id();
            let kind = tcx.def_kind(did);
            match kind {
                DefKind::Const { .. } | DefKind::AssocConst { .. } => {
                    // skip generic consts and trait-declared consts without value
                    use rustc_middle::ty::TypeVisitableExt;
                    let ty = tcx.type_of(did).instantiate_identity().skip_norm_wip();
                    let gens = tcx.generics_of(did);
                    let generic = gens.count() > 0 || ty.has_non_region_param();
                    let mut o = Obj::new()
                        .s("k", "const")
                        .s("crate", &crate_name)
                        .s("key", &cx.def_key(did))
                        .s("path", &cx.def_path(did))
                        .s("name", &tcx.item_name(did).to_string())
                        .s("ty", &cx.ty_str(ty));
                    if matches!(kind, DefKind::AssocConst { .. }) {
                        let parent = tcx.parent(did);
                        if let DefKind::Impl { .. } = tcx.def_kind(parent) {
                            let st = tcx.type_of(parent).instantiate_identity().skip_norm_wip();
                            o = o.s("self_ty", &cx.ty_str(st));
                        }
                    }
                    let has_body = match kind {
                        DefKind::AssocConst { .. } => tcx.associated_item(did).defaultness(tcx).has_value(),
                        _ => true,
                    };
                    if !generic && has_body {
                        if let Ok(cv) = tcx.const_eval_poly(did) {
                            match cv {
                                ConstValue::Scalar(mir::interpret::Scalar::Int(i)) => {
                                    let size = i.size();
                                    o = o.u("v", i.to_bits(size)).n("sz", size.bytes() as i128);
                                }
                                ConstValue::Indirect { alloc_id, offset } => {
                                    let tenv = TypingEnv::fully_monomorphized();
                                    let len = tcx.layout_of(tenv.as_query_input(ty)).ok().map(|l| l.size.bytes());
                                    if let Some(h) = cx.alloc_bytes(alloc_id, offset.bytes(), len) {
                                        o = o.s("bytes", &h);
                                    }
                                }
                                _ => {}
                            }
                        }
                    } else {
                        o = o.b("generic", generic);
                    }
                    lines.push(o.end());
                }
                DefKind::Impl { of_trait } => {
                    let st = tcx.type_of(did).instantiate_identity().skip_norm_wip();
                    let mut o = Obj::new()
                        .s("k", "impl")
                        .s("crate", &crate_name)
                        .s("key", &cx.def_key(did))
                        .s("self_ty", &cx.ty_str(st));
                    if let ty::Adt(adt, _) = st.kind() {
                        o = o.s("self_adt", &cx.def_path(adt.did()));
                    }
                    let (file, line) = cx.loc(tcx.def_span(did));
                    o = o.s("file", &file).n("line", line as i128);
                    let mut provided: Vec<String> = Vec::new();
                    for it in tcx.associated_items(did).in_definition_order() {
                        provided.push(
                            Obj::new()
                                .s("name", &it.name().to_string())
                                .s("key", &cx.def_key(it.def_id))
                                .s("kind", &format!("{:?}", it.kind).chars().take(24).collect::<String>())
                                .end(),
                        );
                    }
                    o = o.raw("items", &arr(provided));
                    if of_trait {
                        let tr = tcx.impl_trait_ref(did).instantiate_identity().skip_norm_wip();
                        o = o.s("trait", &cx.def_path(tr.def_id));
                        o = o.s("trait_ref", &with_resolve_crate_name!(with_no_trimmed_paths!(tr.to_string())));
                        // trait items not overridden (inherited defaults)
                        let mut inherited = Vec::new();
                        let impl_items = tcx.impl_item_implementor_ids(did);
                        for it in tcx.associated_items(tr.def_id).in_definition_order() {
                            if !impl_items.contains_key(&it.def_id) {
                                inherited.push(esc(&it.name().to_string()));
                            }
                        }
                        o = o.raw("inherited", &arr(inherited));
                    }
                    lines.push(o.end());
                }
                DefKind::Trait => {
                    let mut o = Obj::new()
                        .s("k", "trait")
                        .s("crate", &crate_name)
                        .s("key", &cx.def_key(did))
                        .s("path", &cx.def_path(did));
                    let mut its = Vec::new();
                    for it in tcx.associated_items(did).in_definition_order() {
                        its.push(
                            Obj::new()
                                .s("name", &it.name().to_string())
                                .s("key", &cx.def_key(it.def_id))
                                .b("has_default", it.defaultness(tcx).has_value())
                                .s("kind", &format!("{:?}", it.kind).chars().take(24).collect::<String>())
                                .end(),
                        );
                    }
                    o = o.raw("items", &arr(its));
                    lines.push(o.end());
                }
                DefKind::Struct | DefKind::Enum | DefKind::Union => {
                    let gens = tcx.generics_of(did);
                    let ty = tcx.type_of(did).instantiate_identity().skip_norm_wip();
                    if gens.own_params.iter().all(|p| matches!(p.kind, ty::GenericParamDefKind::Lifetime)) {
                        let s = cx.ty_str(ty);
                        cx.seen_tys.entry(s).or_insert(ty);
                    } else {
                        // generic ADT: emit declaration without layout
                        let adt = tcx.adt_def(did);
                        let mut o = Obj::new()
                            .s("k", "adt_generic")
                            .s("crate", &crate_name)
                            .s("path", &cx.def_path(did));
                        let mut vars = Vec::new();
                        for v in adt.variants().iter() {
                            let fields: Vec<String> = v
                                .fields
                                .iter()
                                .map(|f| {
                                    Obj::new()
                                        .s("name", &f.name.to_string())
                                        .s("ty", &cx.ty_str(tcx.type_of(f.did).instantiate_identity().skip_norm_wip()))
                                        .b("pub", f.vis.is_public())
                                        .end()
                                })
                                .collect();
                            vars.push(Obj::new().s("name", &v.name.to_string()).raw("fields", &arr(fields)).end());
                        }
                        o = o.raw("variants", &arr(vars));
                        lines.push(o.end());
                    }
                }
                _ => {}
            }
        }

        // layouts for all concrete workspace ADTs seen
        let seen: Vec<(String, Ty<'tcx>)> = cx.seen_tys.iter().map(|(k, v)| (k.clone(), *v)).collect();
        for (k, t) in seen {
            if let Some(r) = cx.adt_record(&k, t) {
                lines.push(r);
            }
        }

        lines.push(
            Obj::new()
                .s("k", "meta")
                .s("crate", &crate_name)
                .n("records", lines.len() as i128)
                .s("rustc", &rustc_interface::util::rustc_version_str().unwrap_or("?").to_string())
                .end(),
        );

        let mut out = String::new();
        for l in lines {
            out.push_str(&l);
            out.push('\n');
        }
        let path = format!("{}/{}.jsonl", out_dir, crate_name);
        let tmp = format!("{}.tmp.{}", path, std::process::id());
        std::fs::create_dir_all(&out_dir).expect("mkdir out");
        std::fs::write(&tmp, out).expect("write facts");
        std::fs::rename(&tmp, &path).expect("rename facts");
        Compilation::Continue
    }
}

fn main() {
    let mut args: Vec<String> = std::env::args().collect();
    // As RUSTC_WORKSPACE_WRAPPER: argv[1] is the real rustc path; drop it.
    if args.len() > 1 && (args[1].ends_with("rustc") || args[1].contains("/rustc")) {
        args.remove(1);
    }
    let mut cb = Cb;
    rustc_driver::run_compiler(&args, &mut cb);
}
