"""Rename canonicalisation: private functions and struct fields that were merely RENAMED with respect to the
reference tree are given back their reference names before any rule runs.

Rules find most anchors by role, but a number of them name private helpers and fields of the reference tree (they are
listed, with the confirmed instances, in the rule tables).  A rename is behaviour-preserving, so it must not change a
verdict: a function that the reference tree does not have is treated as the renamed version of a reference function
that has disappeared when owner type and signature match uniquely; a struct field likewise when position and type match.
The mapping is computed from spec/baseline_fns.json (tools/gen_baseline.py), never from the rules."""
import json
import os

from .facts import callee_of

_BASE = None


def baseline_full():
    global _BASE
    if _BASE is None:
        here = os.path.dirname(os.path.dirname(os.path.abspath(__file__)))
        try:
            with open(os.path.join(here, "spec", "baseline_fns.json")) as fh:
                _BASE = json.load(fh)
        except OSError:
            _BASE = {"fns": [], "sigs": {}, "adts": {}}
    return _BASE


def _owner(ident):
    return ident.split("::")[0] if "::" in ident else ""


def _sig(f):
    return [list(f.rec.get("sig_in") or []), f.rec.get("sig_out") or "", bool(f.rec.get("unsafe"))]


def canonicalise(fb, fns):
    """Mutates the Fn objects / bodies in `fns` (the freshly loaded fact base).  Returns (fn renames, field renames)."""
    from .inline import fn_ident
    base = baseline_full()
    sigs = base.get("sigs") or {}
    known = set(base.get("fns") or [])
    if not sigs:
        return {}, {}
    cur = {}
    for f in fns.values():
        if f.rec.get("dk") == "Closure":
            continue
        cur.setdefault(fn_ident(f), []).append(f)
    missing = [i for i in known if i not in cur and i in sigs]
    new = [i for i in cur if i not in known]
    fn_ren = {}
    if missing and new:
        by_owner_m = {}
        for i in missing:
            by_owner_m.setdefault(_owner(i), []).append(i)
        for i in new:
            fs = cur[i]
            if len(fs) != 1:
                continue
            f = fs[0]
            cands = [m for m in by_owner_m.get(_owner(i), []) if sigs[m] == _sig(f) and m.count("@") == i.count("@")]
            rivals = [j for j in new if j != i and _owner(j) == _owner(i) and len(cur[j]) == 1 and _sig(cur[j][0]) == _sig(f)]
            if len(cands) == 1 and not rivals:
                old_name = cands[0].split("::")[-1].split("@")[0]
                fn_ren[f.key] = (f.name, old_name)
    for key, (newn, oldn) in fn_ren.items():
        f = fns[key]
        f.name = oldn
        f.rec = dict(f.rec, name=oldn, renamed_from=newn)
        if f.path and f.path.endswith("::" + newn):
            f.path = f.path[:-len(newn)] + oldn   # line-free display name used in instance keys and review tables
            f.rec["path"] = f.path
    if fn_ren:
        for f in fns.values():
            for b in f.blocks:
                t = b["term"]
                if t["k"] != "call":
                    continue
                c = callee_of(t)
                if c is None:
                    continue
                for d in (c, c.get("res") or {}):
                    if d.get("key") in fn_ren:
                        d["name"] = fn_ren[d["key"]][1]
    # ---- struct fields
    fld_ren = {}
    badts = base.get("adts") or {}
    curadts = {}
    for r in list(fb.adt_generic.values()) + [x for rs in fb.adt_by_path.values() for x in rs]:
        vs = r.get("variants") or []
        if len(vs) == 1 and r.get("path") not in curadts:
            curadts[r["path"]] = [(x["name"], x["ty"]) for x in vs[0]["fields"]]
    for path, bf in badts.items():
        cf = curadts.get(path)
        if cf is None or len(cf) != len(bf):
            continue
        bn = [x[0] for x in bf]
        cn = [x[0] for x in cf]
        if bn == cn:
            continue
        m = {}
        ok = True
        for (b_name, b_ty), (c_name, c_ty) in zip(bf, cf):
            if b_name != c_name:
                if b_ty != c_ty or c_name in bn or b_name in cn:
                    ok = False
                    break
                m[c_name] = b_name
        if ok and m:
            fld_ren[path] = m
    if fld_ren:
        def fix_place(pl):
            for pr in pl["p"]:
                if pr["k"] == "field" and pr.get("adt") in fld_ren and pr.get("n") in fld_ren[pr["adt"]]:
                    pr["n"] = fld_ren[pr["adt"]][pr["n"]]

        def fix_op(op):
            if isinstance(op, dict) and op.get("k") in ("copy", "move"):
                fix_place(op["pl"])

        for f in fns.values():
            bodies = [f.body] + list(f.promoted or [])
            for body in bodies:
                for b in body["blocks"]:
                    for st in b["stmts"]:
                        if st["k"] != "assign":
                            continue
                        fix_place(st["lhs"])
                        rv = st["rv"]
                        for k in ("op", "a", "b"):
                            fix_op(rv.get(k))
                        if isinstance(rv.get("pl"), dict):
                            fix_place(rv["pl"])
                        for o in rv.get("ops", []) or []:
                            fix_op(o)
                        if rv["k"] == "agg" and rv.get("adt") in fld_ren:
                            rv["fields"] = [fld_ren[rv["adt"]].get(n, n) for n in rv["fields"]]
                    t = b["term"]
                    for a in t.get("args", []) or []:
                        fix_op(a)
                    for k in ("op", "cond", "a", "b", "index", "len"):
                        fix_op(t.get(k))
                    if isinstance(t.get("pl"), dict):
                        fix_place(t["pl"])
                    if isinstance(t.get("dest"), dict):
                        fix_place(t["dest"])
        for r in list(fb.adt_generic.values()) + [x for rs in fb.adt_by_path.values() for x in rs] + list(fb.adts.values()):
            m = fld_ren.get(r.get("path"))
            if m:
                for v in r.get("variants") or []:
                    for x in v["fields"]:
                        if x["name"] in m:
                            x["name"] = m[x["name"]]
    return fn_ren, fld_ren
