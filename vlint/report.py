"""Check plumbing: rule instances, violations, known findings, evidence files."""
import json
import os
import re
import sys
import time

from .facts import VERIF

KNOWN_FILE = os.path.join(VERIF, "known_findings.json")


def load_known():
    try:
        with open(KNOWN_FILE) as fh:
            data = json.load(fh)
    except FileNotFoundError:
        return {}, []
    known = {}
    fixed = []
    for e in data.get("findings", []):
        if e.get("status") == "known":
            known[(e["property"], e["key"])] = e
        elif e.get("status") == "fixed":
            fixed.append(e)
    return known, fixed


def safe_name(key):
    return re.sub(r"[^A-Za-z0-9_.+-]+", "_", key)[:150]


class Check:
    def __init__(self, pid, tier="quick", seed=0):
        self.pid = pid
        self.tier = tier
        self.seed = seed
        self.t0 = time.time()
        self.instances = []        # (rule, key, ok, detail, loc)
        self.violations = []       # dicts
        self.known_hits = []
        self.rules = {}            # rule id -> description
        self.floors = {}           # rule id -> (measured, floor)
        self.assumptions = []
        self.trusted = []
        self.samples = []
        self.extra = {}
        self.functions = set()
        self.cfgs = {}
        self.explanation = ""
        self.not_decided = ""
        self.paths_enumerated = 0
        self.known, self.fixed = load_known()
        self.errors = []

    # ---------------------------------------------------------------- recording
    def rule(self, rid, text):
        self.rules[rid] = text

    def ok(self, rule, key, detail="", loc=None, sample=True):
        self.instances.append((rule, key, True, detail, loc))
        if sample and len([s for s in self.samples if s["rule"] == rule]) < 3:
            self.samples.append({"rule": rule, "key": key, "holds": True, "where": loc,
                                 "facts": detail if isinstance(detail, (str, list, dict)) else str(detail)})

    def bad(self, rule, key, msg, loc=None, detail=None, path=None):
        """A rule instance that does not hold -> violation (or known finding)."""
        self.instances.append((rule, key, False, msg, loc))
        full = "%s:%s" % (rule, key)
        v = {"property": self.pid, "rule": rule, "key": full, "message": msg, "where": loc,
             "rule_text": self.rules.get(rule, ""), "detail": detail, "path": path}
        # the same construct seen in another build configuration is the same finding
        canon = full.replace(":base/", ":", 1).replace(":xen/", ":", 1)
        kf = self.known.get((self.pid, full)) or self.known.get((self.pid, canon))
        if kf is not None:
            self.known_hits.append((kf, v))
        else:
            self.violations.append(v)

    def check(self, cond, rule, key, okmsg="", badmsg="", loc=None, detail=None):
        if cond:
            self.ok(rule, key, okmsg, loc)
        else:
            self.bad(rule, key, badmsg or ("rule %s does not hold" % rule), loc, detail)
        return cond

    def anchor_missing(self, rule, what, detail=""):
        self.bad(rule, "anchor-missing:" + what,
                 "anchor missing: cannot certify (%s) %s" % (what, detail))

    def floor(self, rule, measured, floor):
        # `floor` is the number of instances confirmed by hand on the reference tree.  A behaviour-preserving change
        # may merge duplicated sites into one helper (fewer instances, same coverage), so the alarm is raised only
        # when the rule lost more than half of its confirmed instances - the signature of a rule gone vacuous.
        self.floors[rule] = (measured, floor)
        need = max(1, (floor + 1) // 2)
        if measured < need:
            self.bad(rule, "floor", "rule %s matched %d instances, fewer than half of the %d confirmed by hand; "
                     "the rule may have gone vacuous (fail closed)" % (rule, measured, floor))

    def fn_seen(self, fn):
        self.functions.add(fn.short if hasattr(fn, "short") else str(fn))

    # ---------------------------------------------------------------- finishing
    def finish(self):
        wall = time.time() - self.t0
        out_root = os.environ.get("VERIF_OUT") or VERIF
        rep_dir = os.path.join(out_root, "reports", self.pid)
        os.makedirs(rep_dir, exist_ok=True)
        lines = []
        for kf, v in self.known_hits:
            lines.append("KNOWN-FINDING: property=%s %s [%s]" % (self.pid, kf.get("what", v["message"]), v["key"]))
        for v in self.violations:
            p = os.path.join(rep_dir, safe_name(v["key"]) + ".json")
            with open(p, "w") as fh:
                json.dump(v, fh, indent=1, default=str)
            where = (" at %s" % v["where"]) if v.get("where") else ""
            lines.append("VIOLATION property=%s replay=%s" % (self.pid, p))
            lines.append("  rule %s%s: %s" % (v["key"], where, v["message"]))
        evaluations = len(self.instances)
        distinct = len({(r, k) for (r, k, _ok, _d, _l) in self.instances})
        holds = len([1 for i in self.instances if i[2]])
        per_rule = {}
        for (r, k, okk, _d, _l) in self.instances:
            a = per_rule.setdefault(r, [0, 0])
            a[0] += 1
            a[1] += 1 if okk else 0
        ev = {
            "property_id": self.pid,
            "tier": self.tier,
            "seed": self.seed,
            "level": "other",
            "coverage": {
                "explanation": self.explanation,
                "not_decided": self.not_decided,
                "rule": "; ".join("%s: %s" % (k, v) for k, v in sorted(self.rules.items()))
                        + " || an instance is one (rule, construct) pair located in the resolved "
                          "program; distinct_nontrivial counts distinct (rule,key) pairs whose site "
                          "was found and whose condition was evaluated",
                "evaluations": evaluations,
                "distinct_nontrivial": distinct,
                "obligations": evaluations,
                "discharged": holds,
                "per_rule": {r: {"instances": a[0], "hold": a[1]} for r, a in sorted(per_rule.items())},
                "floors": {r: {"measured": m, "floor": f} for r, (m, f) in sorted(self.floors.items())},
                "samples": self.samples[:40],
                "functions_analysed": sorted(self.functions)[:400],
                "n_functions_analysed": len(self.functions),
                "paths_enumerated": self.paths_enumerated,
                "cfgs": self.cfgs,
                "checker_cmd": "./check %s --tier %s" % (self.pid, self.tier),
                "trusted_base": self.trusted or [
                    "rustc MIR construction and layout computation for the analysed cfg",
                    "factgen's serialisation of MIR/layout/const facts",
                    "vlint's models of pure library callees",
                    "spec/*.py as a correct transcription of the specification"],
                "known_findings_reported": [v["key"] for _k, v in self.known_hits],
                "exhaustive": False,
            },
            "assumptions": self.assumptions,
            "wall_s": round(wall, 2),
            "violations": len(self.violations),
        }
        ev["coverage"].update(self.extra)
        os.makedirs(os.path.join(out_root, "evidence"), exist_ok=True)
        with open(os.path.join(out_root, "evidence", self.pid + ".json"), "w") as fh:
            json.dump(ev, fh, indent=1, default=str)
        for l in lines:
            print(l)
        print("%s tier=%s: %d rule instances (%d distinct), %d hold, %d violation(s), %d known finding(s), %.1fs"
              % (self.pid, self.tier, evaluations, distinct, holds, len(self.violations),
                 len(self.known_hits), wall))
        sys.stdout.flush()
        return 1 if self.violations else 0


class Renamed:
    """View of a Check that files a sibling property's rules under this property's rule ids.  Only the rules named in
    `mapping` are kept (value: new rule id, or (new rule id, predicate on the instance key)); everything else the
    borrowed rule code reports is dropped."""

    def __init__(self, chk, mapping, floors=False):
        self._c = chk
        self._m = dict(mapping)
        self._floors = floors

    def __getattr__(self, name):
        return getattr(self._c, name)

    def _to(self, rule, key=None):
        v = self._m.get(rule)
        if v is None:
            return None
        if isinstance(v, tuple):
            if key is not None and not v[1](key):
                return None
            return v[0]
        return v

    def rule(self, rid, text):
        r = self._to(rid)
        if r and r not in self._c.rules:
            self._c.rule(r, text)

    def ok(self, rule, key, *a, **kw):
        r = self._to(rule, key)
        if r:
            return self._c.ok(r, key, *a, **kw)

    def bad(self, rule, key, *a, **kw):
        r = self._to(rule, key)
        if r:
            return self._c.bad(r, key, *a, **kw)

    def check(self, cond, rule, key, *a, **kw):
        r = self._to(rule, key)
        if r:
            return self._c.check(cond, r, key, *a, **kw)
        return cond

    def anchor_missing(self, rule, what, detail=""):
        r = self._to(rule, what)
        if r:
            return self._c.anchor_missing(r, what, detail)

    def floor(self, rule, measured, floor):
        r = self._to(rule)
        if r and self._floors:
            return self._c.floor(r, measured, floor)
