"""Evaluation of symbolic terms: constant folding with models of pure library callees,
bitflags helpers, size_of; used for table rules and accept-region computation."""
from .terms import INT_TYS, show

PRIM_SIZES = {"u8": 1, "i8": 1, "u16": 2, "i16": 2, "u32": 4, "i32": 4, "u64": 8, "i64": 8,
              "usize": 8, "isize": 8, "u128": 16, "i128": 16, "bool": 1, "()": 0}


class Undecided(Exception):
    pass


def size_of_type(fb, ty):
    ty = ty.strip()
    if ty in PRIM_SIZES:
        return PRIM_SIZES[ty]
    r = fb.adts.get(ty)
    if r is not None and "size" in r:
        return r["size"]
    # unique suffix match
    hits = [x for t, x in fb.adts.items() if t.endswith("::" + ty)]
    if len(hits) == 1 and "size" in hits[0]:
        return hits[0]["size"]
    if ty.startswith("[") and ty.endswith("]") and ";" in ty:
        inner, n = ty[1:-1].rsplit(";", 1)
        try:
            return size_of_type(fb, inner) * int(n.strip())
        except ValueError:
            pass
    raise Undecided("size_of %s" % ty)


def bitflags_all(fb, self_ty):
    """OR of all named constants declared for a bitflags type."""
    v = 0
    found = False
    for p, c in fb.consts.items():
        if c.get("self_ty") == self_ty and c.get("ty") == self_ty and "v" in c:
            v |= c["v"]
            found = True
    if not found:
        raise Undecided("bitflags all() of %s" % self_ty)
    return v


class Eval:
    """Concrete/partial evaluator for terms. `env` maps terms (leaves) to ints."""

    def __init__(self, fb, sym=None, env=None):
        self.fb = fb
        self.sym = sym
        self.env = env or {}
        self.depth = 0

    def ev(self, t):
        if t in self.env:
            return self.env[t]
        tag = t[0]
        if tag == "const":
            if isinstance(t[1], int):
                return t[1]
            raise Undecided("opaque const %s" % show(t))
        if tag == "cname":
            if t[2] is not None:
                return t[2]
            try:
                return self.fb.const_value(t[1])
            except Exception:
                raise Undecided("const %s" % t[1])
        if tag in ("ref", "deref", "down"):
            return self.ev(t[1])     # `down`: the payload view of an Option/Result value (its `.0` passes through below)
        if tag == "cast":
            v = self.ev(t[1])
            to = t[2]
            if to in INT_TYS:
                return v & ((1 << INT_TYS[to]) - 1)
            if to == "bool":
                return v & 1
            return v
        if tag == "bin":
            return self.binop(t[1], self.ev(t[2]), self.ev(t[3]), t)
        if tag == "un":
            a = self.ev(t[2])
            if t[1] == "Not":
                w = self.width_of(t[2])
                if len(t) > 3 and t[3]:
                    w = 1 if t[3] == "bool" else INT_TYS.get(t[3], w)
                if w == 1:
                    return 1 - (a & 1)
                return (~a) & ((1 << w) - 1)
            if t[1] == "Neg":
                w = self.width_of(t[2])
                return (-a) & ((1 << w) - 1)
            raise Undecided("unop %s" % t[1])
        if tag == "ovf":
            a, b = self.ev(t[2]), self.ev(t[3])
            w = max(self.width_of(t[2]), self.width_of(t[3]))
            if w <= 1:
                w = 64
            r = {"Add": a + b, "Sub": a - b, "Mul": a * b}.get(t[1])
            if r is None:
                raise Undecided("ovf " + t[1])
            return int(r < 0 or r >= (1 << w))
        if tag == "field":
            # transparent single-field wrappers (bitflags internals): value passes through
            try:
                return self.ev(t[1])
            except Undecided:
                raise
        if tag == "call":
            return self.call(t)
        if tag == "agg":
            # newtype wrappers
            if len(t[3]) == 1:
                return self.ev(t[3][0][1])
            raise Undecided("aggregate %s" % show(t))
        if tag == "phi":
            vals = set()
            for x in t[2]:
                vals.add(self.ev(x))
            if len(vals) == 1:
                return vals.pop()
            raise Undecided("phi with several values")
        if tag == "unwrap":
            x = t[1]
            if x[0] == "phi":
                # the value of `x?` / `x.unwrap()`: only the Ok / Some definitions have one
                vals = set()
                for alt in x[2]:
                    if alt[0] == "agg" and alt[2] in ("Ok", "Some") and len(alt[3]) == 1:
                        vals.add(self.ev(alt[3][0][1]))
                    elif alt[0] == "agg" and alt[2] in ("Err", "None") or alt[0] == "from_residual":
                        continue
                    else:
                        vals.add(self.ev(alt))
                if len(vals) == 1:
                    return vals.pop()
                raise Undecided("unwrap of a merge with several values")
            return self.ev(x)
        raise Undecided("term %s" % show(t))

    def width_of(self, t):
        tag = t[0]
        if tag == "const" or tag == "cname":
            ty = t[2] if tag == "const" else t[3]
            if ty == "bool":
                return 1
            return INT_TYS.get(ty, 64)
        if tag == "cast":
            if t[2] == "bool":
                return 1
            return INT_TYS.get(t[2], 64)
        if tag == "bin":
            if t[1] in ("Eq", "Ne", "Lt", "Le", "Gt", "Ge"):
                return 1
            return max(self.width_of(t[2]), 0) if t[2][0] in ("const", "cname", "cast", "bin", "un") \
                else self.width_of(t[3]) if t[3][0] in ("const", "cname", "cast") else 64
        if tag == "un":
            return self.width_of(t[2])
        w = self.env.get(("width", t))
        if w:
            return w
        return 64

    def binop(self, op, a, b, t=None):
        w = self.width_of(t) if t is not None else 64
        mask = (1 << w) - 1 if w > 1 else (1 << 64) - 1
        if op in ("Add", "AddUnchecked"):
            return (a + b) & mask
        if op in ("Sub", "SubUnchecked"):
            return (a - b) & mask
        if op in ("Mul", "MulUnchecked"):
            return (a * b) & mask
        if op == "Div":
            if b == 0:
                raise Undecided("div by zero")
            return a // b
        if op == "Rem":
            if b == 0:
                raise Undecided("rem by zero")
            return a % b
        if op == "BitAnd":
            return a & b
        if op == "BitOr":
            return a | b
        if op == "BitXor":
            return a ^ b
        if op in ("Shl", "ShlUnchecked"):
            return (a << b) & mask
        if op in ("Shr", "ShrUnchecked"):
            return a >> b
        if op == "Eq":
            return int(a == b)
        if op == "Ne":
            return int(a != b)
        if op == "Lt":
            return int(a < b)
        if op == "Le":
            return int(a <= b)
        if op == "Gt":
            return int(a > b)
        if op == "Ge":
            return int(a >= b)
        raise Undecided("binop %s" % op)

    def call(self, t):
        name, args = t[1], t[2]
        info = self.sym.info(t) if self.sym is not None else {}
        self_ty = info.get("self_ty") or (info.get("res") or {}).get("self_ty")
        if name in ("into", "from", "clone", "deref", "borrow", "as_ref", "to_owned", "io_try_into", "try_into", "try_from", "raw_value",
                    "unwrap", "expect") and len(args) in (1, 2) and (len(args) == 1 or name == "expect"):
            return self.ev(args[0])       # value-preserving conversions (a failing conversion has no value on that path)
        if name in ("ok_or", "ok_or_else", "unwrap_or", "unwrap_or_else") and len(args) == 2 and name.startswith("ok_or"):
            return self.ev(args[0])
        if name in ("checked_add", "checked_sub", "checked_mul", "saturating_add", "saturating_sub", "wrapping_add", "wrapping_sub") and len(args) == 2:
            a, b = self.ev(args[0]), self.ev(args[1])
            r = a + b if name.endswith("add") else (a - b if name.endswith("sub") else a * b)
            if 0 <= r < (1 << 64):
                return r
            if name.startswith("saturating"):
                return 0 if r < 0 else (1 << 64) - 1
            raise Undecided("%s overflows" % name)
        if name == "bits" and len(args) == 1:
            return self.ev(args[0])
        if name in ("from_bits_retain",) and len(args) == 1:
            return self.ev(args[0])
        if name == "all" and not args and self_ty:
            return bitflags_all(self.fb, self_ty)
        if name == "empty" and not args:
            return 0
        if name == "from_bits_truncate" and len(args) == 1 and self_ty:
            return self.ev(args[0]) & bitflags_all(self.fb, self_ty)
        if name in ("bitor", "union") and len(args) == 2:
            return self.ev(args[0]) | self.ev(args[1])
        if name in ("bitand", "intersection") and len(args) == 2:
            return self.ev(args[0]) & self.ev(args[1])
        if name == "not" and len(args) == 1:
            raise Undecided("not()")
        if name == "size_of" and not args:
            g = info.get("gargs") or []
            if len(g) == 1:
                return size_of_type(self.fb, g[0])
        if name == "count_ones" and len(args) == 1:
            return bin(self.ev(args[0])).count("1")
        # small pure workspace function: evaluate its return term with the arguments bound
        r = (info.get("res") or info) if info else None
        if r and self.fb is not None and r.get("key") in self.fb.fns and self.depth < 6:
            f = self.fb.fns[r["key"]]
            if len(f.blocks) <= 6 and not any(b["term"]["k"] == "switch" for b in f.blocks):
                from .terms import Sym
                csym = Sym(f, self.fb)
                env2 = {}
                for i, a in enumerate(args):
                    try:
                        v = self.ev(a)
                    except Undecided:
                        continue
                    env2[("param", i + 1, f.locals[i + 1].get("name"))] = v
                sub = Eval(self.fb, csym, env2)
                sub.depth = self.depth + 1
                return sub.ev(csym.local(0))
        raise Undecided("call %s" % name)


def const_eval(fb, sym, t, env=None):
    """Evaluate term to an int or return None."""
    try:
        return Eval(fb, sym, env).ev(t)
    except Undecided:
        return None
    except RecursionError:
        return None


# ---------------------------------------------------------------------------------------------------------------------
# Exact decision for bit-vector predicates built from bitwise operators only.
def bit_of(fb, sym, term, i, env, leaf_of):
    """Value (bool) of bit i of `term` when every leaf's bit i is env[leaf name]; raises Undecided outside the
    bitwise fragment (And/Or/Xor/Not over leaves and constants)."""
    t = term
    while t[0] in ("ref", "deref") or (t[0] == "cast" and t[4] in ("IntToInt",) and True):
        if t[0] == "cast":
            # widening/narrowing integer casts keep bit i for i below both widths; callers use 64-bit terms only
            t = t[1]
        else:
            t = t[1]
    name = leaf_of(t)
    if name is not None:
        return env[name]
    v = const_eval(fb, sym, t)
    if isinstance(v, int):
        return bool((v >> i) & 1)
    if t[0] == "bin" and t[1] in ("BitAnd", "BitOr", "BitXor"):
        a = bit_of(fb, sym, t[2], i, env, leaf_of)
        b = bit_of(fb, sym, t[3], i, env, leaf_of)
        return (a and b) if t[1] == "BitAnd" else (a or b) if t[1] == "BitOr" else (a != b)
    if t[0] == "un" and t[1] == "Not":
        return not bit_of(fb, sym, t[2], i, env, leaf_of)
    if t[0] == "call" and t[1] in ("bits", "into", "from") and len(t[2]) == 1:
        return bit_of(fb, sym, t[2][0], i, env, leaf_of)
    raise Undecided("not bitwise: %s" % (t[0],))


def bitwise_pred_equals(fb, sym, atom, leaf_of, leaves, want, width=64):
    """atom is ('cmp', Eq|Ne, L, R) over bitwise terms.  True iff, as a predicate on the leaves (bit vectors), it is
    equivalent to `for all bits i: want(env_i)`; None if outside the fragment."""
    import itertools
    if atom[0] != "cmp" or atom[1] not in ("Eq", "Ne"):
        return None
    L, R = atom[2], atom[3]
    try:
        # the atom holds  <=>  for all i: L_i == R_i   (Eq)   |   exists i: L_i != R_i  (Ne)
        # `want` describes the all-bits form; a Ne atom is the negation of an all-bits form, so compare with Eq only
        for i in range(width):
            for vals in itertools.product((False, True), repeat=len(leaves)):
                env = dict(zip(leaves, vals))
                same = bit_of(fb, sym, L, i, env, leaf_of) == bit_of(fb, sym, R, i, env, leaf_of)
                if same != bool(want(env)):
                    return False
    except Undecided:
        return None
    return atom[1] == "Eq"
