"""Path enumeration and interprocedural summaries (loop-free bodies; loops are cut and flagged).

An Outcome is one CFG path from entry to a normal return:
  atoms : tuple of normalised branch atoms (see must.py) that hold along the path
  ret   : the returned value as a term; ('bool', b) for decided booleans
  path  : tuple of block indices
Summaries inline workspace callees whose result is branched on (bounded depth).
"""
from .absint import const_eval
from .cfg import CFG
from .facts import callee_of, resolved
from .must import Must, normalise_atom, bool_atoms, NEG
from .terms import Sym, simplify, show, subterms


class TooManyPaths(Exception):
    pass


class Outcome:
    __slots__ = ("atoms", "ret", "path", "cut", "sends")

    def __init__(self, atoms, ret, path, cut=False):
        self.atoms = tuple(atoms)
        self.ret = ret
        self.path = tuple(path)
        self.cut = cut

    def __repr__(self):
        return "<Outcome ret=%s atoms=%d>" % (show(self.ret), len(self.atoms))


def pick(t, pos):
    """Resolve phi nodes using the path positions `pos` (block -> index on the path)."""
    if not isinstance(t, tuple) or not t:
        return t
    if t[0] == "phi" and len(t) >= 4:
        best, bi = None, -1
        for term, bb in zip(t[2], t[3]):
            i = pos.get(bb, -1)
            if i > bi:
                best, bi = term, i
        if best is not None and bi >= 0:
            return pick(best, pos)
        return t
    changed = False
    out = []
    for x in t:
        if isinstance(x, tuple):
            y = pick(x, pos)
            if y is not x:
                changed = True
            out.append(y)
        else:
            out.append(x)
    if not changed:
        return t
    r = tuple(out)
    if r and isinstance(r[0], str):
        try:
            r = simplify(r)
        except Exception:
            pass
    return r


def subst(t, env):
    """Substitute terms (keys of env) inside t, re-simplifying."""
    if not isinstance(t, tuple) or not t:
        return t
    if t in env:
        return env[t]
    changed = False
    out = []
    for x in t:
        if isinstance(x, tuple):
            y = subst(x, env)
            if y is not x:
                changed = True
            out.append(y)
        else:
            out.append(x)
    if not changed:
        return t
    r = tuple(out)
    if r and isinstance(r[0], str):
        try:
            r = simplify(r)
        except Exception:
            pass
    return r


def subst_atom(a, env):
    return tuple(subst(x, env) if isinstance(x, tuple) and x and isinstance(x[0], str) else x for x in a)


WRAPPERS_KEEP_OK = {"map_err", "ok_or", "ok_or_else", "map", "ok", "as_ref", "as_mut", "cloned", "copied",
                    "into", "from"}


def strip_ok_wrappers(x):
    while x[0] == "call" and x[1] in WRAPPERS_KEEP_OK and x[2]:
        x = x[2][0]
        while x[0] == "ref":
            x = x[1]
    return x


class Summariser:
    def __init__(self, fb, tysubst=None, max_paths=6000, max_depth=6, no_inline=None):
        self.fb = fb
        self.tysubst = tysubst or {}
        self.max_paths = max_paths
        self.max_depth = max_depth
        self.no_inline = no_inline or (lambda fn: False)
        self._memo = {}
        self.paths_enumerated = 0

    # ------------------------------------------------------------------ intraprocedural
    def paths(self, fn, stop=None):
        """All entry->return paths of fn (normal CFG). `stop(bb)` ends a path early (ret None)."""
        sym = Sym(fn, self.fb)
        cfg = CFG(fn)
        must = Must(fn, self.fb, sym, cfg)
        out = []
        blocks = fn.blocks
        # iterative DFS
        stack = [(0, (0,), ())]
        while stack:
            bb, path, atoms = stack.pop()
            if len(out) > self.max_paths:
                raise TooManyPaths(fn.short)
            t = blocks[bb]["term"]
            k = t["k"]
            if stop is not None and stop(bb):
                out.append(Outcome(atoms, None, path))
                continue
            if k == "ret":
                pos = {b: i for i, b in enumerate(path)}
                out.append(Outcome(atoms, self._ret_term(fn, sym, path, pos), path))
                continue
            if k == "switch":
                pos = {b: i for i, b in enumerate(path)}
                term = pick(sym.operand(t["op"]), pos)
                for s in cfg.succ[bb]:
                    if s in pos:
                        out.append(Outcome(atoms, ("loop",), path + (s,), cut=True))
                        continue
                    f = must.switch_fact(bb, {s})
                    new = normalise_atom(must, term, t.get("dty"), f[2], f[3], t["op"])
                    from .must import canon_all
                    for a_ in list(new):
                        for b_ in canon_all(a_):
                            if b_ not in new:
                                new.append(b_)
                    if self._contradiction(sym, new, atoms):
                        continue
                    stack.append((s, path + (s,), atoms + tuple(new)))
                continue
            nxt = cfg.succ[bb]
            if not nxt:
                # unreachable / diverging call: not a return
                continue
            s = nxt[0]
            if s in path:
                out.append(Outcome(atoms, ("loop",), path + (s,), cut=True))
                continue
            stack.append((s, path + (s,), atoms))
        self.paths_enumerated += len(out)
        return out, sym

    def _contradiction(self, sym, new, old):
        for a in new:
            if a[0] == "contra":
                return True
            if a[0] == "cmp":
                x = const_eval(self.fb, sym, a[2])
                y = const_eval(self.fb, sym, a[3])
                if x is not None and y is not None:
                    op = a[1]
                    v = {"Eq": x == y, "Ne": x != y, "Lt": x < y, "Le": x <= y, "Gt": x > y, "Ge": x >= y}[op]
                    if not v:
                        return True
            if a[0] == "in":
                x = const_eval(self.fb, sym, a[1])
                if x is not None:
                    inside = x in a[2]
                    if inside == a[3]:
                        return True
            # a value whose variant is known on this path (a definition picked by the path) decides the test itself
            if a[0] in ("ok", "notok") and isinstance(a[1], tuple) and a[1] and a[1][0] == "agg" \
                    and a[1][1].split("::")[-1] in ("Result", "Option"):
                is_ok = a[1][2] in ("Ok", "Some")
                if is_ok != (a[0] == "ok"):
                    return True
            # `from_residual(..)` rebuilds the error/none value of a failed `?`: it is never Ok/Some
            if a[0] == "ok" and isinstance(a[1], tuple) and a[1] and a[1][0] == "from_residual":
                return True
            if a[0] == "variant" and isinstance(a[1], tuple) and a[1] and a[1][0] == "agg" and a[1][2] is not None:
                if (a[1][2] in a[2]) == bool(a[3]):
                    return True
            # direct contradiction with an earlier atom on the same subject
            if a[0] in ("ok", "notok", "true", "false"):
                opp = {"ok": "notok", "notok": "ok", "true": "false", "false": "true"}[a[0]]
                if (opp, a[1]) in old:
                    return True
            if a[0] == "cmp" and ("cmp", NEG[a[1]], a[2], a[3]) in old:
                return True
            if a[0] == "variant" and not a[3]:
                for o in old:
                    if o[0] == "variant" and o[1] == a[1] and not o[3] and not (o[2] & a[2]):
                        return True
        return False

    def _ret_term(self, fn, sym, path, pos):
        for bb in reversed(path):
            b = fn.blocks[bb]
            t = b["term"]
            if t["k"] == "call" and t["dest"]["l"] == 0 and not t["dest"]["p"] and bb != path[-1]:
                return pick(sym.call_term(bb, t), pos)
            for st in reversed(b["stmts"]):
                if st["k"] == "assign" and st["lhs"]["l"] == 0 and not st["lhs"]["p"]:
                    return pick(sym.rvalue(st["rv"]), pos)
        ty = fn.locals[0]["ty"]
        if ty == "()":
            return ("const", None, "()")
        return ("unknown", "return value")

    # ------------------------------------------------------------------ interprocedural
    def callee_fn(self, sym, call):
        """Workspace function a call term resolves to (using the type substitution for
        unresolved trait calls), or None."""
        info = sym.info(call)
        if info.get("indirect"):
            return None
        r = resolved(info)
        key = r.get("key")
        if key in self.fb.fns and not (info.get("of_trait") and r.get("trait_decl")):
            f = self.fb.fns[key]
            if "::_#" in key or "::_::" in key:
                return None  # bitflags-generated helpers are modelled, not inlined
            return f
        if info.get("of_trait"):
            recv = info.get("recv_ty")
            target = self.tysubst.get(recv)
            if target:
                for f in self.fb.find(name=info.get("name")):
                    if f.trait == info["of_trait"] and f.self_ty == target:
                        return f
            # trait default method called on a concrete type with no override
            if key in self.fb.fns and r.get("trait_decl") is None:
                return self.fb.fns[key]
        return None

    def summarise(self, fn, depth=0):
        key = (id(fn), tuple(sorted(self.tysubst.items())))
        if key in self._memo:
            return self._memo[key]
        outs, sym = self.paths(fn)
        res = []
        is_bool = fn.rec.get("sig_out") == "bool" or fn.locals[0]["ty"] == "bool"
        for o in outs:
            if o.cut:
                res.append(o)
                continue
            variants = [(o.atoms, o.ret)]
            if is_bool and o.ret is not None:
                r = o.ret
                if r[0] == "const" and isinstance(r[1], int):
                    variants = [(o.atoms, ("bool", bool(r[1])))]
                else:
                    variants = [(o.atoms + tuple(bool_atoms(r, True)), ("bool", True)),
                                (o.atoms + tuple(bool_atoms(r, False)), ("bool", False))]
            for atoms, ret in variants:
                if any(a[0] == "contra" for a in atoms):
                    continue
                for ex in self.expand(sym, list(atoms), depth):
                    if ex is None:
                        continue
                    res.append(Outcome(ex, ret, o.path))
                    if len(res) > self.max_paths:
                        raise TooManyPaths(fn.short)
        self._memo[key] = (res, sym)
        return res, sym

    def expand(self, sym, atoms, depth):
        """Inline callee summaries into atoms whose subject is a workspace call: yields atom
        tuples (DNF expansion)."""
        results = [()]
        for a in atoms:
            alts = self.expand_atom(sym, a, depth)
            new = []
            for pre in results:
                for alt in alts:
                    if alt is None:
                        continue
                    if self._contradiction(sym, alt, pre):
                        continue
                    new.append(pre + tuple(alt))
            results = new
            if len(results) > self.max_paths:
                raise TooManyPaths("expansion")
        return results

    def expand_atom(self, sym, a, depth):
        """-> list of alternative atom lists equivalent to `a`."""
        if depth >= self.max_depth:
            return [[a]]
        kind = a[0]
        if kind in ("ok", "notok", "true", "false"):
            x = a[1]
            if kind in ("ok", "notok"):
                x = strip_ok_wrappers(x)
            while x[0] in ("ref", "deref"):
                x = x[1]
            if x[0] == "call":
                # err()/is_err flips
                f = self.callee_fn(sym, x)
                if f is not None and not self.no_inline(f):
                    return self._inline(sym, f, x, kind, depth, a)
            if x is not a[1]:
                return [[(kind, x)]]
            return [[a]]
        if kind == "cmp":
            for side in (2, 3):
                x = a[side]
                y = x
                casts = []
                while y[0] == "cast":
                    casts.append(y)
                    y = y[1]
                if y[0] == "call":
                    f = self.callee_fn(sym, y)
                    if f is not None and not self.no_inline(f):
                        outs, csym = self.summarise(f, depth + 1)
                        env = self._bind(f, y)
                        alts = []
                        for o in outs:
                            if o.cut or o.ret is None:
                                return [[a]]
                            r = subst(o.ret, env)
                            for c in reversed(casts):
                                r = simplify(("cast", r, c[2], c[3], c[4]))
                            na = list(a)
                            na[side] = r
                            alts.append([subst_atom(z, env) for z in o.atoms] + [tuple(na)])
                        return alts
            return [[a]]
        return [[a]]

    def _bind(self, f, call):
        env = {}
        args = list(call[2])
        if call[1] in ("call", "call_mut", "call_once") and len(args) == 2 and "{closure" in f.key:
            # `f(a, b)` on a closure is Fn::call(&f, (a, b)); the closure body takes (env, a, b)
            tup = args[1]
            n = len(f.locals) - 1 if f.argc is None else f.argc
            if tup[0] == "tuple":
                args = [args[0]] + list(tup[1])
            else:
                args = [args[0]] + [("field", tup, str(i)) for i in range(max(0, n - 1))]
        for i, arg in enumerate(args):
            if i + 1 < len(f.locals):
                env[("param", i + 1, f.locals[i + 1].get("name"))] = arg
        return env

    def _inline(self, sym, f, call, kind, depth, orig):
        outs, csym = self.summarise(f, depth + 1)
        env = self._bind(f, call)
        alts = []
        for o in outs:
            if o.cut or o.ret is None:
                return [[orig]]
            r = o.ret
            verdict = None
            rest = []
            if kind in ("true", "false"):
                if r[0] == "bool":
                    verdict = (r[1] == (kind == "true"))
                else:
                    rest = bool_atoms(subst(r, env), kind == "true")
                    verdict = not any(z[0] == "contra" for z in rest)
            else:
                v = ret_okness(r)
                if v is None:
                    rr = subst(r, env)
                    rest = [(kind, rr)]
                    verdict = True
                else:
                    verdict = (v == (kind == "ok"))
            if not verdict:
                continue
            alt = [subst_atom(z, env) for z in o.atoms] + list(rest)
            # nested expansion of what remains
            for ex in self.expand(sym, alt, depth + 1):
                alts.append(list(ex))
        return alts


def ret_okness(r):
    """True if term is definitely Ok/Some, False if definitely Err/None, None if unknown."""
    while r[0] in ("ref", "deref"):
        r = r[1]
    if r[0] == "agg" and (r[1].endswith("result::Result") or r[1].endswith("option::Option")):
        return r[2] in ("Ok", "Some")
    if r[0] == "from_residual":
        return False
    return None


_OKNESS_CACHE = {}


def okness(fb, r, depth=0):
    """ret_okness that also resolves calls to workspace functions whose every return is Err/None
    (e.g. error-wrapping helpers) or Ok/Some."""
    v = ret_okness(r)
    if v is not None or fb is None or depth > 3:
        return v
    while r[0] in ("ref", "deref"):
        r = r[1]
    if r[0] == "phi":
        vs = {okness(fb, x, depth + 1) for x in r[2]}
        return vs.pop() if len(vs) == 1 else None
    if r[0] == "call":
        from .terms import CALLINFO, Sym
        info = CALLINFO[r[4]] if r[4] < len(CALLINFO) else {}
        if info.get("indirect"):
            return None
        k0 = (info.get("res") or info).get("key")
        k = (id(fb), k0)
        if k in _OKNESS_CACHE:
            return _OKNESS_CACHE[k]
        f = fb.fns.get(k0)
        res = None
        if f is not None and len(f.blocks) <= 12:
            ret = Sym(f, fb).local(0)
            res = okness(fb, ret, depth + 1)
        _OKNESS_CACHE[k] = res
        return res
    return None
