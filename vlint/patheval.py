"""Path-sensitive, field-sensitive evaluation of one control-flow path of a (inlined) MIR body.

`Sym` (terms.py) resolves a local through *all* its reaching definitions and cannot see a value that is built up by
successive mutations (`let mut h = *req; h.set_reply(true); h.set_size(n)`), nor writes made through a `&mut`.
`PathEval` walks the statements of one path in order with an explicit store:

  value ::= term                       (the tuple terms of terms.py)
          | ('over', base, {field: value})   a struct value known field by field on top of `base` (None = unknown)
          | ('ptr', local, projection)       a reference to a place of this body

so that after the path the value of the return place can be read field by field.  Calls that were not inlined are
opaque: their result is a call term; any local they receive by `&mut` is havocked (its fields become unknown).
"""
from .facts import callee_of
from .terms import Sym, simplify, show


class Store(dict):
    pass


class PathEval:
    def __init__(self, fb, fn, sym=None):
        self.fb = fb
        self.fn = fn
        self.sym = sym or Sym(fn, fb)
        self.blocks = fn.blocks

    # ------------------------------------------------------------------ places
    def _norm(self, st, pl):
        """Resolve a place to (root local, projection list) following pointers held in the store."""
        l, projs = pl["l"], list(pl["p"])
        out = []
        i = 0
        while i < len(projs):
            p = projs[i]
            if p["k"] == "deref" and not out:
                v = st.get(l)
                if isinstance(v, tuple) and v and v[0] == "ptr":
                    l, out = v[1], list(v[2])
                    i += 1
                    continue
            out.append(p)
            i += 1
        return l, out

    def read_local(self, st, l):
        if l in st:
            return st[l]
        return self.sym.local(l) if 1 <= l <= self.fn.argc else ("local", l)

    def read(self, st, pl):
        l, projs = self._norm(st, pl)
        v = self.read_local(st, l)
        for p in projs:
            v = self._proj(st, v, p)
        return v

    def _proj(self, st, v, p):
        k = p["k"]
        if k == "deref":
            if isinstance(v, tuple) and v and v[0] == "ptr":
                return self.read(st, {"l": v[1], "p": list(v[2])})
            return simplify(("deref", self.term(v)), self.sym)
        if k == "field":
            n = p.get("n") if p.get("n") is not None else str(p["i"])
            if isinstance(v, tuple) and v and v[0] == "over":
                if n in v[2]:
                    return v[2][n]
                if v[1] is None:
                    return ("unknown", "field:" + n)
                return simplify(("field", v[1], n), self.sym)
            return simplify(("field", self.term(v), n), self.sym)
        if k == "down":
            return simplify(("down", self.term(v), p.get("v")), self.sym)
        if k == "index":
            return ("index", self.term(v), self.term(self.read_local(st, p["l"])))
        return ("proj", self.term(v), k)

    def write(self, st, pl, val):
        l, projs = self._norm(st, pl)
        if not projs:
            st[l] = val
            return
        st[l] = self._upd(st, self.read_local(st, l), projs, val)

    def _upd(self, st, v, projs, val):
        if not projs:
            return val
        p = projs[0]
        if p["k"] == "field":
            n = p.get("n") if p.get("n") is not None else str(p["i"])
            if isinstance(v, tuple) and v and v[0] == "over":
                base, flds = v[1], dict(v[2])
            elif isinstance(v, tuple) and v and v[0] == "agg":
                base, flds = None, dict(v[3])
                flds["__adt__"] = ("const", v[1], "adt")
            else:
                base, flds = v, {}
            cur = flds.get(n)
            if cur is None:
                cur = ("unknown", "field:" + n) if base is None else simplify(("field", self.term(base), n), self.sym)
            flds[n] = self._upd(st, cur, projs[1:], val)
            return ("over", base, flds)
        if p["k"] == "deref":
            if isinstance(v, tuple) and v and v[0] == "ptr":
                self.write(st, {"l": v[1], "p": list(v[2]) + projs[1:]}, val)
                return v
            return v   # write through an opaque pointer: not tracked
        if p["k"] == "down":
            return self._upd(st, v, projs[1:], val)
        return ("unknown", "write:" + p["k"])

    # ------------------------------------------------------------------ values -> terms
    def term(self, v):
        if isinstance(v, tuple) and v:
            if v[0] == "over":
                flds = tuple(sorted((n, self.term(x)) for n, x in v[2].items() if n != "__adt__"))
                return ("over", self.term(v[1]) if v[1] is not None else None, flds)
            if v[0] == "ptr":
                return ("ref", ("place", v[1], tuple(p.get("n") or p["k"] for p in v[2])))
        return v

    def operand(self, st, op):
        if op["k"] in ("copy", "move"):
            return self.read(st, op["pl"])
        return self.sym.operand(op)

    def rvalue(self, st, rv):
        k = rv["k"]
        if k == "use":
            return self.operand(st, rv["op"])
        if k in ("ref", "rawptr"):
            l, projs = self._norm(st, rv["pl"])
            if not any(p["k"] in ("deref", "index") for p in projs):
                return ("ptr", l, tuple(projs_item(p) for p in projs))
            return simplify(("ref", self.term(self.read(st, rv["pl"]))), self.sym)
        if k == "bin":
            return simplify(("bin", rv["op"], self.term(self.operand(st, rv["a"])), self.term(self.operand(st, rv["b"]))), self.sym)
        if k == "un":
            return simplify(("un", rv["op"], self.term(self.operand(st, rv["a"])), rv.get("aty")), self.sym)
        if k == "cast":
            return simplify(("cast", self.term(self.operand(st, rv["op"])), rv["ty"], rv["from"], rv["ck"]), self.sym)
        if k == "discr":
            return ("discr", self.term(self.read(st, rv["pl"])))
        if k == "agg":
            ops = [self.operand(st, o) for o in rv["ops"]]
            if rv["ak"] == "adt":
                flds = dict(zip(rv["fields"], ops))
                flds["__adt__"] = ("const", rv["adt"], "adt")
                flds["__variant__"] = ("const", rv.get("variant"), "variant")
                return ("over", None, flds)
            if rv["ak"] == "tuple":
                return ("tuple", tuple(self.term(o) for o in ops))
            if rv["ak"] == "closure":
                return ("closure", rv["closure"], tuple(self.term(o) for o in ops))
            return ("agg?", rv["ak"], tuple(self.term(o) for o in ops))
        if k == "repeat":
            return ("repeat", self.term(self.operand(st, rv["op"])), rv["n"])
        return ("unknown", "rvalue:" + k)

    # ------------------------------------------------------------------ a path
    def run(self, path):
        st = Store()
        for idx, bi in enumerate(path):
            b = self.blocks[bi]
            for s in b["stmts"]:
                if s["k"] == "assign":
                    self.write(st, s["lhs"], self.rvalue(st, s["rv"]))
            t = b["term"]
            if t["k"] == "call":
                c = callee_of(t)
                args = [self.operand(st, a) for a in t["args"]]
                name = (c.get("name") or c.get("path")) if c else "<indirect>"
                cid = self.sym._cid(bi, c if c else {"name": name, "indirect": True})
                call = simplify(("call", name, tuple(self.term(a) for a in args), bi, cid), self.sym)
                # locals lent mutably to an opaque call may be changed by it
                for a in args:
                    if isinstance(a, tuple) and a and a[0] == "ptr":
                        self.write(st, {"l": a[1], "p": list(a[2])}, ("havoc", call))
                if t.get("dest") is not None:
                    self.write(st, t["dest"], call)
        return st

    def result_fields(self, st, pl=None):
        """Field map of the value at place `pl` (default: the return place) as far as it is known."""
        v = self.read(st, pl or {"l": 0, "p": []})
        return v


def projs_item(p):
    return dict(p)


def fields_of(v):
    """(base, {field: value}) for a struct-like value (an 'over' value or an aggregate term)."""
    if isinstance(v, tuple) and v:
        if v[0] == "over":
            return v[1], {n: x for n, x in v[2].items() if not n.startswith("__")}
        if v[0] == "agg":
            return None, dict(v[3])
    return v, {}


def variant_of(v):
    if isinstance(v, tuple) and v:
        if v[0] == "over" and "__variant__" in v[2]:
            return v[2]["__variant__"][1]
        if v[0] == "agg":
            return v[2]
    return None
