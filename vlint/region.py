"""Exact accept-region comparison for loop-free predicates over comparisons, masks,
checked additions and membership tests against constants.

Literals:
  ('range', leaf, lo, hi)         lo <= x <= hi
  ('mask', leaf, m, v)            (x & m) == v
  ('nowrap', (leafA, leafB), w)   a + b < 2^w
  ('sumrange', (leafA, leafB), lo, hi)   lo <= a + b <= hi   (meaningful when nowrap holds)
  ('ext', name, leaf)             opaque boolean property computed by third-party code
  ('rel', op, leafA, leafB)       comparison between two leaves (opaque boolean feature)
A program predicate is a DNF: list of conjunctions of (literal, polarity).
A reference predicate is a nested tuple: ('and', ..), ('or', ..), ('not', x) or a literal.
"""
import itertools

from .absint import const_eval, bitflags_all, Undecided
from .terms import INT_TYS, show


class CannotDecide(Exception):
    pass


def leaf_name(t):
    """Dotted name of a leaf term rooted at a parameter (self fields, parameters)."""
    parts = []
    while True:
        tag = t[0]
        if tag in ("ref", "deref"):
            t = t[1]
        elif tag == "field":
            inner = t[1]
            while inner[0] in ("ref", "deref"):
                inner = inner[1]
            if str(t[2]) == "0" and inner[0] == "field" and not str(inner[2]).isdigit():
                pass     # payload of a single-field wrapper around a named field (`self.flags.0`): the field itself
            else:
                parts.append(str(t[2]))
            t = t[1]
        elif tag == "param":
            nm = t[2] or ("arg%d" % t[1])
            if nm != "self":
                parts.append(nm)
            elif not parts:
                parts.append("self")
            return ".".join(reversed(parts))
        elif tag == "call" and t[1] in ("deref", "clone", "into", "from", "borrow") and len(t[2]) == 1:
            t = t[2][0]
        elif tag == "cast" and widening(t):
            t = t[1]
        elif tag == "index":
            idx = t[2]
            parts.append("[%s]" % (idx[1] if idx[0] == "const" else show(idx)))
            t = t[1]
        else:
            return None


def widening(c):
    a, b = INT_TYS.get(c[3]), INT_TYS.get(c[2])
    return a is not None and b is not None and b >= a and c[4] == "IntToInt"


def leaf_width(t):
    """Bit width of a leaf term if visible from casts (fallback 64)."""
    return 64


def strip_casts(t):
    while t[0] == "cast" and widening(t):
        t = t[1]
    while t[0] in ("ref", "deref"):
        t = t[1]
    return t


FLIP = {"Eq": "Eq", "Ne": "Ne", "Lt": "Gt", "Le": "Ge", "Gt": "Lt", "Ge": "Le"}
UMAX = (1 << 64) - 1


def range_lit(leaf, op, c):
    """(literal, polarity) for `leaf op c` over unsigned values."""
    if op == "Eq":
        return ("range", leaf, c, c), True
    if op == "Ne":
        return ("range", leaf, c, c), False
    if op == "Lt":
        if c == 0:
            return ("range", leaf, 0, UMAX), False
        return ("range", leaf, 0, c - 1), True
    if op == "Le":
        return ("range", leaf, 0, c), True
    if op == "Gt":
        return ("range", leaf, 0, c), False
    if op == "Ge":
        if c == 0:
            return ("range", leaf, 0, UMAX), True
        return ("range", leaf, 0, c - 1), False
    raise CannotDecide("op " + op)


class Lits:
    def __init__(self, fb, sym):
        self.fb = fb
        self.sym = sym

    def ev(self, t):
        return const_eval(self.fb, self.sym, t)

    def checked_add_pair(self, t):
        """If t is checked_add(a, b) (possibly wrapped), return (leafA, leafB, width)."""
        while t[0] in ("ref", "deref"):
            t = t[1]
        if t[0] == "call" and t[1] == "checked_add" and len(t[2]) == 2:
            a, b = leaf_name(strip_casts(t[2][0])), leaf_name(strip_casts(t[2][1]))
            info = self.sym.info(t)
            w = INT_TYS.get((info.get("self_ty") or "u64"), 64)
            if a and b:
                return tuple(sorted((a, b))), w
        return None

    def payload_of_checked_add(self, t):
        """`(checked_add(a,b) as Some).0`"""
        if t[0] == "field" and t[1][0] == "down" and t[1][2] == "Some":
            return self.checked_add_pair(t[1][1])
        if t[0] == "unwrap":
            return self.checked_add_pair(t[1])
        return None

    def atom(self, a):
        """Convert a normalised atom to a list of (literal, polarity); raises CannotDecide."""
        k = a[0]
        if k == "cmp":
            op, l, r = a[1], a[2], a[3]
            cl, cr = self.ev(l), self.ev(r)
            if cr is None and cl is not None:
                l, r, cl, cr, op = r, l, cr, cl, FLIP[op]
            if cr is None:
                la, lb = leaf_name(strip_casts(l)), leaf_name(strip_casts(r))
                if la and lb:
                    return [(("rel", op, la, lb), True)]
                raise CannotDecide("comparison without a constant side: %s %s %s" % (show(l), op, show(r)))
            if cl is not None:
                return []  # constant comparison (already pruned when false)
            s = strip_casts(l)
            # (x & C) op c
            if s[0] == "bin" and s[1] == "BitAnd":
                for x, y in ((s[2], s[3]), (s[3], s[2])):
                    m = self.ev(y)
                    lf = leaf_name(strip_casts(x))
                    if m is not None and lf:
                        if op == "Eq":
                            return [(("mask", lf, m, cr), True)]
                        if op == "Ne":
                            return [(("mask", lf, m, cr), False)]
                        if op == "Gt" and cr == 0:
                            return [(("mask", lf, m, 0), False)]
                        raise CannotDecide("ordering comparison on a masked value")
                raise CannotDecide("mask with non-constant operand: " + show(s))
            if s[0] == "bin" and s[1] == "Rem":
                m = self.ev(s[3])
                lf = leaf_name(strip_casts(s[2]))
                if m and lf and (m & (m - 1)) == 0 and op in ("Eq", "Ne"):
                    return [(("mask", lf, m - 1, cr), op == "Eq")]
                raise CannotDecide("remainder by a non power of two")
            pr = self.payload_of_checked_add(s)
            if pr:
                pair, w = pr
                lit, pol = range_lit("+".join(pair), op, cr)
                return [(("sumrange", pair, lit[2], lit[3]), pol)]
            lf = leaf_name(s)
            if lf:
                return [range_lit(lf, op, cr)]
            # narrowing cast of a leaf compared with a constant
            raise CannotDecide("unsupported comparison subject: " + show(l))
        if k in ("ok", "notok"):
            x = a[1]
            while x[0] in ("ref", "deref"):
                x = x[1]
            if x[0] == "agg" and x[2] in ("Some", "Ok", "None", "Err"):
                # a test of a value built on this very path (e.g. the `Some(())` of an inlined `check()?` helper)
                if (x[2] in ("Some", "Ok")) == (k == "ok"):
                    return []
                return [(("ext", "never", "-"), True), (("ext", "never", "-"), False)]
            pr = self.checked_add_pair(x)
            if pr:
                return [(("nowrap", pr[0], pr[1]), k == "ok")]
            if x[0] == "call" and x[1] == "from_bits" and len(x[2]) == 1:
                info = self.sym.info(x)
                st = info.get("self_ty")
                lf = leaf_name(strip_casts(x[2][0]))
                if st and lf:
                    try:
                        allv = bitflags_all(self.fb, st)
                        inner = None
                        for p, c in self.fb.consts.items():
                            if c.get("self_ty") == st and c.get("ty") == st and "sz" in c:
                                inner = c["sz"] * 8
                                break
                        w = inner or 64
                        return [(("mask", lf, (~allv) & ((1 << w) - 1), 0), k == "ok")]
                    except Undecided:
                        # third-party bitflags type: opaque
                        return [(("ext", "from_bits<%s>" % st.split("::")[-1], lf), k == "ok")]
            if x[0] == "call" and len(x[2]) >= 1:
                lf = leaf_name(strip_casts(x[2][0]))
                if lf is not None:
                    info = self.sym.info(x)
                    if not info.get("local", True) or info.get("of_trait"):
                        return [(("ext", "%s.is_ok" % x[1], lf), k == "ok")]
            raise CannotDecide("unsupported Ok/Some test: " + show(x))
        if k in ("true", "false"):
            x = a[1]
            while x[0] in ("ref", "deref"):
                x = x[1]
            if x[0] == "call" and x[1] == "contains" and len(x[2]) == 2:
                # (lo..=hi).contains(&v) / (lo..hi).contains(&v)
                rng, v = x[2]
                while rng[0] in ("ref", "deref"):
                    rng = rng[1]
                lo = hi = None
                if rng[0] == "call" and rng[1] == "new" and len(rng[2]) == 2:
                    lo, hi = self.ev(rng[2][0]), self.ev(rng[2][1])
                elif rng[0] == "agg" and rng[1].endswith("Range") and len(rng[3]) == 2:
                    lo, hi = self.ev(rng[3][0][1]), self.ev(rng[3][1][1])
                    hi = hi - 1 if hi is not None else None
                lf = leaf_name(strip_casts(v))
                if lo is not None and hi is not None and lf and lo <= hi:
                    return [(("range", lf, lo, hi), k == "true")]
            if x[0] == "call" and len(x[2]) >= 1:
                lf = leaf_name(strip_casts(x[2][0]))
                if lf is None:
                    # method on a value derived from a leaf by another opaque call (e.g. flags.is_valid())
                    inner = x[2][0]
                    while inner[0] in ("ref", "deref", "field", "down", "unwrap"):
                        inner = inner[1]
                    if inner[0] == "call" and inner[2]:
                        lf0 = leaf_name(strip_casts(inner[2][0]))
                        if lf0:
                            lf = "%s(%s)" % (inner[1], lf0)
                if lf is not None:
                    return [(("ext", x[1], lf), k == "true")]
            raise CannotDecide("unsupported boolean test: " + show(x))
        if k == "in":
            lf = leaf_name(strip_casts(a[1]))
            if lf is None:
                s = strip_casts(a[1])
                if s[0] == "bin" and s[1] == "BitAnd":
                    m = self.ev(s[3])
                    lf2 = leaf_name(strip_casts(s[2]))
                    if m is not None and lf2 and len(a[2]) == 1:
                        return [(("mask", lf2, m, next(iter(a[2]))), not a[3])]
                raise CannotDecide("membership test on " + show(a[1]))
            vals = sorted(a[2])
            if len(vals) == 1:
                return [(("range", lf, vals[0], vals[0]), not a[3])]
            return [(("inset", lf, frozenset(vals)), not a[3])]
        if k == "variant":
            raise CannotDecide("enum variant test: " + show(a[1]))
        raise CannotDecide("atom " + repr(a)[:80])

    def conj(self, atoms):
        out = []
        for a in atoms:
            out.extend(self.atom(a))
        return out


# ---------------------------------------------------------------------- partition & evaluation

def literals_of_ref(r, acc):
    if r[0] in ("and", "or"):
        for x in r[1:]:
            literals_of_ref(x, acc)
    elif r[0] == "not":
        literals_of_ref(r[1], acc)
    elif r[0] in ("true", "false"):
        pass
    else:
        acc.append(r)


def build_space(lits):
    """-> (leaf_values: {leaf: [representatives]}, bool_feats: [literal])"""
    ranges, masks, bools = {}, {}, []
    for l in lits:
        k = l[0]
        if k == "range":
            ranges.setdefault(l[1], set()).update([l[2], l[3]])
        elif k == "inset":
            ranges.setdefault(l[1], set()).update(l[2])
        elif k == "sumrange":
            ranges.setdefault("+".join(l[1]), set()).update([l[2], l[3]])
        elif k == "mask":
            masks.setdefault(l[1], []).append((l[2], l[3]))
        else:
            if l not in bools:
                bools.append(l)
    space = {}
    for leaf in set(ranges) | set(masks):
        if leaf in ranges and leaf in masks:
            raise CannotDecide("leaf %s is constrained both by ranges and by masks" % leaf)
        if leaf in ranges:
            pts = {0, UMAX}
            for c in ranges[leaf]:
                for d in (-1, 0, 1):
                    v = c + d
                    if 0 <= v <= UMAX:
                        pts.add(v)
            space[leaf] = sorted(pts)
        else:
            ms = masks[leaf]
            exact_bits = 0
            for m, v in ms:
                if v != 0:
                    if bin(m).count("1") > 10:
                        raise CannotDecide("wide mask with non-zero comparand on " + leaf)
                    exact_bits |= m
            allm = 0
            for m, _v in ms:
                allm |= m
            rest = allm & ~exact_bits
            # classes of remaining bits by mask-membership signature
            classes = {}
            b = 0
            while (1 << b) <= rest:
                if rest & (1 << b):
                    sig = tuple(bool(m & (1 << b)) for m, _v in ms)
                    classes.setdefault(sig, 1 << b)
                b += 1
            reps = []
            ebits = [i for i in range(64) if exact_bits & (1 << i)]
            cls = list(classes.values())
            for epat in range(1 << len(ebits)):
                ev = 0
                for j, i in enumerate(ebits):
                    if epat & (1 << j):
                        ev |= 1 << i
                for cpat in range(1 << len(cls)):
                    v = ev
                    for j, bit in enumerate(cls):
                        if cpat & (1 << j):
                            v |= bit
                    reps.append(v)
            if len(reps) > 4096:
                raise CannotDecide("mask space too large on " + leaf)
            space[leaf] = reps
    return space, bools


def eval_lit(l, asg, bvals):
    k = l[0]
    if k == "range":
        return l[2] <= asg[l[1]] <= l[3]
    if k == "inset":
        return asg[l[1]] in l[2]
    if k == "sumrange":
        return l[2] <= asg["+".join(l[1])] <= l[3]
    if k == "mask":
        return (asg[l[1]] & l[2]) == l[3]
    return bvals[l]


def eval_ref(r, asg, bvals):
    k = r[0]
    if k == "and":
        return all(eval_ref(x, asg, bvals) for x in r[1:])
    if k == "or":
        return any(eval_ref(x, asg, bvals) for x in r[1:])
    if k == "not":
        return not eval_ref(r[1], asg, bvals)
    if k == "true":
        return True
    if k == "false":
        return False
    return eval_lit(r, asg, bvals)


def eval_dnf(dnf, asg, bvals):
    for conj in dnf:
        if all(eval_lit(l, asg, bvals) == pol for (l, pol) in conj):
            return True
    return False


def feasible(asg, bvals):
    for l, v in bvals.items():
        if l[0] == "nowrap" and not v:
            a, b = l[1]
            # a + b wraps only if both are non-zero
            if asg.get(a, 1) == 0 or asg.get(b, 1) == 0:
                return False
    return True


def compare(dnf, ref, limit=400000):
    """Exact comparison over the abstract product. Returns (equal, witnesses, n_points)."""
    lits = []
    for conj in dnf:
        for (l, _p) in conj:
            lits.append(l)
    literals_of_ref(ref, lits)
    space, bools = build_space(lits)
    leaves = sorted(space)
    total = 1
    for lf in leaves:
        total *= len(space[lf])
    total *= 1 << len(bools)
    if total > limit:
        raise CannotDecide("abstract space too large (%d points)" % total)
    wit = []
    n = 0
    for vals in itertools.product(*[space[lf] for lf in leaves]):
        asg = dict(zip(leaves, vals))
        for bv in itertools.product((False, True), repeat=len(bools)):
            bvals = dict(zip(bools, bv))
            if not feasible(asg, bvals):
                continue
            n += 1
            p = eval_dnf(dnf, asg, bvals)
            q = eval_ref(ref, asg, bvals)
            if p != q:
                if len(wit) < 3:
                    w = {k: hex(v) for k, v in asg.items()}
                    for l, v in bvals.items():
                        w[show_lit(l)] = v
                    wit.append({"assignment": w, "program_accepts": p, "specification_accepts": q})
    return (not wit), wit, n


def show_lit(l):
    k = l[0]
    if k == "range":
        if l[2] == l[3]:
            return "%s == %#x" % (l[1], l[2])
        return "%#x <= %s <= %#x" % (l[2], l[1], l[3])
    if k == "mask":
        return "(%s & %#x) == %#x" % (l[1], l[2], l[3])
    if k == "nowrap":
        return "%s + %s does not wrap (u%d)" % (l[1][0], l[1][1], l[2])
    if k == "sumrange":
        return "%#x <= %s <= %#x" % (l[2], "+".join(l[1]), l[3])
    if k == "ext":
        return "%s(%s)" % (l[1], l[2])
    if k == "inset":
        return "%s in {%s}" % (l[1], ",".join(map(str, sorted(l[2]))))
    if k == "rel":
        return "%s %s %s" % (l[2], l[1], l[3])
    return repr(l)


def show_dnf(dnf):
    out = []
    for conj in dnf:
        out.append(" && ".join(("" if p else "!") + "(" + show_lit(l) + ")" for (l, p) in conj) or "true")
    return " || ".join("[" + c + "]" for c in out) or "false"
