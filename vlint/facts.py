"""Fact extraction (runs factgen over /repo's working tree) and the in-memory fact base."""
import fcntl
import hashlib
import json
import os
import shutil
import subprocess
import sys
import time

VERIF = os.path.dirname(os.path.dirname(os.path.abspath(__file__)))
REPO = os.environ.get("VERIF_REPO", "/repo")
BUILD = os.environ.get("VERIF_BUILD") or os.path.join(VERIF, "build")
FACTGEN = os.path.join(VERIF, "factgen", "target", "release", "factgen")

CFGS = {
    "full": ["--workspace", "--features",
             "vhost/vhost-user-frontend,vhost/vhost-kern,vhost/vhost-vdpa,vhost/vhost-net,"
             "vhost/vhost-vsock,vhost/test-utils,vhost-user-backend/postcopy"],
    "base": ["--workspace", "--features",
             "vhost/vhost-user-frontend,vhost/vhost-user-backend,vhost/test-utils"],
    "xen": ["-p", "vhost", "--features", "vhost-user-frontend,vhost-user-backend,xen"],
}
CRATES = {"full": ["vhost", "vhost_user_backend"], "base": ["vhost", "vhost_user_backend"],
          "xen": ["vhost"]}


class FactError(Exception):
    pass


def tree_hash(repo=None):
    repo = repo or REPO
    h = hashlib.sha256()
    files = []
    for root, dirs, fs in os.walk(repo):
        dirs[:] = sorted(d for d in dirs if d not in ("target", ".git", "rust-vmm-ci"))
        for f in sorted(fs):
            if f.endswith(".rs") or f.endswith(".toml") or f == "Cargo.lock":
                files.append(os.path.join(root, f))
    for p in files:
        h.update(os.path.relpath(p, repo).encode())
        h.update(b"\0")
        with open(p, "rb") as fh:
            h.update(fh.read())
        h.update(b"\0")
    # the extractor itself is part of the key
    try:
        with open(os.path.join(VERIF, "factgen", "src", "main.rs"), "rb") as fh:
            h.update(fh.read())
    except OSError:
        pass
    return h.hexdigest()[:24]


def _nightly_sysroot():
    return subprocess.check_output(["rustc", "+nightly", "--print", "sysroot"], text=True).strip()


def build_factgen():
    if os.path.exists(FACTGEN):
        src = os.path.join(VERIF, "factgen", "src", "main.rs")
        if os.path.getmtime(FACTGEN) >= os.path.getmtime(src):
            return
    env = dict(os.environ, CARGO_NET_OFFLINE="true")
    r = subprocess.run(["cargo", "+nightly", "build", "--release", "--offline"],
                       cwd=os.path.join(VERIF, "factgen"), env=env,
                       stdout=subprocess.PIPE, stderr=subprocess.STDOUT, text=True)
    if r.returncode != 0 or not os.path.exists(FACTGEN):
        raise FactError("factgen build failed:\n" + r.stdout[-4000:])


def ensure_facts(cfg="full", repo=None, quiet=False):
    """Return the directory with <crate>.jsonl for `cfg`, extracting if the tree changed."""
    repo = repo or REPO
    build_factgen()
    th = tree_hash(repo)
    out = os.path.join(BUILD, "facts", th, cfg)
    marker = os.path.join(out, "OK")
    os.makedirs(os.path.join(BUILD, "locks"), exist_ok=True)
    lock = open(os.path.join(BUILD, "locks", cfg + ".lock"), "w")
    fcntl.flock(lock, fcntl.LOCK_EX)
    try:
        if os.path.exists(marker) and all(
                os.path.exists(os.path.join(out, c + ".jsonl")) for c in CRATES[cfg]):
            return out
        if os.path.isdir(out):
            shutil.rmtree(out)
        os.makedirs(out)
        target = os.path.join(BUILD, "target", cfg)
        # force re-run of the wrapper for the workspace members
        fp = os.path.join(target, "debug", ".fingerprint")
        if os.path.isdir(fp):
            for d in os.listdir(fp):
                if d.startswith("vhost-") or d.startswith("vhost_user_backend-") \
                        or d.startswith("vhost-user-backend-"):
                    shutil.rmtree(os.path.join(fp, d), ignore_errors=True)
        env = dict(os.environ)
        env.update({
            "LD_LIBRARY_PATH": os.path.join(_nightly_sysroot(), "lib"),
            "RUSTFLAGS": "-Zmir-opt-level=0 -Awarnings",
            "RUSTC_WORKSPACE_WRAPPER": FACTGEN,
            "FACTGEN_OUT": out,
            "CARGO_TARGET_DIR": target,
            "CARGO_NET_OFFLINE": "true",
            "CARGO_INCREMENTAL": "0",
        })
        t0 = time.time()
        r = subprocess.run(["cargo", "+nightly", "check", "--offline"] + CFGS[cfg],
                           cwd=repo, env=env, stdout=subprocess.PIPE,
                           stderr=subprocess.STDOUT, text=True)
        if r.returncode != 0:
            raise FactError("cargo check failed for cfg %s (the tree does not build):\n%s"
                            % (cfg, r.stdout[-6000:]))
        for c in CRATES[cfg]:
            if not os.path.exists(os.path.join(out, c + ".jsonl")):
                raise FactError("fact file for crate %s missing after extraction (cfg %s); "
                                "cargo output:\n%s" % (c, cfg, r.stdout[-3000:]))
        with open(marker, "w") as fh:
            fh.write("%s %.1fs\n" % (th, time.time() - t0))
        if not quiet:
            sys.stderr.write("[facts] extracted cfg=%s tree=%s in %.1fs\n" % (cfg, th, time.time() - t0))
        _prune(os.path.join(BUILD, "facts"), keep=th)
        return out
    finally:
        fcntl.flock(lock, fcntl.LOCK_UN)
        lock.close()


def _prune(root, keep, max_keep=4):
    try:
        ds = [d for d in os.listdir(root) if d != keep]
        ds.sort(key=lambda d: os.path.getmtime(os.path.join(root, d)))
        for d in ds[:-max_keep] if len(ds) > max_keep else []:
            shutil.rmtree(os.path.join(root, d), ignore_errors=True)
    except OSError:
        pass


# ------------------------------------------------------------------ fact base

class Fn:
    __slots__ = ("rec", "key", "name", "path", "self_adt", "self_ty", "trait", "file", "line",
                 "body", "blocks", "locals", "argc", "crate", "promoted", "_cache")

    def __init__(self, rec):
        self.rec = rec
        self.key = rec["key"]
        self.name = rec.get("name")
        self.path = rec.get("path")
        self.self_adt = rec.get("self_adt")
        self.self_ty = rec.get("self_ty")
        self.trait = rec.get("trait")
        self.file = rec.get("file")
        self.line = rec.get("line")
        self.crate = rec.get("crate")
        self.body = rec["body"]
        self.blocks = self.body["blocks"]
        self.locals = self.body["locals"]
        self.argc = self.body["argc"]
        self.promoted = rec.get("promoted", [])
        self._cache = {}

    def __repr__(self):
        return "<Fn %s>" % self.key

    @property
    def short(self):
        """Line-free human name: Type::method or path."""
        if self.self_adt and self.name:
            base = self.self_adt.split("::")[-1]
            if self.trait:
                return "<%s as %s>::%s" % (base, self.trait.split("::")[-1], self.name)
            return "%s::%s" % (base, self.name)
        if self.rec.get("dk") == "Closure":
            return self.key.split("::", 1)[-1]
        return self.path or self.key

    def loc(self, line=None):
        return "%s:%s" % (self.file, line if line is not None else self.line)

    def calls(self):
        """Yield (bb_index, terminator) for every Call terminator in non-cleanup blocks."""
        for i, b in enumerate(self.blocks):
            if b["cleanup"]:
                continue
            t = b["term"]
            if t["k"] == "call":
                yield i, t

    def arg_names(self):
        return [self.locals[i + 1].get("name") for i in range(self.argc)]


def callee_of(term):
    """Return the callee descriptor dict of a call terminator (or None for indirect calls)."""
    f = term.get("f")
    if f and f.get("k") == "const":
        return f.get("fn")
    return None


def callee_name(term):
    c = callee_of(term)
    return c.get("name") if c else None


def resolved(c):
    """The most specific descriptor: resolved instance if present, else the callee itself."""
    if c is None:
        return None
    return c.get("res") or c


class FactBase:
    def __init__(self, cfg="full", repo=None, directory=None):
        self.cfg = cfg
        self.dir = directory or ensure_facts(cfg, repo)
        self.fns = {}
        self.const_bodies = {}
        self.adts = {}        # type string -> record
        self.adt_by_path = {}  # def path -> [records]
        self.adt_generic = {}
        self.consts = {}      # path -> record
        self.impls = []
        self.traits = {}
        self.meta = {}
        self.hashes = {}
        for c in CRATES[cfg]:
            p = os.path.join(self.dir, c + ".jsonl")
            h = hashlib.sha256()
            with open(p, "rb") as fh:
                for raw in fh:
                    h.update(raw)
                    r = json.loads(raw)
                    k = r["k"]
                    if k == "fn":
                        if str(r.get("dk", "")).startswith(("AssocConst", "Const")):
                            # initialiser of a generic constant: resolved symbolically where the constant is used
                            self.const_bodies[r["key"]] = Fn(r)
                        else:
                            self.fns[r["key"]] = Fn(r)
                    elif k == "adt":
                        self.adts.setdefault(r["ty"], r)
                        self.adt_by_path.setdefault(r["path"], []).append(r)
                    elif k == "adt_generic":
                        self.adt_generic[r["path"]] = r
                    elif k == "const":
                        self.consts[r["path"]] = r
                    elif k == "impl":
                        self.impls.append(r)
                    elif k == "trait":
                        self.traits[r["path"]] = r
                    elif k == "meta":
                        self.meta[r["crate"]] = r
            self.hashes[c] = h.hexdigest()[:16]
        # Every rule sees the *inlined view* (vlint.inline): helpers that the reference tree does not have and closure
        # combinators are expanded into their callers, so that moving logic in or out of a helper, or rewriting a
        # match with map_or/is_some_and/any, does not change the analysed shape.  Originals stay in orig_fns.
        if os.environ.get("VERIF_NO_CANON") != "1":
            from .canon import canonicalise
            self.fn_renames, self.field_renames = canonicalise(self, self.fns)
        else:
            self.fn_renames, self.field_renames = {}, {}
        self.orig_fns = dict(self.fns)
        if os.environ.get("VERIF_NO_INLINE") != "1":
            from .inline import Inliner, default_policy
            inl = Inliner(self, default_policy(self), src=self.orig_fns)
            self.fns = {k: inl.run(f) for k, f in self.orig_fns.items()}
            # helpers (and closures) all of whose call sites were expanded are analysed inside their callers only: they
            # disappear from the function table, like a function the compiler inlined everywhere
            cand = set(inl.absorbed)
            changed = True
            while changed:
                changed = False
                called = set()
                for k, f in self.fns.items():
                    if k in cand:
                        continue
                    for _bb, t in f.calls():
                        c = callee_of(t)
                        if c is not None:
                            called.add(resolved(c).get("key"))
                    for b in f.blocks:
                        for st in b["stmts"]:
                            if st["k"] == "assign" and st["rv"]["k"] == "agg" and st["rv"].get("ak") == "closure":
                                pass
                for k in list(cand):
                    if k in called:
                        cand.discard(k)
                        changed = True
            # closures are reachable through their aggregate value as well: keep a closure unless every value of it was
            # consumed by an expanded combinator (conservatively: keep closures that are still passed to a call)
            still_passed = set()
            for k, f in self.fns.items():
                if k in cand:
                    continue
                for _bb, t in f.calls():
                    for ty in t.get("atys", []) or []:
                        if "{closure@" in ty:
                            still_passed.add(f.key)
            keep_closures = set()
            for k in list(cand):
                f = self.orig_fns[k]
                if f.rec.get("dk") == "Closure":
                    parent = k.rsplit("::{closure#", 1)[0]
                    # a closure of a function that still passes some closure to an un-expanded call is kept
                    if any(p == parent or p.startswith(parent + "::{closure#") for p in still_passed):
                        keep_closures.add(k)
            cand -= keep_closures
            self.absorbed = cand
            self.absorbed_fns = {k: self.fns[k] for k in cand}
            for k in cand:
                del self.fns[k]
        else:
            self.absorbed = set()
            self.absorbed_fns = {}
        self._by_name = {}
        for f in self.fns.values():
            self._by_name.setdefault(f.name, []).append(f)
        self._callers = None

    # -------------------------------------------------------------- lookups
    def find(self, name=None, self_adt=None, trait=None, crate=None, pred=None, closure=False):
        """All fns matching; `self_adt`/`trait` match on the last path segment or full path."""
        cands = self._by_name.get(name, []) if name is not None else list(self.fns.values())
        out = []
        for f in cands:
            if not closure and f.rec.get("dk") == "Closure":
                continue
            if self_adt is not None and not _seg_match(f.self_adt, self_adt):
                continue
            if trait is not None:
                if trait is False:
                    if f.trait:
                        continue
                elif not _seg_match(f.trait, trait):
                    continue
            if crate is not None and f.crate != crate:
                continue
            if pred is not None and not pred(f):
                continue
            out.append(f)
        return out

    def one(self, **kw):
        r = self.find(**kw)
        if len(r) != 1:
            raise AnchorMissing("expected exactly one function for %r, found %d: %s"
                                % (kw, len(r), [f.key for f in r][:6]))
        return r[0]

    def inl(self, fn, **kw):
        """Inlined view of fn (private helpers and closure combinators expanded), see vlint.inline."""
        from .inline import inlined
        return inlined(self, fn, **kw)

    def closures_of(self, fn):
        return [f for f in self.fns.values() if f.rec.get("closure_of") == fn.key]

    def const_value(self, path_suffix):
        hits = [c for p, c in self.consts.items() if p == path_suffix or p.endswith("::" + path_suffix)]
        if not hits and "::" in path_suffix:
            # the constant may have been moved into a nested / sibling module: `a::NAME` also matches `a::<mods>::NAME`
            head, name = path_suffix.rsplit("::", 1)
            hits = [c for p, c in self.consts.items() if p.endswith("::" + name) and ("::" + head + "::") in ("::" + p)]
        if len(hits) != 1:
            raise AnchorMissing("constant %s: %d matches" % (path_suffix, len(hits)))
        c = hits[0]
        if "v" in c:
            return c["v"]
        if "bytes" in c:
            return int.from_bytes(bytes.fromhex(c["bytes"]), "little")
        raise AnchorMissing("constant %s has no evaluated value" % path_suffix)

    def adt(self, name):
        """Concrete ADT record by type string suffix (unique)."""
        hits = [r for t, r in self.adts.items() if t == name or t.endswith("::" + name)]
        if len(hits) != 1:
            raise AnchorMissing("ADT %s: %d matches %s" % (name, len(hits), [h["ty"] for h in hits][:5]))
        return hits[0]

    def enum_discriminants(self, name):
        r = self.adt(name)
        return {v["name"]: v["discr"] for v in r["variants"]}

    def impls_of(self, trait=None, self_adt=None):
        out = []
        for i in self.impls:
            if trait is not None and not _seg_match(i.get("trait"), trait):
                continue
            if self_adt is not None and not _seg_match(i.get("self_adt"), self_adt):
                continue
            out.append(i)
        return out

    # -------------------------------------------------------------- call graph
    def callees(self, fn):
        """Set of fn keys (in the fact base) that `fn` may call (resolved; trait calls fan out
        to every impl of the method in the workspace; closures created in fn are included)."""
        ck = fn._cache.get("callees")
        if ck is not None:
            return ck
        out = set()
        for _, t in fn.calls():
            c = callee_of(t)
            if c is None:
                continue
            r = resolved(c)
            if r["key"] in self.fns:
                out.add(r["key"])
            if c.get("of_trait") and (c.get("res") is None or c["res"].get("trait_decl")):
                # unresolved trait method: all impls in the workspace
                for f in self._by_name.get(c.get("name"), []):
                    if f.trait == c["of_trait"]:
                        out.add(f.key)
        for f in self.closures_of(fn):
            out.add(f.key)
        fn._cache["callees"] = out
        return out

    def reachable(self, roots, stop=None):
        seen = set()
        work = [r.key if isinstance(r, Fn) else r for r in roots]
        while work:
            k = work.pop()
            if k in seen or k not in self.fns:
                continue
            if stop and stop(self.fns[k]):
                continue
            seen.add(k)
            work.extend(self.callees(self.fns[k]))
        return seen


class AnchorMissing(Exception):
    pass


def _seg_match(full, want):
    if full is None:
        return False
    if full == want:
        return True
    return full.endswith("::" + want)
