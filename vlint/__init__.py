"""vlint: static analysis library over factgen's JSON facts (Python stdlib only)."""
