"""Shared helpers for rules."""
from .cfg import CFG
from .facts import callee_of, resolved
from .must import Must
from .terms import Sym, show, peel, subterms

_must_cache = {}


def must_of(fb, fn):
    # keyed by the function OBJECT: several views of one function exist (the default inlined view, views with named
    # helpers expanded) and their block numbering differs
    k = (id(fb), fn.key, id(fn))
    m = _must_cache.get(k)
    if m is None or m.fn is not fn:
        m = Must(fn, fb)
        _must_cache[k] = m
    return m


def field_writes(fn, sym=None):
    """Direct field assignments in fn: list of dicts(bb, si, field, adt, base_local, rv, line)."""
    out = []
    for bi, b in enumerate(fn.blocks):
        if b["cleanup"]:
            continue
        for si, st in enumerate(b["stmts"]):
            if st["k"] != "assign":
                continue
            ps = st["lhs"]["p"]
            if not ps:
                continue
            last = ps[-1]
            if last["k"] != "field":
                continue
            # a field of a struct that is itself a (private) field of another struct — `self.virtio.acked = ..` after related
            # fields were grouped into an inner struct — is filed under the OUTER struct with the leaf field's name: rules
            # find state by role ("the field of S written in arm X"), wherever inside S it is kept
            adt = last.get("adt")
            flds = [p for p in ps if p["k"] == "field"]
            if len(flds) > 1 and all(p["k"] in ("field", "deref") for p in ps) and flds[0].get("adt"):
                adt = flds[0].get("adt")
            out.append({"bb": bi, "si": si, "field": last.get("n"), "adt": adt, "leaf_adt": last.get("adt"),
                        "base": st["lhs"]["l"], "proj": ps, "rv": st["rv"], "line": st.get("line")})
    return out


def sites(fn, name=None, self_adt=None, of_trait=None, pred=None, resolved_name=False):
    """Call sites in fn (non-cleanup) whose callee matches."""
    out = []
    for bb, t in fn.calls():
        c = callee_of(t)
        if c is None:
            continue
        r = resolved(c)
        nm = c.get("name")
        if name is not None:
            if isinstance(name, (set, frozenset, list, tuple)):
                if nm not in name:
                    continue
            elif nm != name:
                continue
        if self_adt is not None:
            sa = c.get("self_adt") or r.get("self_adt")
            if not sa or not (sa == self_adt or sa.endswith("::" + self_adt)):
                continue
        if of_trait is not None:
            ot = c.get("of_trait") or c.get("trait") or r.get("trait")
            if not ot or not (ot == of_trait or ot.endswith("::" + of_trait)):
                continue
        if pred is not None and not pred(c, t):
            continue
        out.append((bb, t, c))
    return out


def callee_key(c):
    return resolved(c)["key"]


def enum_variant_of(term):
    """If term is a fieldless enum variant aggregate like FrontendReq::GET_FEATURES{}, return
    (adt_path, variant)."""
    t = term
    while t[0] in ("ref", "deref"):
        t = t[1]
    if t[0] == "agg" and not t[3]:
        return t[1], t[2]
    if t[0] == "phi":
        vs = {enum_variant_of(x) for x in t[2]}
        if len(vs) == 1:
            return vs.pop()
    return None, None


def option_shape(term):
    """Classify an Option-valued term: 'None', 'Some', or 'unknown' (+ payload)."""
    t = term
    while t[0] in ("ref", "deref"):
        t = t[1]
    if t[0] == "agg" and t[1].endswith("option::Option"):
        if t[2] == "None":
            return "None", None
        return "Some", t[3][0][1] if t[3] else None
    if t[0] == "param":
        return "param", t
    return "unknown", t


def roots(term):
    """Leaf roots (params, consts, named consts, calls) a term is built from."""
    out = []
    for s in subterms(term):
        if s[0] in ("param", "cname", "const"):
            out.append(s)
    return out


def blocks_between(cfg, a, b):
    """Blocks on some path from a to b (inclusive)."""
    fwd = cfg.reach(a)
    bwd = cfg.reach(b, succ=cfg.pred)
    return fwd & bwd


def returns_variant(fn, fb=None):
    """Map each block that assigns `_0 = Ok(..)/Err(..)/Some/None` to the variant name."""
    out = {}
    for bi, b in enumerate(fn.blocks):
        if b["cleanup"]:
            continue
        for st in b["stmts"]:
            if st["k"] == "assign" and st["lhs"]["l"] == 0 and not st["lhs"]["p"]:
                rv = st["rv"]
                if rv["k"] == "agg" and rv.get("ak") == "adt":
                    out[bi] = rv["variant"]
    return out


def concrete_arg_type(f, sym, t, idx):
    """Type of call argument `idx`; when the call sits in an expanded generic helper (`&T`), the type of the caller's value
    that was passed down."""
    import re as _re
    aty = t["atys"][idx]
    if not _re.match(r"^&?(mut )?[A-Z][A-Za-z0-9]?$", aty.strip()):
        return aty
    op = t["args"][idx]
    for _ in range(8):
        if op["k"] not in ("copy", "move") or op["pl"]["p"]:
            break
        l = op["pl"]["l"]
        ty = f.locals[l].get("ty") or ""
        if not _re.match(r"^&?(mut )?[A-Z][A-Za-z0-9]?$", ty.strip()) and ty not in ("?", "&?", ""):
            return ty
        ds = sym.defs.get(l, [])
        if len(ds) != 1 or ds[0][0] != "assign":
            break
        rv = ds[0][3]
        if rv["k"] == "use":
            op = rv["op"]
        elif rv["k"] in ("ref", "rawptr") and [x["k"] for x in rv["pl"]["p"]] == ["deref"]:
            op = {"k": "copy", "pl": {"l": rv["pl"]["l"], "p": []}}      # reborrow of a reference local
        elif rv["k"] in ("ref", "rawptr") and not rv["pl"]["p"]:
            ty = f.locals[rv["pl"]["l"]].get("ty") or ""
            if not _re.match(r"^[A-Z][A-Za-z0-9]?$", ty.strip()) and ty not in ("?", ""):
                return "&" + ty
            # a by-value generic parameter of the expanded helper: the type of what was moved into it
            l2 = rv["pl"]["l"]
            for _h in range(4):
                d2 = sym.defs.get(l2, [])
                if len(d2) != 1 or d2[0][0] != "assign" or d2[0][3]["k"] != "use":
                    break
                o2 = d2[0][3]["op"]
                if o2["k"] == "const":
                    return "&" + (o2.get("ty") or "?")
                if o2["pl"]["p"]:
                    break
                l2 = o2["pl"]["l"]
                ty2 = f.locals[l2].get("ty") or ""
                if not _re.match(r"^[A-Z][A-Za-z0-9]?$", ty2.strip()) and ty2 not in ("?", ""):
                    return "&" + ty2
            op = {"k": "copy", "pl": rv["pl"]}
        else:
            break
    return aty
