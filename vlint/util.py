"""Shared helpers for rules."""
from .cfg import CFG
from .facts import callee_of, resolved
from .must import Must
from .terms import Sym, show, peel, subterms

_must_cache = {}


def must_of(fb, fn):
    # keyed by the function OBJECT: several views of one function exist (the default inlined view, views with named
    # helpers expanded) and their block numbering differs
    k = (id(fb), fn.key, id(fn))
    m = _must_cache.get(k)
    if m is None or m.fn is not fn:
        m = Must(fn, fb)
        _must_cache[k] = m
    return m


def field_writes(fn, sym=None):
    """Direct field assignments in fn: list of dicts(bb, si, field, adt, base_local, rv, line)."""
    out = []
    for bi, b in enumerate(fn.blocks):
        if b["cleanup"]:
            continue
        for si, st in enumerate(b["stmts"]):
            if st["k"] != "assign":
                continue
            ps = st["lhs"]["p"]
            if not ps:
                continue
            last = ps[-1]
            if last["k"] != "field":
                continue
            out.append({"bb": bi, "si": si, "field": last.get("n"), "adt": last.get("adt"),
                        "base": st["lhs"]["l"], "proj": ps, "rv": st["rv"], "line": st.get("line")})
    return out


def sites(fn, name=None, self_adt=None, of_trait=None, pred=None, resolved_name=False):
    """Call sites in fn (non-cleanup) whose callee matches."""
    out = []
    for bb, t in fn.calls():
        c = callee_of(t)
        if c is None:
            continue
        r = resolved(c)
        nm = c.get("name")
        if name is not None:
            if isinstance(name, (set, frozenset, list, tuple)):
                if nm not in name:
                    continue
            elif nm != name:
                continue
        if self_adt is not None:
            sa = c.get("self_adt") or r.get("self_adt")
            if not sa or not (sa == self_adt or sa.endswith("::" + self_adt)):
                continue
        if of_trait is not None:
            ot = c.get("of_trait") or c.get("trait") or r.get("trait")
            if not ot or not (ot == of_trait or ot.endswith("::" + of_trait)):
                continue
        if pred is not None and not pred(c, t):
            continue
        out.append((bb, t, c))
    return out


def callee_key(c):
    return resolved(c)["key"]


def enum_variant_of(term):
    """If term is a fieldless enum variant aggregate like FrontendReq::GET_FEATURES{}, return
    (adt_path, variant)."""
    t = term
    while t[0] in ("ref", "deref"):
        t = t[1]
    if t[0] == "agg" and not t[3]:
        return t[1], t[2]
    if t[0] == "phi":
        vs = {enum_variant_of(x) for x in t[2]}
        if len(vs) == 1:
            return vs.pop()
    return None, None


def option_shape(term):
    """Classify an Option-valued term: 'None', 'Some', or 'unknown' (+ payload)."""
    t = term
    while t[0] in ("ref", "deref"):
        t = t[1]
    if t[0] == "agg" and t[1].endswith("option::Option"):
        if t[2] == "None":
            return "None", None
        return "Some", t[3][0][1] if t[3] else None
    if t[0] == "param":
        return "param", t
    return "unknown", t


def roots(term):
    """Leaf roots (params, consts, named consts, calls) a term is built from."""
    out = []
    for s in subterms(term):
        if s[0] in ("param", "cname", "const"):
            out.append(s)
    return out


def blocks_between(cfg, a, b):
    """Blocks on some path from a to b (inclusive)."""
    fwd = cfg.reach(a)
    bwd = cfg.reach(b, succ=cfg.pred)
    return fwd & bwd


def returns_variant(fn, fb=None):
    """Map each block that assigns `_0 = Ok(..)/Err(..)/Some/None` to the variant name."""
    out = {}
    for bi, b in enumerate(fn.blocks):
        if b["cleanup"]:
            continue
        for st in b["stmts"]:
            if st["k"] == "assign" and st["lhs"]["l"] == 0 and not st["lhs"]["p"]:
                rv = st["rv"]
                if rv["k"] == "agg" and rv.get("ak") == "adt":
                    out[bi] = rv["variant"]
    return out
