"""Symbolic terms over MIR: reaching definitions, operand/place resolution, simplification.

A term is a hashable tuple:
  ('param', idx, name)                 function parameter (local idx)
  ('const', value, ty)                 evaluated scalar constant (value may be None)
  ('cname', def_path, value, ty)       named constant (assoc const / const item), value if known
  ('fnptr', name, key)                 function item used as a value
  ('field', base, name)
  ('deref', base) / ('ref', base)
  ('down', base, variant)              enum downcast
  ('index', base, idx)
  ('bin', op, a, b) / ('un', op, a)
  ('cast', a, to_ty, from_ty, kind)
  ('call', name, args, site, cid)      cid indexes Sym.callinfo (callee descriptor), site = bb
  ('discr', base)
  ('agg', adt, variant, ((fname, term), ...))
  ('tuple', (terms...)) / ('array', (terms...))
  ('closure', key, (captures...))
  ('unwrap', x)                        payload of Ok/Some of x as produced by `?`
  ('residual', x)                      Err/None residual of x as produced by `?`
  ('phi', local, (terms...))           several reaching definitions
  ('local', idx)                       unresolved local (no definition found / recursion cut)
  ('unknown', why)
"""
from .facts import callee_of, resolved

import sys

sys.setrecursionlimit(20000)
MAX_DEPTH = 400

# global registry of callee descriptors so that call terms are meaningful across Sym instances
CALLINFO = []
_CALLKEYS = {}


class Sym:
    def __init__(self, fn, fb=None, body=None):
        self.fn = fn
        self.fb = fb
        self.body = body or fn.body
        self.blocks = self.body["blocks"]
        self.locals = self.body["locals"]
        self.argc = self.body["argc"]
        self.defs = {}     # local -> list of ('assign', bb, si, rv) | ('call', bb, term)
        self.pdefs = {}    # local -> list of (projection, bb, si, rv|call)
        self.callinfo = CALLINFO
        self._callid = {}
        self._memo = {}
        for bi, b in enumerate(self.blocks):
            for si, st in enumerate(b["stmts"]):
                if st["k"] == "assign":
                    lhs = st["lhs"]
                    if not lhs["p"]:
                        self.defs.setdefault(lhs["l"], []).append(("assign", bi, si, st["rv"]))
                    else:
                        self.pdefs.setdefault(lhs["l"], []).append((lhs["p"], bi, si, st["rv"]))
            t = b["term"]
            if t["k"] == "call":
                d = t["dest"]
                if not d["p"]:
                    self.defs.setdefault(d["l"], []).append(("call", bi, None, t))
                else:
                    self.pdefs.setdefault(d["l"], []).append((d["p"], bi, None, t))

    # ------------------------------------------------------------------ resolution
    def local(self, l, depth=0, stack=()):
        key = ("L", l)
        if key in self._memo:
            return self._memo[key]
        if l in stack or depth > MAX_DEPTH:
            return ("local", l)
        ds = self.defs.get(l, [])
        if not ds:
            if 1 <= l <= self.argc:
                r = ("param", l, self.locals[l].get("name"))
            else:
                r = ("local", l)
            self._memo[key] = r
            return r
        st2 = stack + (l,)
        if len(ds) == 1:
            r = self._def_term(ds[0], depth + 1, st2)
        else:
            ts = []
            bbs = []
            for d in ds:
                t = self._def_term(d, depth + 1, st2)
                ts.append(t)
                bbs.append(d[1])
            if len(set(ts)) == 1:
                r = ts[0]
            else:
                r = ("phi", l, tuple(ts), tuple(bbs))
        if not _has_cut(r):
            self._memo[key] = r
        return r

    def _def_term(self, d, depth, stack):
        if d[0] == "assign":
            return self.rvalue(d[3], depth, stack)
        return self.call_term(d[1], d[3], depth, stack)

    def call_term(self, bb, t, depth=0, stack=()):
        c = callee_of(t)
        if c is None:
            fterm = self.operand(t["f"], depth + 1, stack)
            name = "<indirect>"
            cid = self._cid(bb, {"name": name, "indirect": True, "fterm": fterm})
        else:
            name = c.get("name") or c.get("path")
            cid = self._cid(bb, c)
        args = tuple(self.operand(a, depth + 1, stack) for a in t["args"])
        return simplify(("call", name, args, bb, cid), self)

    def _cid(self, bb, c):
        if bb in self._callid:
            return self._callid[bb]
        gk = (id(self.fn) if self.fn is not None else None, id(self.body) if self.body is not getattr(self.fn, "body", None) else 0, bb)
        if gk[1] == 0 and gk in _CALLKEYS:
            self._callid[bb] = _CALLKEYS[gk]
            return self._callid[bb]
        CALLINFO.append(c)
        self._callid[bb] = len(CALLINFO) - 1
        if gk[1] == 0:
            _CALLKEYS[gk] = self._callid[bb]
        return self._callid[bb]

    def operand(self, op, depth=0, stack=()):
        k = op["k"]
        if k in ("copy", "move"):
            return self.place(op["pl"], depth, stack)
        if k == "const":
            if "fn" in op:
                f = op["fn"]
                return ("fnptr", f.get("name"), resolved(f)["key"])
            if "closure" in op:
                return ("closure", op["closure"], ())
            if "def" in op and "promoted" not in op:
                if op.get("v") is None and self.fb is not None and depth < 40:
                    cb = getattr(self.fb, "const_bodies", {}).get(op.get("def_key"))
                    if cb is not None:
                        # generic constant: its initialiser, read symbolically (e.g. size_of::<H>())
                        try:
                            t = Sym(cb, self.fb).local(0, depth + 1)
                            if not _has_cut(t) and not _contains(t, "phi"):
                                return t
                        except RecursionError:
                            pass
                return ("cname", op["def"], op.get("v"), op["ty"])
            if "promoted" in op:
                return self._promoted(op)
            if "v" in op:
                v = op["v"]
                if "sv" in op:
                    v = op["sv"]
                return ("const", v, op["ty"])
            if op.get("zst"):
                return ("const", None, op["ty"])
            if "slice" in op:
                return ("const", bytes.fromhex(op["slice"]), op["ty"])
            return ("const", None, op["ty"])
        return ("unknown", "operand:" + k)

    def _promoted(self, op):
        """Evaluate a promoted constant `&CONST` by reading the promoted body."""
        try:
            pb = self.fn.promoted[op["promoted"]]
        except Exception:
            return ("const", None, op["ty"])
        ps = Sym(self.fn, self.fb, body=pb)
        t = ps.local(0)
        if "pointee" in op and t[0] == "ref":
            inner = t[1]
            if inner[0] == "cname" and inner[2] is None:
                v = int.from_bytes(bytes.fromhex(op["pointee"]), "little")
                t = ("ref", ("cname", inner[1], v, inner[3]))
        # re-home call ids: promoted bodies rarely contain calls; mark them unknown if so
        if _contains(t, "call"):
            # constant constructors (`A..=B` is RangeInclusive::new(A, B)) are kept; anything else stays opaque
            calls = [x for x in subterms(t) if x[0] == "call"]
            if all(x[1] == "new" and all(not _contains(a, "call") for a in x[2]) for x in calls):
                return t
            return ("unknown", "promoted-with-call")
        return t

    def place(self, pl, depth=0, stack=()):
        t = self.local(pl["l"], depth + 1, stack)
        # partial definitions (field-wise initialisation) are folded in when the base is opaque
        for pr in pl["p"]:
            k = pr["k"]
            if k == "deref":
                t = ("deref", t)
            elif k == "field":
                t = ("field", t, pr.get("n") if pr.get("n") is not None else str(pr["i"]))
            elif k == "down":
                t = ("down", t, pr.get("v"))
            elif k == "index":
                t = ("index", t, self.local(pr["l"], depth + 1, stack))
            elif k == "cidx":
                t = ("index", t, ("const", pr["off"], "usize"))
            elif k == "sub":
                t = ("subslice", t, pr["from"], pr["to"], pr["end"])
            else:
                t = ("proj", t, k)
            t = simplify(t, self)
        return t

    def rvalue(self, rv, depth=0, stack=()):
        k = rv["k"]
        if k == "use":
            return self.operand(rv["op"], depth, stack)
        if k == "ref" or k == "rawptr":
            return simplify(("ref", self.place(rv["pl"], depth, stack)), self)
        if k == "bin":
            return simplify(("bin", rv["op"], self.operand(rv["a"], depth, stack),
                             self.operand(rv["b"], depth, stack)), self)
        if k == "un":
            return simplify(("un", rv["op"], self.operand(rv["a"], depth, stack), rv.get("aty")), self)
        if k == "cast":
            return simplify(("cast", self.operand(rv["op"], depth, stack), rv["ty"], rv["from"],
                             rv["ck"]), self)
        if k == "discr":
            return ("discr", self.place(rv["pl"], depth, stack))
        if k == "agg":
            ops = tuple(self.operand(o, depth, stack) for o in rv["ops"])
            ak = rv["ak"]
            if ak == "adt":
                return ("agg", rv["adt"], rv["variant"], tuple(zip(rv["fields"], ops)))
            if ak == "tuple":
                return ("tuple", ops)
            if ak == "array":
                return ("array", ops)
            if ak == "closure":
                return ("closure", rv["closure"], ops)
            return ("agg?", ak, ops)
        if k == "repeat":
            return ("repeat", self.operand(rv["op"], depth, stack), rv["n"])
        return ("unknown", "rvalue:" + k)

    # ------------------------------------------------------------------ helpers
    def info(self, t):
        """Callee descriptor for a ('call', ...) term."""
        return CALLINFO[t[4]]

    def source_defs(self, l, limit=8):
        """Definitions of local l after following plain copies/moves of other locals."""
        for _ in range(limit):
            ds = self.defs.get(l, [])
            if len(ds) == 1 and ds[0][0] == "assign" and ds[0][3]["k"] == "use" \
                    and ds[0][3]["op"]["k"] in ("copy", "move") and not ds[0][3]["op"]["pl"]["p"]:
                l = ds[0][3]["op"]["pl"]["l"]
                continue
            return l, ds
        return l, self.defs.get(l, [])

    def call_at(self, bb):
        t = self.blocks[bb]["term"]
        return self.call_term(bb, t)

    def arg_terms(self, bb):
        t = self.blocks[bb]["term"]
        return [self.operand(a) for a in t["args"]]


def _has_cut(t):
    return _contains(t, "local")


def _contains(t, tag):
    if not isinstance(t, tuple):
        return False
    if t and t[0] == tag:
        return True
    for x in t[1:]:
        if isinstance(x, tuple) and _contains(x, tag):
            return True
    return False


def contains(t, pred):
    if not isinstance(t, tuple):
        return False
    if t and isinstance(t[0], str) and pred(t):
        return True
    for x in t:
        if isinstance(x, tuple) and contains(x, pred):
            return True
    return False


def subterms(t):
    if not isinstance(t, tuple):
        return
    if t and isinstance(t[0], str):
        yield t
    for x in t:
        if isinstance(x, tuple):
            yield from subterms(x)


INT_TYS = {"u8": 8, "u16": 16, "u32": 32, "u64": 64, "u128": 128, "usize": 64,
           "i8": 8, "i16": 16, "i32": 32, "i64": 64, "i128": 128, "isize": 64}

# Pure identity-like conversions: From/Into between integer types, clone/copy/borrow helpers.
IDENT_CALLS = {"into", "from", "clone", "borrow", "as_ref", "deref", "deref_mut", "as_mut",
               "as_slice", "as_mut_slice", "to_owned", "borrow_mut", "into_iter_identity"}


def simplify(t, sym=None):
    tag = t[0]
    if tag == "deref":
        b = t[1]
        if b[0] == "ref":
            return b[1]
        return t
    if tag == "ref":
        b = t[1]
        if b[0] == "deref":
            return b[1]
        return t
    if tag == "field":
        b = t[1]
        if b[0] == "agg":
            for n, v in b[3]:
                if n == t[2]:
                    return v
        if b[0] == "tuple":
            try:
                return b[1][int(t[2])]
            except (ValueError, IndexError):
                return t
        if b[0] == "closure":
            # captured variable of a closure value (closure bodies inlined by vlint.inline)
            try:
                return b[2][int(t[2])]
            except (ValueError, IndexError, TypeError):
                return t
        if b[0] == "bin" and b[1] in ("AddWithOverflow", "SubWithOverflow", "MulWithOverflow"):
            base = b[1][:3]
            if t[2] == "0":
                return simplify(("bin", base, b[2], b[3]), sym)
            if t[2] == "1":
                return ("ovf", base, b[2], b[3])
        if b[0] == "down":
            inner = b[1]
            # payload of `?`
            if inner[0] == "call" and inner[1] == "branch" and len(inner[2]) == 1:
                if b[2] == "Continue":
                    x_ = inner[2][0]
                    while x_[0] in ("ref", "deref"):
                        x_ = x_[1]
                    if x_[0] == "agg" and x_[2] in ("Ok", "Some") and len(x_[3]) == 1 and x_[1].split("::")[-1] in ("Result", "Option"):
                        return x_[3][0][1]      # `Ok(v)?` on a value built on this path is v
                    return ("unwrap", inner[2][0])
                if b[2] == "Break":
                    return ("residual", inner[2][0])
            if inner[0] == "agg" and inner[2] == b[2]:
                for n, v in inner[3]:
                    if n == t[2]:
                        return v
            # payload of a merged value downcast to variant V: only a definition that built variant V can be read here
            if inner[0] == "phi" and all(a[0] == "agg" for a in inner[2]):
                match = [a for a in inner[2] if a[2] == b[2]]
                if len(match) == 1:
                    for n, v in match[0][3]:
                        if n == t[2]:
                            return v
        return t
    if tag == "bin":
        op, a, b = t[1], t[2], t[3]
        av, bv = _cval(a), _cval(b)
        if av is not None and bv is not None:
            ty = a[2] if a[0] == "const" else a[3]
            v = _fold(op, av, bv, ty)
            if v is not None:
                return ("const", v, ty if op not in CMP_OPS else "bool")
        # checked arithmetic yields (value, overflow) tuples: keep as is
        return t
    if tag == "cast":
        a = t[1]
        if a[0] == "const" and isinstance(a[1], int) and t[2] in INT_TYS:
            bits = INT_TYS[t[2]]
            return ("const", a[1] & ((1 << bits) - 1), t[2])
        if t[4] == "IntToInt" and t[2] == t[3]:
            return a
        return t
    if tag == "unwrap":
        x_ = t[1]
        while x_[0] in ("ref", "deref"):
            x_ = x_[1]
        if x_[0] == "agg" and x_[2] in ("Ok", "Some") and len(x_[3]) == 1 and x_[1].split("::")[-1] in ("Result", "Option"):
            return x_[3][0][1]      # `Ok(v)?` on a value built on this path is v
        return t
    if tag == "call":
        name, args = t[1], t[2]
        # `?` on a value: keep; From::from on the residual: keep
        if name == "from_residual" and len(args) == 1:
            return ("from_residual", args[0])
        return t
    return t


CMP_OPS = {"Eq", "Ne", "Lt", "Le", "Gt", "Ge"}


def _cval(t):
    if t[0] == "const" and isinstance(t[1], int):
        return t[1]
    if t[0] == "cname" and isinstance(t[2], int):
        return t[2]
    return None


def _fold(op, a, b, ty):
    bits = INT_TYS.get(ty, 64)
    mask = (1 << bits) - 1
    try:
        if op in ("Add", "AddUnchecked"):
            return (a + b) & mask
        if op in ("Sub", "SubUnchecked"):
            return (a - b) & mask
        if op in ("Mul", "MulUnchecked"):
            return (a * b) & mask
        if op == "BitAnd":
            return a & b
        if op == "BitOr":
            return a | b
        if op == "BitXor":
            return a ^ b
        if op in ("Shl", "ShlUnchecked"):
            return (a << b) & mask
        if op in ("Shr", "ShrUnchecked"):
            return a >> b
        if op == "Eq":
            return int(a == b)
        if op == "Ne":
            return int(a != b)
        if op == "Lt":
            return int(a < b)
        if op == "Le":
            return int(a <= b)
        if op == "Gt":
            return int(a > b)
        if op == "Ge":
            return int(a >= b)
    except Exception:
        return None
    return None


# ---------------------------------------------------------------------- peeling

def peel(t, through_calls=IDENT_CALLS, casts=True):
    """Strip refs/derefs, identity-like calls and (optionally) casts; return (root, chain)
    where chain lists what was peeled (cast descriptions, call names)."""
    chain = []
    while True:
        tag = t[0]
        if tag in ("ref", "deref"):
            t = t[1]
            continue
        if tag == "cast" and casts:
            chain.append("cast:%s->%s" % (t[3], t[2]))
            t = t[1]
            continue
        if tag == "call" and t[1] in through_calls and len(t[2]) == 1:
            chain.append("call:" + t[1])
            t = t[2][0]
            continue
        if tag == "unwrap":
            chain.append("unwrap")
            t = t[1]
            continue
        if tag == "discr":
            chain.append("discr")
            t = t[1]
            continue
        return t, chain


def show(t, depth=0):
    """Compact human-readable rendering (line-free, stable)."""
    if not isinstance(t, tuple) or not t:
        return str(t)
    if depth > 12:
        return "…"
    tag = t[0]
    d = depth + 1
    if tag == "param":
        return str(t[2] or "arg%d" % t[1])
    if tag == "const":
        v = t[1]
        if isinstance(v, int):
            return hex(v) if v > 9 else str(v)
        return "const<%s>" % t[2].split("::")[-1] if v is None else repr(v)
    if tag == "cname":
        return t[1].split("::", 1)[-1] if t[1].count("::") < 2 else "::".join(t[1].split("::")[-2:])
    if tag == "fnptr":
        return "fn:" + str(t[1])
    if tag == "field":
        return "%s.%s" % (show(t[1], d), t[2])
    if tag == "deref":
        return "*" + show(t[1], d)
    if tag == "ref":
        return "&" + show(t[1], d)
    if tag == "down":
        return "(%s as %s)" % (show(t[1], d), t[2])
    if tag == "index":
        return "%s[%s]" % (show(t[1], d), show(t[2], d))
    if tag == "bin":
        return "(%s %s %s)" % (show(t[2], d), t[1], show(t[3], d))
    if tag == "un":
        return "%s(%s)" % (t[1], show(t[2], d))
    if tag == "cast":
        return "(%s as %s)" % (show(t[1], d), t[2].split("::")[-1])
    if tag == "call":
        return "%s(%s)" % (t[1], ", ".join(show(a, d) for a in t[2]))
    if tag == "discr":
        return "discr(%s)" % show(t[1], d)
    if tag == "agg":
        return "%s::%s{%s}" % (t[1].split("::")[-1], t[2],
                               ", ".join("%s: %s" % (n, show(v, d)) for n, v in t[3]))
    if tag in ("tuple", "array"):
        return "%s(%s)" % ("" if tag == "tuple" else "arr", ", ".join(show(a, d) for a in t[1]))
    if tag == "closure":
        return "closure<%s>" % t[1].split("::")[-1]
    if tag in ("unwrap", "residual", "from_residual"):
        return "%s(%s)" % (tag, show(t[1], d))
    if tag == "phi":
        alts = []
        for a in t[2]:
            x = show(a, d)
            if x not in alts:
                alts.append(x)
        return "phi(%s)" % " | ".join(alts)
    if tag == "local":
        return "_%d" % t[1]
    if tag == "subslice":
        return "%s[%s..]" % (show(t[1], d), t[2])
    return "%s(%s)" % (tag, ", ".join(show(a, d) if isinstance(a, tuple) else str(a) for a in t[1:]))
