"""MIR-level inlining over the factgen JSON bodies.

Two transformations, both producing a *new* `Fn` (the fact base is never modified):

 A. direct calls to crate-local functions chosen by a policy are replaced by the callee's blocks
    (locals and block indices renumbered, parameters assigned from the arguments, `return` turned into an
    assignment of the destination followed by a jump to the call's target, unwinding re-routed);
 B. calls of the std Option/Result/Iterator combinators that take a crate-local closure are replaced by their
    defining control flow (a switch on the discriminant / a `next` loop) around an inlined copy of the closure.

The point is to make rules independent of *where* a piece of logic lives: a check extracted into a private helper, a
helper inlined into its callers, `match` rewritten with `map_or`/`is_some_and`/`any`, all give the same analysed
shape.  The result is ordinary fact JSON, so CFG / Must / Sym / path enumeration work on it unchanged.
"""
import copy
import re

from .facts import Fn, callee_of, resolved

MAX_BLOCKS = 6000


def _shift_place(pl, off):
    pl["l"] += off
    for pr in pl["p"]:
        if pr["k"] == "index":
            pr["l"] += off


def _shift_op(op, off, poff):
    if op is None:
        return
    k = op.get("k")
    if k in ("copy", "move"):
        _shift_place(op["pl"], off)
    elif k == "const" and "promoted" in op and isinstance(op["promoted"], int):
        op["promoted"] += poff


def _shift_rv(rv, off, poff):
    k = rv["k"]
    if k in ("use", "cast", "repeat"):
        _shift_op(rv["op"], off, poff)
    elif k in ("ref", "rawptr", "discr"):
        _shift_place(rv["pl"], off)
    elif k == "bin":
        _shift_op(rv["a"], off, poff)
        _shift_op(rv["b"], off, poff)
    elif k == "un":
        _shift_op(rv["a"], off, poff)
    elif k == "agg":
        for o in rv["ops"]:
            _shift_op(o, off, poff)
    else:
        for key in ("op", "a", "b"):
            if isinstance(rv.get(key), dict):
                _shift_op(rv[key], off, poff)
        if isinstance(rv.get("pl"), dict):
            _shift_place(rv["pl"], off)
        for o in rv.get("ops", []) or []:
            _shift_op(o, off, poff)


def _shift_block(b, off, boff, poff, unwind_to):
    for s in b["stmts"]:
        if s["k"] == "assign":
            _shift_place(s["lhs"], off)
            _shift_rv(s["rv"], off, poff)
        elif "l" in s and isinstance(s["l"], int):
            s["l"] += off
        elif "pl" in s and isinstance(s["pl"], dict):
            _shift_place(s["pl"], off)
    t = b["term"]
    k = t["k"]
    for key in ("t", "otherwise"):
        if isinstance(t.get(key), int):
            t[key] += boff
    if "tgts" in t:
        t["tgts"] = [x + boff for x in t["tgts"]]
    if "unwind" in t:
        u = t["unwind"]
        if isinstance(u, int):
            t["unwind"] = u + boff
        elif u == "continue" and unwind_to is not None:
            t["unwind"] = unwind_to
    if k == "call":
        for a in t["args"]:
            _shift_op(a, off, poff)
        if t["f"].get("k") in ("copy", "move"):
            _shift_op(t["f"], off, poff)
        if t.get("dest"):
            _shift_place(t["dest"], off)
    elif k == "switch":
        _shift_op(t["op"], off, poff)
    elif k == "drop":
        _shift_place(t["pl"], off)
    elif k == "assert":
        for key in ("cond", "a", "b", "index", "len"):
            if isinstance(t.get(key), dict):
                _shift_op(t[key], off, poff)


def _mv(l):
    return {"k": "move", "pl": {"l": l, "p": []}}


def _cp(l):
    return {"k": "copy", "pl": {"l": l, "p": []}}


def _assign(l, rv, line):
    lhs = l if isinstance(l, dict) else {"l": l, "p": []}
    return {"k": "assign", "lhs": lhs, "rv": rv, "line": line, "exp": False}


def thread_jumps(body, rounds=4, hops=4):
    """Jump threading for flag locals: `X = const c; goto ...; T: switch X` where the blocks in between (and T before its
    switch) only copy values around is redirected to the switch target selected by c.  The expansions above produce exactly
    this shape (`dest = true; goto T`), and without threading the CFG would contain infeasible paths from the `true`
    exit to the `false` arm."""
    blocks = body["blocks"]

    def copies_only(stmts):
        for st in stmts:
            if st["k"] == "dead":
                continue
            if st["k"] == "assign" and not st["lhs"]["p"] and st["rv"]["k"] == "use" and st["rv"]["op"]["k"] in ("copy", "move") \
                    and not st["rv"]["op"]["pl"]["p"]:
                continue
            if st["k"] == "assign" and not st["lhs"]["p"] and st["rv"]["k"] == "discr" and not st["rv"]["pl"]["p"]:
                continue     # reading a discriminant has no effect; the value read is resolved below
            if st["k"] == "assign" and not st["lhs"]["p"] and st["rv"]["k"] == "use" and st["rv"]["op"]["k"] == "const":
                continue     # constants assigned to locals (drop flags, literals)
            if st["k"] == "assign" and not st["lhs"]["p"] and st["rv"]["k"] == "agg" and st["rv"].get("ak") == "tuple" and not st["rv"]["ops"]:
                continue     # `()`
            return False
        return True

    for _ in range(rounds):
        changed = False
        for b in blocks:
            t = b["term"]
            if t["k"] != "goto":
                continue
            # follow gotos through copy-only blocks to a switch
            chain = []
            cur = t["t"]
            T = None
            for _h in range(hops):
                blk = blocks[cur]
                if blk is b or blk["cleanup"] != b["cleanup"] or not copies_only(blk["stmts"]):
                    break
                chain.append(blk)
                if blk["term"]["k"] == "switch":
                    T = blk
                    break
                if blk["term"]["k"] != "goto":
                    break
                cur = blk["term"]["t"]
            if T is None:
                continue
            op = T["term"]["op"]
            if op["k"] not in ("copy", "move") or op["pl"]["p"]:
                continue
            src = op["pl"]["l"]
            via_discr = False
            val = None
            known = False
            for blk in reversed(chain):
                for st in reversed(blk["stmts"]):
                    if known:
                        break
                    if st["k"] == "assign" and st["lhs"]["l"] == src and not st["lhs"]["p"]:
                        if st["rv"]["k"] == "discr":
                            via_discr = True
                            src = st["rv"]["pl"]["l"]
                        elif st["rv"]["k"] == "use" and st["rv"]["op"]["k"] in ("copy", "move"):
                            src = st["rv"]["op"]["pl"]["l"]
                        else:
                            # defined inside the chain by a constant / unit: decided there (or not at all)
                            if st["rv"]["k"] == "use" and st["rv"]["op"]["k"] == "const" and isinstance(st["rv"]["op"].get("v"), int) and not via_discr:
                                val = st["rv"]["op"]["v"]
                            known = True
            for st in ([] if known else reversed(b["stmts"])):
                if st["k"] == "assign" and st["lhs"]["l"] == src:
                    if via_discr:
                        # `X = Some(..) / None / Ok(..) / Err(..)` built here and its discriminant tested at T
                        if not st["lhs"]["p"] and st["rv"]["k"] == "agg" and st["rv"].get("ak") == "adt" and \
                                st["rv"].get("adt") in (OPT, RES) and isinstance(st["rv"].get("vi"), int):
                            val = st["rv"]["vi"]
                    elif not st["lhs"]["p"] and st["rv"]["k"] == "use" and st["rv"]["op"]["k"] == "const" and isinstance(st["rv"]["op"].get("v"), int):
                        val = st["rv"]["op"]["v"]
                    break
            if val is None:
                continue
            sw = T["term"]
            tgt = sw["otherwise"]
            for v, tg in zip(sw["vals"], sw["tgts"]):
                if v == val:
                    tgt = tg
            for blk in chain:
                b["stmts"].extend(copy.deepcopy(blk["stmts"]))
            b["term"] = {"k": "goto", "t": tgt, "line": t.get("line", 0), "exp": False}
            changed = True
        if not changed:
            break


def strip_logging(body):
    """`log::trace!/debug!/info!/warn!/error!` expand to `if Level::X <= STATIC_MAX_LEVEL && Level::X <= max_level() { log(..) }`.
    Logging has no bearing on any of the properties, so the level test is taken as false: the statement (and the
    formatting of its arguments) disappears from the analysed program.  Returns the number of statements removed."""
    n = 0
    for b in body["blocks"]:
        t = b["term"]
        if t["k"] != "call" or not t.get("exp"):
            continue
        c = callee_of(t)
        atys = t.get("atys") or []
        if c is None or c.get("name") != "le" or len(atys) != 2:
            continue
        if not (atys[0].endswith("log::Level") and atys[1].endswith("log::LevelFilter")):
            continue
        if t.get("dest") is None or t.get("t") is None:
            continue
        b["stmts"].append(_assign(copy.deepcopy(t["dest"]), {"k": "use", "op": _const_bool(False)}, t.get("line", 0)))
        b["term"] = {"k": "goto", "t": t["t"], "line": t.get("line", 0), "exp": True}
        n += 1
    return n


def fold_const_switches(body, rounds=3, discr_of=None):
    """A switch on a local whose only definition in the whole body is a constant (typically a bool/enum parameter of
    an inlined helper called with a literal) becomes a goto."""
    blocks = body["blocks"]
    for _ in range(rounds):
        defs = {}
        for b in blocks:
            for st in b["stmts"]:
                if st["k"] == "assign" and not st["lhs"]["p"]:
                    defs.setdefault(st["lhs"]["l"], []).append(st["rv"])
                elif st["k"] == "assign":
                    defs.setdefault(st["lhs"]["l"], []).append(None)
            t = b["term"]
            if t["k"] == "call" and t.get("dest") is not None:
                defs.setdefault(t["dest"]["l"], []).append(None)
        changed = False
        for b in blocks:
            t = b["term"]
            if t["k"] != "switch":
                continue
            op = t["op"]
            val = None
            if op["k"] == "const" and isinstance(op.get("v"), int):
                val = op["v"]
            elif op["k"] in ("copy", "move") and not op["pl"]["p"]:
                l = op["pl"]["l"]
                via_discr = False
                for _h in range(6):
                    ds = defs.get(l, [])
                    if len(ds) != 1 or ds[0] is None:
                        break
                    rv = ds[0]
                    if via_discr:
                        # the discriminant of a value whose only definition is a field-less enum literal
                        if rv["k"] == "agg" and rv.get("ak") == "adt" and rv.get("adt") in (OPT, RES) and isinstance(rv.get("vi"), int):
                            val = rv["vi"]      # Some(..)/None, Ok(..)/Err(..) passed as a literal to an expanded helper
                            break
                        if rv["k"] == "agg" and rv.get("ak") == "adt" and not rv.get("ops") and discr_of is not None:
                            val = discr_of(rv.get("adt"), rv.get("variant"))
                            break
                    elif rv["k"] == "use" and rv["op"]["k"] == "const" and isinstance(rv["op"].get("v"), int):
                        val = rv["op"]["v"]
                        break
                    if rv["k"] == "discr" and not rv["pl"]["p"] and not via_discr:
                        via_discr = True
                        l = rv["pl"]["l"]
                        if l <= body["argc"] and l >= 1:
                            break
                        continue
                    if rv["k"] == "use" and rv["op"]["k"] in ("copy", "move") and not rv["op"]["pl"]["p"]:
                        l = rv["op"]["pl"]["l"]
                        if l <= body["argc"] and l >= 1:
                            break
                        continue
                    break
            if val is None:
                continue
            tgt = t["otherwise"]
            for v, tg in zip(t["vals"], t["tgts"]):
                if v == val:
                    tgt = tg
            b["term"] = {"k": "goto", "t": tgt, "line": t.get("line", 0), "exp": False}
            changed = True
        if not changed:
            break


def prune_unreachable(body):
    """Blocks that can no longer be reached keep no statements (their definitions must not feed merged values)."""
    blocks = body["blocks"]
    seen = {0}
    work = [0]
    while work:
        i = work.pop()
        t = blocks[i]["term"]
        nxt = []
        for k in ("t", "otherwise"):
            if isinstance(t.get(k), int):
                nxt.append(t[k])
        nxt += list(t.get("tgts", []))
        if isinstance(t.get("unwind"), int):
            nxt.append(t["unwind"])
        for n in nxt:
            if n not in seen:
                seen.add(n)
                work.append(n)
    for i, b in enumerate(blocks):
        if i not in seen and (b["stmts"] or b["term"]["k"] != "unreachable"):
            b["stmts"] = []
            b["term"] = {"k": "unreachable", "line": b["term"].get("line", 0), "exp": False}


class Inliner:
    def __init__(self, fb, policy, max_depth=4, combinators=True, skip_combinators=("map_err",), src=None):
        self.fb = fb
        self.src = src if src is not None else getattr(fb, "orig_fns", None) or fb.fns
        self.absorbed = set()
        self.policy = policy
        self.max_depth = max_depth
        self.combinators = combinators
        self.skip_combinators = set(skip_combinators)

    # ------------------------------------------------------------------------------------------------------------
    def run(self, fn):
        body = copy.deepcopy(fn.body)
        promoted = list(fn.promoted)
        blocks = body["blocks"]
        self.body, self.blocks, self.locals, self.promoted = body, blocks, body["locals"], promoted
        depth = [0] * len(blocks)
        chain = [frozenset([fn.key])] * len(blocks)
        self.depth, self.chain = depth, chain
        self.inlined = []
        self._fused = {}
        self._then_some = set()
        i = 0
        while i < len(blocks):
            if len(blocks) > MAX_BLOCKS:
                break
            b = blocks[i]
            t = b["term"]
            if t["k"] == "call" and depth[i] < self.max_depth:
                if self._try_fusion(i, b, t) or self._try_combinator(i, b, t) or self._try_closure_call(i, b, t) or self._try_direct(i, b, t):
                    continue  # re-examine the same block index (its terminator is now a goto) -> moves on next iteration
            i += 1
        stripped = strip_logging(body)
        if self.inlined or stripped:
            fold_const_switches(body, discr_of=self._discr_of)
            thread_jumps(body)
            prune_unreachable(body)
        rec = dict(fn.rec)
        rec["body"] = body
        rec["promoted"] = promoted
        rec["inlined"] = self.inlined
        out = Fn(rec)
        return out

    # ------------------------------------------------------------------------------------------------------------
    def _new_local(self, ty, name=None):
        self.locals.append({"ty": ty, "name": name})
        return len(self.locals) - 1

    def _new_block(self, d, ch, cleanup=False, line=0):
        self.blocks.append({"stmts": [], "term": {"k": "unreachable", "line": line, "exp": False}, "cleanup": cleanup})
        self.depth.append(d)
        self.chain.append(ch)
        return len(self.blocks) - 1

    def _splice(self, i, callee, args, dest, target, unwind, line, env_ref=None):
        """Replace the terminator of block i by an inlined copy of `callee` called with operand list `args`."""
        caller_cleanup = self.blocks[i]["cleanup"]
        off = len(self.locals)
        boff = len(self.blocks)
        poff = len(self.promoted)
        self.locals.extend(copy.deepcopy(callee.locals))
        self.promoted.extend(callee.promoted)
        d = self.depth[i] + 1
        ch = self.chain[i] | {callee.key}
        unwind_to = unwind if isinstance(unwind, int) else None
        for cb in callee.blocks:
            nb = copy.deepcopy(cb)
            if nb["term"]["k"] == "ret":
                ln = nb["term"].get("line", line)
                if dest is not None:
                    nb["stmts"].append(_assign(copy.deepcopy(dest), {"k": "use", "op": _mv(0)}, ln))
                    # the `_mv(0)` above is shifted below together with the rest of the block; protect dest from shifting
                    nb["stmts"][-1]["_noshift_lhs"] = True
                nb["term"] = ({"k": "goto", "t": target - boff, "line": ln, "exp": False} if target is not None
                              else {"k": "unreachable", "line": ln, "exp": False})
            elif nb["term"]["k"] == "resume" and unwind_to is not None:
                nb["term"] = {"k": "goto", "t": unwind_to - boff, "line": line, "exp": False}
            # shift (dest of the synthesized assignment must keep caller numbering)
            keep = [s for s in nb["stmts"] if s.get("_noshift_lhs")]
            saved = [copy.deepcopy(s["lhs"]) for s in keep]
            _shift_block(nb, off, boff, poff, unwind_to)
            for s, lhs in zip(keep, saved):
                s["lhs"] = lhs
                del s["_noshift_lhs"]
            if caller_cleanup:
                nb["cleanup"] = True
            self.blocks.append(nb)
            self.depth.append(d)
            self.chain.append(ch)
        b = self.blocks[i]
        for j, a in enumerate(args):
            if j >= callee.argc:
                break
            b["stmts"].append(_assign(off + 1 + j, {"k": "use", "op": a}, line))
        b["term"] = {"k": "goto", "t": boff, "line": line, "exp": False}
        self.inlined.append(callee.key)
        self.absorbed.add(callee.key)

    def _discr_of(self, adt, variant):
        try:
            for v in self.fb.adt(adt)["variants"]:
                if v["name"] == variant and isinstance(v.get("discr"), int):
                    return v["discr"]
        except Exception:
            pass
        return None

    def _try_closure_call(self, i, b, t):
        """`f(a, b)` where `f` is a crate-local closure value: MIR has Fn::call(&f, (a, b)) (or call_mut / call_once).  The
        closure body is spliced in with the tuple's elements as its arguments."""
        c = callee_of(t)
        if c is None or c.get("name") not in ("call", "call_mut", "call_once") or len(t["args"]) != 2:
            return False
        if not (c.get("trait") or c.get("of_trait") or "").split("::")[-1] in ("Fn", "FnMut", "FnOnce"):
            return False
        key = resolved(c).get("key")
        callee = self.src.get(key)
        if callee is None or callee.rec.get("dk") != "Closure":
            # a closure received as a generic parameter by a helper that has been expanded here: the callee is not resolved
            # in the helper's own body, but the value passed is a closure built in this body
            ck, _cop = self._closure_of(t["args"][0])
            if ck is None and t["args"][0]["k"] in ("copy", "move") and not t["args"][0]["pl"]["p"]:
                d = self._single_def(t["args"][0]["pl"]["l"])
                if d and d[0] == "assign" and d[1]["k"] == "ref" and not d[1]["pl"]["p"]:
                    ck, _cop = self._closure_of({"k": "copy", "pl": d[1]["pl"]})
            callee = self.src.get(ck) if ck and ck != "<fn>" else None
        if callee is None or callee.rec.get("dk") != "Closure" or callee.key in self.chain[i]:
            return False
        tup = t["args"][1]
        n = callee.argc - 1
        elems = None
        if tup["k"] in ("copy", "move") and not tup["pl"]["p"]:
            for st in reversed(b["stmts"]):
                if st["k"] == "assign" and st["lhs"]["l"] == tup["pl"]["l"] and not st["lhs"]["p"]:
                    if st["rv"]["k"] == "agg" and st["rv"].get("ak") == "tuple" and len(st["rv"]["ops"]) == n:
                        elems = [copy.deepcopy(o) for o in st["rv"]["ops"]]
                    break
            if elems is None:
                elems = [{"k": "move", "pl": {"l": tup["pl"]["l"], "p": [{"k": "field", "i": j, "n": None, "ty": "?"}]}} for j in range(n)]
        elif tup["k"] == "const" and n == 0:
            elems = []
        if elems is None:
            return False
        env = copy.deepcopy(t["args"][0])
        envty = callee.locals[1]["ty"] if len(callee.locals) > 1 else ""
        if c.get("name") == "call_once" and envty.startswith("&") and not (t.get("atys") or [""])[0].startswith("&"):
            return False     # by-value call of a by-reference body: not produced by rustc for local closures
        self._splice(i, callee, [env] + elems, t.get("dest"), t.get("t"), t.get("unwind"), t.get("line", 0))
        return True

    def _try_direct(self, i, b, t):
        c = callee_of(t)
        if c is None:
            return False
        r = resolved(c)
        key = r.get("key")
        callee = self.src.get(key)
        if callee is None and c.get("of_trait") and c.get("trait_decl") and str(c.get("of_trait")).startswith(("vhost::", "vhost_user_backend::")):
            # a call through a workspace trait that could not be resolved at this (generic) site: if the trait has exactly
            # one implementation of the method in the workspace (a blanket impl of a private helper trait), that is the callee
            impls = [g for g in self.src.values() if g.trait == c["of_trait"] and g.name == c.get("name") and not g.rec.get("trait_decl")]
            if len(impls) == 1:
                callee = impls[0]
        if callee is None or callee.key in self.chain[i]:
            return False
        if callee.rec.get("dk") == "Closure":
            return False
        if len(t["args"]) != callee.argc:
            return False
        if not self.policy(callee, self.depth[i]):
            return False
        self._splice(i, callee, t["args"], t.get("dest"), t.get("t"), t.get("unwind"), t.get("line", 0))
        return True

    # ------------------------------------------------------------------------------------------------------------
    # lazy iterator adapters: `next` on map/filter/take_while/inspect adapters is expanded into `next` on the source
    # iterator plus the closure; `collect` into a Vec becomes a push loop.
    FUSABLE = {"map": False, "filter": True, "take_while": True, "inspect": True}   # name -> closure takes &item

    def _single_def(self, l):
        """('assign', rvalue) or ('call', block index, terminator) if local l has exactly one definition."""
        found = []
        for bi, blk in enumerate(self.blocks):
            for st in blk["stmts"]:
                if st["k"] == "assign" and st["lhs"]["l"] == l and not st["lhs"]["p"]:
                    found.append(("assign", st["rv"]))
            t = blk["term"]
            if t["k"] == "call" and t.get("dest") and t["dest"]["l"] == l and not t["dest"]["p"]:
                found.append(("call", bi, t))
        return found[0] if len(found) == 1 else None

    def _adapter_of(self, l, hops=8):
        """Follow local l back through moves, `&mut` borrows and identity conversions to a fusable adapter call."""
        for _ in range(hops):
            d = self._single_def(l)
            if d is None:
                return None
            if d[0] == "assign":
                rv = d[1]
                if rv["k"] == "use" and rv["op"]["k"] in ("copy", "move") and not rv["op"]["pl"]["p"]:
                    l = rv["op"]["pl"]["l"]
                    continue
                if rv["k"] == "ref" and (not rv["pl"]["p"] or [x["k"] for x in rv["pl"]["p"]] == ["deref"]):
                    l = rv["pl"]["l"]   # borrow, or reborrow through a reference local
                    continue
                return None
            _k, bi, t = d
            c = callee_of(t)
            if c is None or not t["args"]:
                return None
            name = c.get("name")
            a0 = t["args"][0]
            if name in ("into_iter", "by_ref") and a0["k"] in ("copy", "move") and not a0["pl"]["p"]:
                # IntoIterator for an iterator is the identity; only follow when the source is itself an adapter
                inner = self._adapter_of(a0["pl"]["l"], hops - 1)
                return inner
            if name in self.FUSABLE and ((c.get("trait") or c.get("of_trait") or "").endswith("iter::Iterator")) and len(t["args"]) == 2:
                return bi, t, name
            if (bi, "fused") in self._fused:
                return bi, t, self._fused[(bi, "fused")][2]
            return None
        return None

    def _try_fusion(self, i, b, t):
        if not self.combinators:
            return False
        c = callee_of(t)
        if c is None:
            return False
        name = c.get("name")
        is_iter = (c.get("trait") or c.get("of_trait") or "").endswith("iter::Iterator")
        if name == "collect" and is_iter:
            return self._try_collect(i, b, t)
        if name != "next" or not is_iter or c.get("synthetic_src"):
            return False
        a0 = t["args"][0]
        if a0["k"] not in ("copy", "move") or a0["pl"]["p"] or t.get("dest") is None or t.get("t") is None:
            return False
        ad = self._adapter_of(a0["pl"]["l"])
        if ad is None:
            return False
        abi, at, aname = ad
        st = self._fused.get(abi)
        if st is None:
            # rewrite the adapter construction: keep the source iterator and the closure in locals of their own
            ck, cop = self._closure_of(at["args"][1])
            if ck is None:
                return False
            line = at.get("line", 0)
            ab = self.blocks[abi]
            S = self._new_local(at["atys"][0] if at.get("atys") else "?")
            ab["stmts"].append(_assign(S, _use(copy.deepcopy(at["args"][0])), line))
            if cop["k"] == "const":
                CL = None
            else:
                CL = self._new_local(at["atys"][1] if at.get("atys") and len(at["atys"]) > 1 else "?")
                ab["stmts"].append(_assign(CL, _use(copy.deepcopy(cop)), line))
            if at.get("t") is None:
                return False
            ab["term"] = {"k": "goto", "t": at["t"], "line": line, "exp": False}
            st = (S, CL, aname, ck, cop)
            self._fused[abi] = st
            self._fused[(abi, "fused")] = st
            self.inlined.append("<iter::%s>" % aname)
            if ck != "<fn>":
                self.absorbed.add(ck)
        S, CL, aname, ck, cop = st
        clop = copy.deepcopy(cop) if CL is None else _cp(CL)
        by_ref = self.FUSABLE[aname]
        line = t.get("line", 0)
        d, ch, cleanup = self.depth[i], self.chain[i], b["cleanup"]
        # head: tmp = next(&mut S)
        sref = self._new_local("&mut ?")
        b["stmts"].append(_assign(sref, {"k": "ref", "bk": "mut", "pl": {"l": S, "p": []}}, line))
        head = self._new_block(d, ch, cleanup, line)
        b["term"] = {"k": "goto", "t": head, "line": line, "exp": False}
        nx = self._new_local("std::option::Option<?>")
        sw = self._new_block(d, ch, cleanup, line)
        fn = dict(NEXT_FN)
        self.blocks[head]["term"] = {"k": "call", "f": {"k": "const", "ty": "fn next", "fn": fn}, "args": [_cp(sref)], "atys": ["&mut ?"],
                                     "dest": {"l": nx, "p": []}, "dty": "std::option::Option<?>", "t": sw,
                                     "unwind": t.get("unwind", "continue"), "line": line, "exp": False}
        dl = self._new_local("isize")
        self.blocks[sw]["stmts"].append(_assign(dl, {"k": "discr", "pl": {"l": nx, "p": []}}, line))
        end = self._new_block(d, ch, cleanup, line)
        body = self._new_block(d, ch, cleanup, line)
        self.blocks[sw]["term"] = {"k": "switch", "op": _mv(dl), "dty": "isize", "vals": [0], "tgts": [end], "otherwise": body, "line": line, "exp": False}
        _finish(self, end, t, _agg(OPT, "None", 0, []))
        item = _variant_field({"l": nx, "p": []}, "Some", 1, OPT)
        rl = self._new_local(self._ret_ty(ck))
        after = self._new_block(d, ch, cleanup, line)
        val = _ref_of(self, body, copy.deepcopy(item), line) if by_ref else _mvp(copy.deepcopy(item))
        self._call_closure(body, ck, clop, [val], rl, after, t.get("unwind"), line)
        if aname == "map":
            _finish(self, after, t, _agg(OPT, "Some", 1, [_mv(rl)]))
        elif aname == "inspect":
            _finish(self, after, t, _agg(OPT, "Some", 1, [_mvp(copy.deepcopy(item))]))
        elif aname == "filter":
            _bool_branch(self, after, rl, t, lambda y: _finish(self, y, t, _agg(OPT, "Some", 1, [_mvp(copy.deepcopy(item))])),
                         lambda n: _goto(self, n, head, line))
        elif aname == "take_while":
            _bool_branch(self, after, rl, t, lambda y: _finish(self, y, t, _agg(OPT, "Some", 1, [_mvp(copy.deepcopy(item))])),
                         lambda n: _finish(self, n, t, _agg(OPT, "None", 0, [])))
        return True

    def _try_collect(self, i, b, t):
        """`iter.collect::<Vec<_>>()` over a fusable adapter chain -> explicit push loop."""
        dty = (t.get("dty") or "")
        as_result = dty.startswith("std::result::Result<std::vec::Vec<")
        if not (dty.startswith("std::vec::Vec<") or as_result) or t.get("dest") is None or t.get("t") is None:
            return False
        a0 = t["args"][0]
        if a0["k"] not in ("copy", "move") or a0["pl"]["p"]:
            return False
        if self._adapter_of(a0["pl"]["l"]) is None:
            return False
        line = t.get("line", 0)
        d, ch, cleanup = self.depth[i], self.chain[i], b["cleanup"]
        it = self._new_local(t["atys"][0] if t.get("atys") else "?")
        b["stmts"].append(_assign(it, _use(copy.deepcopy(a0)), line))
        vec = self._new_local(dty)
        mk = self._new_block(d, ch, cleanup, line)
        b["term"] = {"k": "goto", "t": mk, "line": line, "exp": False}
        head0 = self._new_block(d, ch, cleanup, line)
        self.blocks[mk]["term"] = {"k": "call", "f": {"k": "const", "ty": "fn new", "fn": {
            "key": "alloc::vec::{impl#0}::new", "path": "std::vec::Vec::<T>::new", "name": "new", "dk": "AssocFn",
            "self_ty": "std::vec::Vec<T>", "self_adt": "std::vec::Vec", "local": False, "synthetic": True}},
            "args": [], "atys": [], "dest": {"l": vec, "p": []}, "dty": dty, "t": head0, "unwind": t.get("unwind", "continue"), "line": line, "exp": False}
        itref = self._new_local("&mut ?")
        self.blocks[head0]["stmts"].append(_assign(itref, {"k": "ref", "bk": "mut", "pl": {"l": it, "p": []}}, line))
        head = self._new_block(d, ch, cleanup, line)
        _goto(self, head0, head, line)
        nx = self._new_local("std::option::Option<?>")
        sw = self._new_block(d, ch, cleanup, line)
        self.blocks[head]["term"] = {"k": "call", "f": {"k": "const", "ty": "fn next", "fn": dict(NEXT_FN)}, "args": [_cp(itref)], "atys": ["&mut ?"],
                                     "dest": {"l": nx, "p": []}, "dty": "std::option::Option<?>", "t": sw,
                                     "unwind": t.get("unwind", "continue"), "line": line, "exp": False}
        dl = self._new_local("isize")
        self.blocks[sw]["stmts"].append(_assign(dl, {"k": "discr", "pl": {"l": nx, "p": []}}, line))
        end = self._new_block(d, ch, cleanup, line)
        body = self._new_block(d, ch, cleanup, line)
        self.blocks[sw]["term"] = {"k": "switch", "op": _mv(dl), "dty": "isize", "vals": [0], "tgts": [end], "otherwise": body, "line": line, "exp": False}
        if as_result:
            _finish(self, end, t, _agg(RES, "Ok", 0, [_mv(vec)]))
            # item is a Result: Err(e) ends the collection with Err(e), Ok(v) is pushed
            item_l = self._new_local("std::result::Result<?, ?>")
            self.blocks[body]["stmts"].append(_assign(item_l, _use(_mvp(_variant_field({"l": nx, "p": []}, "Some", 1, OPT))), line))
            d2 = self._new_local("isize")
            self.blocks[body]["stmts"].append(_assign(d2, {"k": "discr", "pl": {"l": item_l, "p": []}}, line))
            okb = self._new_block(d, ch, cleanup, line)
            erb = self._new_block(d, ch, cleanup, line)
            self.blocks[body]["term"] = {"k": "switch", "op": _mv(d2), "dty": "isize", "vals": [0], "tgts": [okb], "otherwise": erb, "line": line, "exp": False}
            _finish(self, erb, t, _agg(RES, "Err", 1, [_mvp(_variant_field({"l": item_l, "p": []}, "Err", 1, RES))]))
            body = okb
            pushed = _mvp(_variant_field({"l": item_l, "p": []}, "Ok", 0, RES))
        else:
            _finish(self, end, t, _use(_mv(vec)))
            pushed = _mvp(_variant_field({"l": nx, "p": []}, "Some", 1, OPT))
        vref = self._new_local("&mut " + dty)
        self.blocks[body]["stmts"].append(_assign(vref, {"k": "ref", "bk": "mut", "pl": {"l": vec, "p": []}}, line))
        unit = self._new_local("()")
        self.blocks[body]["term"] = {"k": "call", "f": {"k": "const", "ty": "fn push", "fn": {
            "key": "alloc::vec::{impl#1}::push", "path": "std::vec::Vec::<T, A>::push", "name": "push", "dk": "AssocFn",
            "self_ty": "std::vec::Vec<T, A>", "self_adt": "std::vec::Vec", "local": False, "synthetic": True}},
            "args": [_mv(vref), pushed], "atys": ["&mut " + dty, "?"],
            "dest": {"l": unit, "p": []}, "dty": "()", "t": head, "unwind": t.get("unwind", "continue"), "line": line, "exp": False}
        self.inlined.append("<iter::collect>")
        return True

    # ------------------------------------------------------------------------------------------------------------
    # combinators
    def _closure_of(self, op):
        """Closure key + the operand holding the closure value, if `op` is a crate-local closure."""
        if op["k"] == "const":
            k = op.get("closure")
            if k is None and "fn" in op:
                # a function item used as the callback (`opt.map(helper)`): treated like a capture-less closure
                fk = resolved(op["fn"]).get("key")
                fobj = self.src.get(fk)
                if fobj is not None and self.policy(fobj, 0):
                    return fk, op
                # any other function item (std / third-party / a kept workspace function): the expansion calls it
                return "<fn>", op
            return (k, op) if k in self.src else (None, None)
        pl = op["pl"]
        if pl["p"]:
            return None, None
        l = pl["l"]
        found = None
        for _ in range(4):
            defs = []
            for blk in self.blocks:
                for s in blk["stmts"]:
                    if s["k"] == "assign" and s["lhs"]["l"] == l and not s["lhs"]["p"]:
                        defs.append(s["rv"])
            if len(defs) != 1:
                return None, None
            rv = defs[0]
            if rv["k"] == "agg" and rv.get("ak") == "closure":
                found = rv["closure"]
                break
            if rv["k"] == "use" and rv["op"]["k"] in ("copy", "move") and not rv["op"]["pl"]["p"]:
                l = rv["op"]["pl"]["l"]
                continue
            if rv["k"] == "use" and rv["op"]["k"] == "const" and rv["op"].get("closure"):
                found = rv["op"]["closure"]
                break
            return None, None
        if found in self.src:
            return found, op
        return None, None

    def _ret_ty(self, ck):
        f = self.src.get(ck)
        return f.locals[0]["ty"] if f is not None else "?"

    def _call_closure(self, blk, ckey, cop, vals, dest_local, target, unwind, line):
        """Terminate block `blk` with an inlined invocation of closure `ckey` (value operand `cop`) on `vals`."""
        if ckey == "<fn>":
            b = self.blocks[blk]
            b["term"] = {"k": "call", "f": copy.deepcopy(cop), "args": vals, "atys": ["?"] * len(vals),
                         "dest": {"l": dest_local, "p": []} if dest_local is not None else None, "dty": "?",
                         "t": target, "unwind": unwind if unwind is not None else "continue", "line": line, "exp": False}
            return
        cl = self.src[ckey]
        if cl.rec.get("dk") != "Closure":
            self._splice(blk, cl, vals, {"l": dest_local, "p": []} if dest_local is not None else None, target, unwind, line)
            return
        envty = cl.locals[1]["ty"] if len(cl.locals) > 1 else ""
        b = self.blocks[blk]
        if envty.startswith("&"):
            # Fn / FnMut: the body takes a reference to the closure value
            if cop["k"] == "const":
                tmp = self._new_local(envty.lstrip("&").replace("mut ", "", 1))
                b["stmts"].append(_assign(tmp, {"k": "use", "op": copy.deepcopy(cop)}, line))
                src = {"l": tmp, "p": []}
            else:
                src = copy.deepcopy(cop["pl"])
            r = self._new_local(envty)
            b["stmts"].append(_assign(r, {"k": "ref", "bk": "mut" if envty.startswith("&mut") else "shared", "pl": src}, line))
            env = _mv(r)
        else:
            env = copy.deepcopy(cop)
        args = [env] + vals
        self._splice(blk, cl, args, {"l": dest_local, "p": []} if dest_local is not None else None, target, unwind, line)

    def _try_combinator(self, i, b, t):
        if not self.combinators:
            return False
        c = callee_of(t)
        if c is None:
            return False
        r = resolved(c)
        name = c.get("name")
        adt = (r.get("self_adt") or c.get("self_adt") or "")
        if name in self.skip_combinators:
            return False
        kind = None
        if adt.endswith("option::Option"):
            kind = "opt"
        elif adt.endswith("result::Result"):
            kind = "res"
        elif (c.get("trait") or r.get("trait") or "").endswith("iter::Iterator") or (c.get("of_trait") or "").endswith("iter::Iterator"):
            kind = "iter"
        if kind is None and name in ("then", "then_some") and ((r.get("self_ty") or c.get("self_ty") or "") == "bool" or (t.get("atys") or [""])[0] == "bool"):
            kind = "bool"
        if kind is None:
            return False
        tmpl = TEMPLATES.get((kind, name))
        if tmpl is None:
            return False
        args = t["args"]
        if (kind, name) == ("opt", "ok_or"):
            # only the idiom `cond.then_some(v).ok_or(e)` (an `ensure`-style test) is expanded; elsewhere `ok_or` is kept as
            # a call (the rules read through it)
            a0 = args[0]
            if not (a0["k"] in ("copy", "move") and not a0["pl"]["p"] and a0["pl"]["l"] in self._then_some):
                return False
        if (kind, name) == ("bool", "then_some") and t.get("dest") is not None and not t["dest"]["p"]:
            self._then_some.add(t["dest"]["l"])
        # every closure-typed parameter of the template must be a crate-local closure
        cls = {}
        for idx in tmpl["closures"]:
            if idx >= len(args):
                return False
            ck, cop = self._closure_of(args[idx])
            if ck is None or (ck != "<fn>" and ck in self.chain[i]):
                return False
            cls[idx] = (ck, cop)
        if t.get("dest") is None or t.get("t") is None:
            return False
        tmpl["build"](self, i, t, cls)
        self.inlined.append("<%s::%s>" % (kind, name))
        for ck, _cop in cls.values():
            if ck != "<fn>":
                self.absorbed.add(ck)
        return True


# ---------------------------------------------------------------------------------------------------------------------
# templates.  Each builder rewrites block i (whose terminator is the combinator call `t`).

def _variant_field(base_pl, variant, vi, adt, ty="?"):
    pl = copy.deepcopy(base_pl)
    pl["p"] = pl["p"] + [{"k": "down", "v": variant, "i": vi}, {"k": "field", "i": 0, "adt": adt, "n": "0", "ty": ty}]
    return pl


def _agg(adt, variant, vi, ops):
    return {"k": "agg", "ak": "adt", "adt": adt, "variant": variant, "vi": vi, "fields": ["0"] * len(ops), "ops": ops}


OPT = "std::option::Option"
RES = "std::result::Result"


def _const_bool(v):
    return {"k": "const", "ty": "bool", "v": 1 if v else 0, "sz": 1}


def _two_way(inl, i, t, adt, on_first, on_second):
    """self = args[0] is an Option (None=0, Some=1) or Result (Ok=0, Err=1): switch on its discriminant and let the two
    builders fill the arms.  Builders get (block index, payload place) and must terminate the block."""
    line = t.get("line", 0)
    d, ch = inl.depth[i], inl.chain[i]
    b = inl.blocks[i]
    a0 = t["args"][0]
    if a0["k"] == "const":
        return False
    s = inl._new_local(t["atys"][0] if t.get("atys") else adt)
    b["stmts"].append(_assign(s, {"k": "use", "op": copy.deepcopy(a0)}, line))
    dl = inl._new_local("isize")
    b["stmts"].append(_assign(dl, {"k": "discr", "pl": {"l": s, "p": []}}, line))
    b1 = inl._new_block(d, ch, b["cleanup"], line)
    b2 = inl._new_block(d, ch, b["cleanup"], line)
    b["term"] = {"k": "switch", "op": _mv(dl), "dty": "isize", "vals": [0], "tgts": [b1], "otherwise": b2, "line": line, "exp": False}
    names = ("None", "Some") if adt == OPT else ("Ok", "Err")
    on_first(b1, _variant_field({"l": s, "p": []}, names[0], 0, adt))
    on_second(b2, _variant_field({"l": s, "p": []}, names[1], 1, adt))
    return True


def _finish(inl, blk, t, rv):
    line = t.get("line", 0)
    inl.blocks[blk]["stmts"].append(_assign(copy.deepcopy(t["dest"]), rv, line))
    inl.blocks[blk]["term"] = {"k": "goto", "t": t["t"], "line": line, "exp": False}


def _closure_then(inl, blk, t, cl, vals, wrap):
    """blk: r = closure(vals); then dest = wrap(r) (wrap None: dest = r)."""
    line = t.get("line", 0)
    ck, cop = cl
    rl = inl._new_local(inl._ret_ty(ck))
    nxt = inl._new_block(inl.depth[blk], inl.chain[blk], inl.blocks[blk]["cleanup"], line)
    inl._call_closure(blk, ck, cop, vals, rl, nxt, t.get("unwind"), line)
    _finish(inl, nxt, t, wrap(_mv(rl)) if wrap else {"k": "use", "op": _mv(rl)})


def _use(op):
    return {"k": "use", "op": op}


def _mvp(pl):
    return {"k": "move", "pl": pl}


def _opt_build(some, none):
    def build(inl, i, t, cls):
        _two_way(inl, i, t, OPT, lambda b, pl: none(inl, b, t, cls, pl), lambda b, pl: some(inl, b, t, cls, pl))
    return build


def _res_build(ok, err):
    def build(inl, i, t, cls):
        _two_way(inl, i, t, RES, lambda b, pl: ok(inl, b, t, cls, pl), lambda b, pl: err(inl, b, t, cls, pl))
    return build


def _ref_of(inl, blk, pl, line):
    r = inl._new_local("&?")
    inl.blocks[blk]["stmts"].append(_assign(r, {"k": "ref", "bk": "shared", "pl": pl}, line))
    return _mv(r)


TEMPLATES = {}


def _reg(kind, name, closures, build):
    TEMPLATES[(kind, name)] = {"closures": closures, "build": build}


# ---- Option
_reg("opt", "map", [1], _opt_build(
    lambda inl, b, t, cls, pl: _closure_then(inl, b, t, cls[1], [_mvp(pl)], lambda r: _agg(OPT, "Some", 1, [r])),
    lambda inl, b, t, cls, pl: _finish(inl, b, t, _agg(OPT, "None", 0, []))))
_reg("opt", "and_then", [1], _opt_build(
    lambda inl, b, t, cls, pl: _closure_then(inl, b, t, cls[1], [_mvp(pl)], None),
    lambda inl, b, t, cls, pl: _finish(inl, b, t, _agg(OPT, "None", 0, []))))
_reg("opt", "map_or", [2], _opt_build(
    lambda inl, b, t, cls, pl: _closure_then(inl, b, t, cls[2], [_mvp(pl)], None),
    lambda inl, b, t, cls, pl: _finish(inl, b, t, _use(copy.deepcopy(t["args"][1])))))
_reg("opt", "map_or_else", [1, 2], _opt_build(
    lambda inl, b, t, cls, pl: _closure_then(inl, b, t, cls[2], [_mvp(pl)], None),
    lambda inl, b, t, cls, pl: _closure_then(inl, b, t, cls[1], [], None)))
_reg("opt", "is_some_and", [1], _opt_build(
    lambda inl, b, t, cls, pl: _closure_then(inl, b, t, cls[1], [_mvp(pl)], None),
    lambda inl, b, t, cls, pl: _finish(inl, b, t, _use(_const_bool(False)))))
_reg("opt", "is_none_or", [1], _opt_build(
    lambda inl, b, t, cls, pl: _closure_then(inl, b, t, cls[1], [_mvp(pl)], None),
    lambda inl, b, t, cls, pl: _finish(inl, b, t, _use(_const_bool(True)))))
_reg("opt", "ok_or_else", [1], _opt_build(
    lambda inl, b, t, cls, pl: _finish(inl, b, t, _agg(RES, "Ok", 0, [_mvp(pl)])),
    lambda inl, b, t, cls, pl: _closure_then(inl, b, t, cls[1], [], lambda r: _agg(RES, "Err", 1, [r]))))
_reg("opt", "unwrap_or_else", [1], _opt_build(
    lambda inl, b, t, cls, pl: _finish(inl, b, t, _use(_mvp(pl))),
    lambda inl, b, t, cls, pl: _closure_then(inl, b, t, cls[1], [], None)))
_reg("opt", "or_else", [1], _opt_build(
    lambda inl, b, t, cls, pl: _finish(inl, b, t, _agg(OPT, "Some", 1, [_mvp(pl)])),
    lambda inl, b, t, cls, pl: _closure_then(inl, b, t, cls[1], [], None)))


def _opt_filter_some(inl, b, t, cls, pl):
    line = t.get("line", 0)
    ck, cop = cls[1]
    rl = inl._new_local("bool")
    nxt = inl._new_block(inl.depth[b], inl.chain[b], inl.blocks[b]["cleanup"], line)
    ref = _ref_of(inl, b, copy.deepcopy(pl), line)
    inl._call_closure(b, ck, cop, [ref], rl, nxt, t.get("unwind"), line)
    yes = inl._new_block(inl.depth[b], inl.chain[b], inl.blocks[b]["cleanup"], line)
    no = inl._new_block(inl.depth[b], inl.chain[b], inl.blocks[b]["cleanup"], line)
    inl.blocks[nxt]["term"] = {"k": "switch", "op": _mv(rl), "dty": "bool", "vals": [0], "tgts": [no], "otherwise": yes, "line": line, "exp": False}
    _finish(inl, yes, t, _agg(OPT, "Some", 1, [_mvp(pl)]))
    _finish(inl, no, t, _agg(OPT, "None", 0, []))


def _build_opt_zip(inl, i, t, cls):
    """a.zip(b): Some((x, y)) when both are Some, else None."""
    line = t.get("line", 0)
    d, ch = inl.depth[i], inl.chain[i]
    b = inl.blocks[i]
    cleanup = b["cleanup"]
    if t["args"][0]["k"] == "const" or t["args"][1]["k"] == "const":
        return False
    la = inl._new_local(t["atys"][0] if t.get("atys") else OPT)
    lb = inl._new_local(t["atys"][1] if t.get("atys") and len(t["atys"]) > 1 else OPT)
    b["stmts"].append(_assign(la, _use(copy.deepcopy(t["args"][0])), line))
    b["stmts"].append(_assign(lb, _use(copy.deepcopy(t["args"][1])), line))
    da = inl._new_local("isize")
    b["stmts"].append(_assign(da, {"k": "discr", "pl": {"l": la, "p": []}}, line))
    none = inl._new_block(d, ch, cleanup, line)
    some_a = inl._new_block(d, ch, cleanup, line)
    b["term"] = {"k": "switch", "op": _mv(da), "dty": "isize", "vals": [0], "tgts": [none], "otherwise": some_a, "line": line, "exp": False}
    db = inl._new_local("isize")
    inl.blocks[some_a]["stmts"].append(_assign(db, {"k": "discr", "pl": {"l": lb, "p": []}}, line))
    both = inl._new_block(d, ch, cleanup, line)
    inl.blocks[some_a]["term"] = {"k": "switch", "op": _mv(db), "dty": "isize", "vals": [0], "tgts": [none], "otherwise": both, "line": line, "exp": False}
    _finish(inl, none, t, _agg(OPT, "None", 0, []))
    tup = inl._new_local("(?, ?)")
    inl.blocks[both]["stmts"].append(_assign(tup, {"k": "agg", "ak": "tuple", "ops": [_mvp(_variant_field({"l": la, "p": []}, "Some", 1, OPT)),
                                                                                 _mvp(_variant_field({"l": lb, "p": []}, "Some", 1, OPT))]}, line))
    _finish(inl, both, t, _agg(OPT, "Some", 1, [_mv(tup)]))


_reg("opt", "zip", [], _build_opt_zip)
_reg("opt", "filter", [1], _opt_build(_opt_filter_some, lambda inl, b, t, cls, pl: _finish(inl, b, t, _agg(OPT, "None", 0, []))))

# ---- Result
_reg("res", "map", [1], _res_build(
    lambda inl, b, t, cls, pl: _closure_then(inl, b, t, cls[1], [_mvp(pl)], lambda r: _agg(RES, "Ok", 0, [r])),
    lambda inl, b, t, cls, pl: _finish(inl, b, t, _agg(RES, "Err", 1, [_mvp(pl)]))))
_reg("res", "map_err", [1], _res_build(
    lambda inl, b, t, cls, pl: _finish(inl, b, t, _agg(RES, "Ok", 0, [_mvp(pl)])),
    lambda inl, b, t, cls, pl: _closure_then(inl, b, t, cls[1], [_mvp(pl)], lambda r: _agg(RES, "Err", 1, [r]))))
_reg("res", "and_then", [1], _res_build(
    lambda inl, b, t, cls, pl: _closure_then(inl, b, t, cls[1], [_mvp(pl)], None),
    lambda inl, b, t, cls, pl: _finish(inl, b, t, _agg(RES, "Err", 1, [_mvp(pl)]))))
_reg("res", "or_else", [1], _res_build(
    lambda inl, b, t, cls, pl: _finish(inl, b, t, _agg(RES, "Ok", 0, [_mvp(pl)])),
    lambda inl, b, t, cls, pl: _closure_then(inl, b, t, cls[1], [_mvp(pl)], None)))
_reg("res", "unwrap_or_else", [1], _res_build(
    lambda inl, b, t, cls, pl: _finish(inl, b, t, _use(_mvp(pl))),
    lambda inl, b, t, cls, pl: _closure_then(inl, b, t, cls[1], [_mvp(pl)], None)))
_reg("res", "is_ok_and", [1], _res_build(
    lambda inl, b, t, cls, pl: _closure_then(inl, b, t, cls[1], [_mvp(pl)], None),
    lambda inl, b, t, cls, pl: _finish(inl, b, t, _use(_const_bool(False)))))
_reg("res", "is_err_and", [1], _res_build(
    lambda inl, b, t, cls, pl: _finish(inl, b, t, _use(_const_bool(False))),
    lambda inl, b, t, cls, pl: _closure_then(inl, b, t, cls[1], [_mvp(pl)], None)))
_reg("res", "map_or", [2], _res_build(
    lambda inl, b, t, cls, pl: _closure_then(inl, b, t, cls[2], [_mvp(pl)], None),
    lambda inl, b, t, cls, pl: _finish(inl, b, t, _use(copy.deepcopy(t["args"][1])))))


# ---- bool::then
def _build_bool_then(inl, i, t, cls):
    line = t.get("line", 0)
    b = inl.blocks[i]
    a0 = t["args"][0]
    cnd = inl._new_local("bool")
    b["stmts"].append(_assign(cnd, _use(copy.deepcopy(a0)), line))
    yes = inl._new_block(inl.depth[i], inl.chain[i], b["cleanup"], line)
    no = inl._new_block(inl.depth[i], inl.chain[i], b["cleanup"], line)
    b["term"] = {"k": "switch", "op": _mv(cnd), "dty": "bool", "vals": [0], "tgts": [no], "otherwise": yes, "line": line, "exp": False}
    _closure_then(inl, yes, t, cls[1], [], lambda r: _agg(OPT, "Some", 1, [r]))
    _finish(inl, no, t, _agg(OPT, "None", 0, []))


_reg("bool", "then", [1], _build_bool_then)


def _build_bool_then_some(inl, i, t, cls):
    line = t.get("line", 0)
    b = inl.blocks[i]
    cnd = inl._new_local("bool")
    b["stmts"].append(_assign(cnd, _use(copy.deepcopy(t["args"][0])), line))
    yes = inl._new_block(inl.depth[i], inl.chain[i], b["cleanup"], line)
    no = inl._new_block(inl.depth[i], inl.chain[i], b["cleanup"], line)
    b["term"] = {"k": "switch", "op": _mv(cnd), "dty": "bool", "vals": [0], "tgts": [no], "otherwise": yes, "line": line, "exp": False}
    _finish(inl, yes, t, _agg(OPT, "Some", 1, [copy.deepcopy(t["args"][1])]))
    _finish(inl, no, t, _agg(OPT, "None", 0, []))


_reg("bool", "then_some", [], _build_bool_then_some)
_reg("opt", "ok_or", [], _opt_build(
    lambda inl, b, t, cls, pl: _finish(inl, b, t, _agg(RES, "Ok", 0, [_mvp(pl)])),
    lambda inl, b, t, cls, pl: _finish(inl, b, t, _agg(RES, "Err", 1, [copy.deepcopy(t["args"][1])]))))


# ---- Iterator consumers: a `next` loop around the closure.
NEXT_FN = {"key": "core::iter::traits::iterator::Iterator::next", "path": "std::iter::Iterator::next", "name": "next",
           "dk": "AssocFn", "trait": "std::iter::Iterator", "trait_decl": True, "local": False, "of_trait": "std::iter::Iterator",
           "synthetic": True}


def _iter_loop(inl, i, t, cl, by_ref, on_item, on_end, self_is_ref=True):
    """head: nx = next(it); None -> on_end(blk); Some(v) -> r = closure(v or &v); on_item(blk, r local, item place, head)."""
    line = t.get("line", 0)
    d, ch = inl.depth[i], inl.chain[i]
    b = inl.blocks[i]
    cleanup = b["cleanup"]
    a0 = t["args"][0]
    if a0["k"] == "const":
        return False
    if self_is_ref:
        it = inl._new_local(t["atys"][0] if t.get("atys") else "&mut ?")
        b["stmts"].append(_assign(it, _use(copy.deepcopy(a0)), line))
        itref = it
    else:
        itv = inl._new_local(t["atys"][0] if t.get("atys") else "?")
        b["stmts"].append(_assign(itv, _use(copy.deepcopy(a0)), line))
        itref = inl._new_local("&mut ?")
        b["stmts"].append(_assign(itref, {"k": "ref", "bk": "mut", "pl": {"l": itv, "p": []}}, line))
    head = inl._new_block(d, ch, cleanup, line)
    b["term"] = {"k": "goto", "t": head, "line": line, "exp": False}
    nx = inl._new_local("std::option::Option<?>")
    sw = inl._new_block(d, ch, cleanup, line)
    inl.blocks[head]["term"] = {"k": "call", "f": {"k": "const", "ty": "fn next", "fn": dict(NEXT_FN)}, "args": [_cp(itref)],
                                "atys": ["&mut ?"], "dest": {"l": nx, "p": []}, "dty": "std::option::Option<?>", "t": sw,
                                "unwind": t.get("unwind", "continue"), "line": line, "exp": False}
    dl = inl._new_local("isize")
    inl.blocks[sw]["stmts"].append(_assign(dl, {"k": "discr", "pl": {"l": nx, "p": []}}, line))
    end = inl._new_block(d, ch, cleanup, line)
    body = inl._new_block(d, ch, cleanup, line)
    inl.blocks[sw]["term"] = {"k": "switch", "op": _mv(dl), "dty": "isize", "vals": [0], "tgts": [end], "otherwise": body, "line": line, "exp": False}
    on_end(end)
    item = _variant_field({"l": nx, "p": []}, "Some", 1, OPT)
    ck, cop = cl
    rl = inl._new_local(inl._ret_ty(ck))
    after = inl._new_block(d, ch, cleanup, line)
    val = _ref_of(inl, body, copy.deepcopy(item), line) if by_ref else _mvp(copy.deepcopy(item))
    inl._call_closure(body, ck, cop, [val], rl, after, t.get("unwind"), line)
    on_item(after, rl, item, head)
    return True


def _bool_branch(inl, blk, rl, t, on_true, on_false):
    line = t.get("line", 0)
    yes = inl._new_block(inl.depth[blk], inl.chain[blk], inl.blocks[blk]["cleanup"], line)
    no = inl._new_block(inl.depth[blk], inl.chain[blk], inl.blocks[blk]["cleanup"], line)
    inl.blocks[blk]["term"] = {"k": "switch", "op": _mv(rl), "dty": "bool", "vals": [0], "tgts": [no], "otherwise": yes, "line": line, "exp": False}
    on_true(yes)
    on_false(no)


def _goto(inl, blk, tgt, line=0):
    inl.blocks[blk]["term"] = {"k": "goto", "t": tgt, "line": line, "exp": False}


def _array_source(inl, op):
    """If the iterator operand `op` (a `&mut it` or `it`) is `into_iter(arr)` / `iter(arr)` of an array literal with at most
    8 elements built in this body, return (element operands, items_by_reference)."""
    if op["k"] not in ("copy", "move") or op["pl"]["p"]:
        return None
    l = op["pl"]["l"]
    by_ref = False
    for _ in range(8):
        d = inl._single_def(l)
        if d is None:
            return None
        if d[0] == "assign":
            rv = d[1]
            if rv["k"] == "use" and rv["op"]["k"] in ("copy", "move") and not rv["op"]["pl"]["p"]:
                l = rv["op"]["pl"]["l"]
                continue
            if rv["k"] == "ref" and not rv["pl"]["p"]:
                l = rv["pl"]["l"]
                continue
            if rv["k"] == "cast" and rv["op"]["k"] in ("copy", "move") and not rv["op"]["pl"]["p"]:
                l = rv["op"]["pl"]["l"]       # &[T; N] -> &[T]
                continue
            if rv["k"] == "agg" and rv.get("ak") == "array" and 1 <= len(rv["ops"]) <= 8:
                return [copy.deepcopy(o) for o in rv["ops"]], by_ref
            return None
        _k, bi, t = d
        c = callee_of(t)
        if c is None or not t["args"]:
            return None
        a0 = t["args"][0]
        if c.get("name") in ("into_iter", "iter") and a0["k"] in ("copy", "move") and not a0["pl"]["p"]:
            if c.get("name") == "iter" or (t.get("atys") or [""])[0].startswith("&"):
                by_ref = True
            l = a0["pl"]["l"]
            continue
        return None
    return None


def _unrolled(inl, i, t, cl, elems, by_ref, stop_on, result_on_stop, result_at_end):
    """any/all over a literal array: the closure is called on each element in turn (no loop)."""
    line = t.get("line", 0)
    d, ch = inl.depth[i], inl.chain[i]
    cleanup = inl.blocks[i]["cleanup"]
    ck, cop = cl
    cur = i
    for e in elems:
        rl = inl._new_local("bool")
        after = inl._new_block(d, ch, cleanup, line)
        if by_ref:
            tmp = inl._new_local("?")
            inl.blocks[cur]["stmts"].append(_assign(tmp, _use(e), line))
            val = _ref_of(inl, cur, {"l": tmp, "p": []}, line)
        else:
            val = e
        inl._call_closure(cur, ck, cop, [val], rl, after, t.get("unwind"), line)
        nxt = inl._new_block(d, ch, cleanup, line)
        stop = inl._new_block(d, ch, cleanup, line)
        yes, no = (stop, nxt) if stop_on else (nxt, stop)
        inl.blocks[after]["term"] = {"k": "switch", "op": _mv(rl), "dty": "bool", "vals": [0], "tgts": [no], "otherwise": yes, "line": line, "exp": False}
        _finish(inl, stop, t, _use(_const_bool(result_on_stop)))
        cur = nxt
    _finish(inl, cur, t, _use(_const_bool(result_at_end)))
    return True


def _build_any(inl, i, t, cls):
    src = _array_source(inl, t["args"][0])
    if src:
        return _unrolled(inl, i, t, cls[1], src[0], src[1], True, True, False)
    _iter_loop(inl, i, t, cls[1], False,
               lambda blk, rl, item, head: _bool_branch(inl, blk, rl, t, lambda y: _finish(inl, y, t, _use(_const_bool(True))),
                                                        lambda n: _goto(inl, n, head, t.get("line", 0))),
               lambda end: _finish(inl, end, t, _use(_const_bool(False))))


def _build_all(inl, i, t, cls):
    src = _array_source(inl, t["args"][0])
    if src:
        return _unrolled(inl, i, t, cls[1], src[0], src[1], False, False, True)
    _iter_loop(inl, i, t, cls[1], False,
               lambda blk, rl, item, head: _bool_branch(inl, blk, rl, t, lambda y: _goto(inl, y, head, t.get("line", 0)),
                                                        lambda n: _finish(inl, n, t, _use(_const_bool(False)))),
               lambda end: _finish(inl, end, t, _use(_const_bool(True))))


def _build_find(inl, i, t, cls):
    _iter_loop(inl, i, t, cls[1], True,
               lambda blk, rl, item, head: _bool_branch(inl, blk, rl, t, lambda y: _finish(inl, y, t, _agg(OPT, "Some", 1, [_mvp(copy.deepcopy(item))])),
                                                        lambda n: _goto(inl, n, head, t.get("line", 0))),
               lambda end: _finish(inl, end, t, _agg(OPT, "None", 0, [])))


def _build_find_map(inl, i, t, cls):
    def on_item(blk, rl, item, head):
        line = t.get("line", 0)
        dl = inl._new_local("isize")
        inl.blocks[blk]["stmts"].append(_assign(dl, {"k": "discr", "pl": {"l": rl, "p": []}}, line))
        none = inl._new_block(inl.depth[blk], inl.chain[blk], inl.blocks[blk]["cleanup"], line)
        some = inl._new_block(inl.depth[blk], inl.chain[blk], inl.blocks[blk]["cleanup"], line)
        inl.blocks[blk]["term"] = {"k": "switch", "op": _mv(dl), "dty": "isize", "vals": [0], "tgts": [none], "otherwise": some, "line": line, "exp": False}
        _goto(inl, none, head, line)
        _finish(inl, some, t, _agg(OPT, "Some", 1, [_mvp(_variant_field({"l": rl, "p": []}, "Some", 1, OPT))]))
    _iter_loop(inl, i, t, cls[1], False, on_item, lambda end: _finish(inl, end, t, _agg(OPT, "None", 0, [])))


def _build_for_each(inl, i, t, cls):
    _iter_loop(inl, i, t, cls[1], False,
               lambda blk, rl, item, head: _goto(inl, blk, head, t.get("line", 0)),
               lambda end: _finish(inl, end, t, {"k": "agg", "ak": "tuple", "ops": []}), self_is_ref=False)


def _build_try_for_each(inl, i, t, cls):
    dty = t.get("dty") or ""
    if not dty.startswith("std::result::Result"):
        return False

    def on_item(blk, rl, item, head):
        line = t.get("line", 0)
        dl = inl._new_local("isize")
        inl.blocks[blk]["stmts"].append(_assign(dl, {"k": "discr", "pl": {"l": rl, "p": []}}, line))
        ok = inl._new_block(inl.depth[blk], inl.chain[blk], inl.blocks[blk]["cleanup"], line)
        er = inl._new_block(inl.depth[blk], inl.chain[blk], inl.blocks[blk]["cleanup"], line)
        inl.blocks[blk]["term"] = {"k": "switch", "op": _mv(dl), "dty": "isize", "vals": [0], "tgts": [ok], "otherwise": er, "line": line, "exp": False}
        _goto(inl, ok, head, line)
        _finish(inl, er, t, _agg(RES, "Err", 1, [_mvp(_variant_field({"l": rl, "p": []}, "Err", 1, RES))]))
    _iter_loop(inl, i, t, cls[1], False, on_item,
               lambda end: _finish(inl, end, t, _agg(RES, "Ok", 0, [{"k": "const", "ty": "()", "zst": True}])))


_reg("iter", "any", [1], _build_any)
_reg("iter", "all", [1], _build_all)
_reg("iter", "find", [1], _build_find)
_reg("iter", "find_map", [1], _build_find_map)
_reg("iter", "for_each", [1], _build_for_each)
_reg("iter", "try_for_each", [1], _build_try_for_each)


# ---------------------------------------------------------------------------------------------------------------------
_ANCHORS = None


def anchor_names(fb):
    """Names of crate functions that some rule or spec table refers to by name: never inlined away."""
    global _ANCHORS
    if _ANCHORS is None:
        import glob
        import os
        here = os.path.dirname(os.path.dirname(os.path.abspath(__file__)))
        lits = set()
        for p in glob.glob(os.path.join(here, "rules", "*.py")) + glob.glob(os.path.join(here, "spec", "*.py")):
            with open(p) as fh:
                for m in re.finditer(r"[\"']([A-Za-z_][A-Za-z0-9_]*)[\"']", fh.read()):
                    lits.add(m.group(1))
        _ANCHORS = lits
    return _ANCHORS


_BASELINE = None

REQUEST_ENUMS = ("FrontendReq", "BackendReq", "GpuBackendReq")


def fn_ident(f):
    """Identity of a function that survives moving it between modules / impl blocks: 'SelfType::name' or 'name'."""
    if f.self_adt:
        return "%s::%s%s" % (f.self_adt.split("::")[-1], f.name, ("@" + f.trait.split("::")[-1]) if f.trait else "")
    return f.name or f.key


def baseline():
    global _BASELINE
    if _BASELINE is None:
        import json
        import os
        here = os.path.dirname(os.path.dirname(os.path.abspath(__file__)))
        try:
            with open(os.path.join(here, "spec", "baseline_fns.json")) as fh:
                _BASELINE = set(json.load(fh)["fns"])
        except OSError:
            _BASELINE = set()
    return _BASELINE


def default_policy(fb, extra_keep=(), max_blocks=80, inline_known=()):
    """Inline a callee iff it is a workspace function that the reference tree does not have (a helper introduced by a
    later change), is not a trait method, carries no protocol-level type in its signature and is small; plus the
    reference-tree helpers explicitly named in `inline_known`."""
    keep = set(extra_keep)
    known = baseline()
    known_traits = {k.split("@", 1)[1] for k in known if "@" in k}
    force = set(inline_known)
    crates = {"vhost", "vhost_user_backend"}

    def policy(callee, depth):
        if callee.crate not in crates:
            return False
        if callee.name in force or fn_ident(callee) in force:
            return True
        if callee.name in keep:
            return False
        if fn_ident(callee) in known:
            return False
        if callee.trait is not None:
            # methods of a trait the reference tree does not have (a private helper trait introduced by a later change) are
            # helpers like any other; methods of the reference tree's traits and of std traits stay calls
            tname = callee.trait.split("::")[-1].split("<")[0]
            if not callee.trait.startswith(("vhost::", "vhost_user_backend::")) or tname in known_traits:
                return False
        # (a renamed request sender of the reference tree gets its name back in canon.py and is kept as a call by the test
        # above; a NEW helper that takes a request code is a helper like any other)
        if len(callee.blocks) > max_blocks:
            return False
        return True
    return policy


def inlined(fb, fn, extra_keep=(), inline_known=(), max_depth=4, combinators=True, max_blocks=80):
    """Cached inlined view of fn under the default policy."""
    ck = ("inl", fn.key, tuple(sorted(extra_keep)), tuple(sorted(inline_known)), max_depth, combinators, max_blocks)
    if not extra_keep and not inline_known and getattr(fb, "orig_fns", None) is not None and fb.fns.get(fn.key) is fn:
        return fn  # the fact base already holds inlined views
    cache = fb.__dict__.setdefault("_inl_cache", {})
    if ck not in cache:
        pol = default_policy(fb, extra_keep, max_blocks, inline_known)
        src = getattr(fb, "orig_fns", None) or fb.fns
        cache[ck] = Inliner(fb, pol, max_depth=max_depth, combinators=combinators, src=src).run(src.get(fn.key, fn))
    return cache[ck]
