"""Feature-gate recognition: which (state field, bit) tests hold at a program point."""
from .absint import const_eval
from .cfg import CFG
from .facts import callee_of, resolved
from .must import Must
from .terms import Sym, peel, show


def field_of(t):
    """If t denotes a field of some object (through refs/derefs), return (base, field_name)."""
    while t[0] in ("ref", "deref"):
        t = t[1]
    if t[0] == "field":
        return t[1], t[2]
    return None, None


def root_of(t):
    """Strip refs, derefs, fields, identity calls down to the root term."""
    while True:
        if t[0] in ("ref", "deref"):
            t = t[1]
        elif t[0] == "field":
            t = t[1]
        elif t[0] == "call" and t[1] in ("deref", "deref_mut", "borrow", "as_ref") and len(t[2]) == 1:
            t = t[2][0]
        else:
            return t


def match_bit_test(fb, sym, a, b):
    """Recognise `X.field & C` (either operand order) -> (field, base, C value, C term)."""
    for x, y in ((a, b), (b, a)):
        base, fname = field_of(x)
        if fname is None:
            continue
        yv = const_eval(fb, sym, y)
        return fname, base, yv, y
    return None


def atom_gate(fb, sym, atom):
    """If atom is `(X.field & C) != 0` return ('field', C value, C term, base)."""
    if atom[0] != "cmp":
        return None
    op, l, r = atom[1], atom[2], atom[3]
    if op not in ("Ne", "Gt"):
        # `== 0` with negation is normalised by Must to Ne; `> 0` also acceptable
        return None
    for x, y in ((l, r), (r, l)):
        if y[0] == "const" and y[1] == 0 and x[0] == "bin" and x[1] == "BitAnd":
            m = match_bit_test(fb, sym, x[2], x[3])
            if m:
                return m
    return None


_helper_cache = {}


def gate_helper_summary(fb, fn):
    """Summarise a helper `fn(&State, flags) -> Result<()>` as: Ok  <=>  state.F & arg_i.bits() != 0.
    Returns (field_name, arg_index (1-based local of the flag param)) or None."""
    if id(fn) in _helper_cache:
        return _helper_cache[id(fn)]
    res = None
    try:
        m = Must(fn, fb)
        cfg = m.cfg
        # blocks that assign _0 = Ok(..)
        ok_blocks, err_blocks = [], []
        # the return place and the locals that are only moved into it (`_0 = move _r` at a merge point)
        rets = {0}
        for _ in range(3):
            for b in fn.blocks:
                for st in b["stmts"]:
                    if st["k"] == "assign" and st["lhs"]["l"] in rets and not st["lhs"]["p"] and st["rv"]["k"] == "use" and \
                            st["rv"]["op"]["k"] in ("copy", "move") and not st["rv"]["op"]["pl"]["p"]:
                        rets.add(st["rv"]["op"]["pl"]["l"])
        for bi, b in enumerate(fn.blocks):
            if b["cleanup"]:
                continue
            for st in b["stmts"]:
                if st["k"] == "assign" and st["lhs"]["l"] in rets and not st["lhs"]["p"]:
                    rv = st["rv"]
                    if rv["k"] == "agg" and rv.get("adt", "").endswith("result::Result"):
                        (ok_blocks if rv["variant"] == "Ok" else err_blocks).append(bi)
        if len(ok_blocks) >= 1 and err_blocks:
            cands = None
            for ob in ok_blocks:
                gs = set()
                for a in m.atoms_at(ob):
                    if a[0] == "cmp" and a[1] in ("Ne",):
                        for x, y in ((a[2], a[3]), (a[3], a[2])):
                            if y[0] == "const" and y[1] == 0 and x[0] == "bin" and x[1] == "BitAnd":
                                for p, q in ((x[2], x[3]), (x[3], x[2])):
                                    base, fname = field_of(p)
                                    if fname is None:
                                        continue
                                    qr, _ = peel(q, through_calls={"bits", "into", "from", "clone"})
                                    if qr[0] == "param" and root_of(base)[0] == "param":
                                        gs.add((fname, qr[1]))
                cands = gs if cands is None else (cands & gs)
            # the Err blocks must be on the complementary edge: Ok reachable only under the test
            if cands and len(cands) == 1:
                res = next(iter(cands))
    except Exception:
        res = None
    _helper_cache[id(fn)] = res
    return res


def gates_at(fb, must, bb):
    """All (field, bit value, const term) gate tests that are must-facts at block bb."""
    out = []
    sym = must.sym
    for a in must.atoms_at(bb):
        g = atom_gate(fb, sym, a)
        if g:
            out.append((g[0], g[2], g[3], "direct"))
            continue
        if a[0] == "ok" and a[1][0] == "call":
            call = a[1]
            info = sym.info(call)
            r = resolved(info) if not info.get("indirect") else None
            if r and r["key"] in fb.fns:
                s = gate_helper_summary(fb, fb.fns[r["key"]])
                if s:
                    fname, pidx = s
                    if pidx - 1 < len(call[2]):
                        arg = call[2][pidx - 1]
                        v = const_eval(fb, sym, arg)
                        out.append((fname, v, arg, "helper:" + (r.get("name") or "")))
    return out
