"""Control-flow graph utilities over factgen MIR bodies (normal edges; unwind edges separate)."""


def succs_of_term(t, include_unwind=False):
    k = t["k"]
    out = []
    if k == "goto":
        out = [t["t"]]
    elif k == "switch":
        seen = []
        for x in list(t["tgts"]) + [t["otherwise"]]:
            if x not in seen:
                seen.append(x)
        out = seen
    elif k in ("call", "drop", "assert"):
        if t.get("t") is not None:
            out = [t["t"]]
        if include_unwind and isinstance(t.get("unwind"), int):
            out = out + [t["unwind"]]
    elif k in ("ret", "unreachable", "resume", "terminate", "tailcall", "other"):
        out = []
    return out


class CFG:
    def __init__(self, fn_or_body):
        body = getattr(fn_or_body, "body", fn_or_body)
        self.blocks = body["blocks"]
        n = len(self.blocks)
        self.n = n
        self.succ = [succs_of_term(b["term"]) for b in self.blocks]
        self.pred = [[] for _ in range(n)]
        for i, ss in enumerate(self.succ):
            for s in ss:
                self.pred[s].append(i)
        self.returns = [i for i, b in enumerate(self.blocks)
                        if b["term"]["k"] == "ret" and not b["cleanup"]]
        self._reach_from_entry = self.reach(0)
        self._dom = None
        self._pdom = None

    # ---------------------------------------------------------- reachability
    def reach(self, start, removed=None, succ=None):
        """Blocks reachable from `start` (inclusive) not passing through `removed`."""
        succ = succ or self.succ
        removed = removed if removed is not None else ()
        if isinstance(start, int):
            start = [start]
        seen = set()
        work = [s for s in start if s not in removed]
        while work:
            b = work.pop()
            if b in seen:
                continue
            seen.add(b)
            for s in succ[b]:
                if s not in seen and s not in removed:
                    work.append(s)
        return seen

    def can_reach(self, a, b, removed=None):
        return b in self.reach(a, removed)

    def live_blocks(self):
        return self._reach_from_entry

    # ---------------------------------------------------------- dominators
    def dominators(self):
        """dom[b] = set of blocks dominating b (for blocks reachable from entry)."""
        if self._dom is not None:
            return self._dom
        live = sorted(self._reach_from_entry)
        full = set(live)
        dom = {b: set(full) for b in live}
        dom[0] = {0}
        changed = True
        order = self._rpo()
        while changed:
            changed = False
            for b in order:
                if b == 0:
                    continue
                ps = [p for p in self.pred[b] if p in dom]
                if not ps:
                    continue
                new = set.intersection(*[dom[p] for p in ps])
                new = new | {b}
                if new != dom[b]:
                    dom[b] = new
                    changed = True
        self._dom = dom
        return dom

    def _rpo(self):
        seen = set()
        order = []
        stack = [(0, iter(self.succ[0]))]
        seen.add(0)
        while stack:
            b, it = stack[-1]
            adv = False
            for s in it:
                if s not in seen:
                    seen.add(s)
                    stack.append((s, iter(self.succ[s])))
                    adv = True
                    break
            if not adv:
                order.append(b)
                stack.pop()
        order.reverse()
        return order

    def dominates(self, a, b):
        d = self.dominators()
        return b in d and a in d[b]

    def postdominators(self, exits=None):
        """pdom[b] = blocks post-dominating b w.r.t. the given exit blocks (default: returns).
        Blocks that cannot reach an exit are absent."""
        key = tuple(sorted(exits)) if exits is not None else None
        if self._pdom is not None and self._pdom[0] == key:
            return self._pdom[1]
        exits = list(exits) if exits is not None else list(self.returns)
        # nodes that can reach an exit
        can = self.reach(exits, succ=self.pred)
        can &= self._reach_from_entry
        EXIT = -1
        pd = {b: set(can) | {EXIT} for b in can}
        pd[EXIT] = {EXIT}
        changed = True
        while changed:
            changed = False
            for b in can:
                ss = [s for s in self.succ[b] if s in can]
                sets = [pd[s] for s in ss]
                if b in exits:
                    sets.append(pd[EXIT])
                if not sets:
                    continue
                new = set.intersection(*sets) | {b}
                if new != pd[b]:
                    pd[b] = new
                    changed = True
        self._pdom = (key, pd)
        return pd

    def postdominates(self, a, b, exits=None):
        pd = self.postdominators(exits)
        return b in pd and a in pd[b]

    # ---------------------------------------------------------- loops
    def back_edges(self):
        dom = self.dominators()
        out = []
        for b in dom:
            for s in self.succ[b]:
                if s in dom[b]:
                    out.append((b, s))
        return out

    def in_loop(self, b):
        """True if b lies on a cycle of the normal CFG."""
        for s in self.succ[b]:
            if b in self.reach(s):
                return True
        return False

    def loop_blocks(self):
        out = set()
        for (t, h) in self.back_edges():
            # natural loop of back edge t->h
            body = {h, t}
            work = [t]
            while work:
                x = work.pop()
                if x == h:
                    continue
                for p in self.pred[x]:
                    if p not in body:
                        body.add(p)
                        work.append(p)
            out |= body
        return out

    # ---------------------------------------------------------- ordering helpers
    def all_paths_pass_through(self, src, dst_set, via_set):
        """Every path from src to any block in dst_set passes through some block in via_set
        (src itself counts if in via_set)."""
        if src in via_set:
            return True
        r = self.reach(src, removed=set(via_set))
        return not (r & set(dst_set))
