"""Must-facts: branch conditions that hold on every path to a program point.

For a block P and each SwitchInt block D strictly dominating P, let S be the set of D's
successors from which P is reachable with D removed. If S is a proper subset of D's
successors, the disjunction of the edge conditions of S holds on every path to P.

Normalised atoms (all hashable tuples):
  ('ok', X)            X (a Result/Option term) is Ok/Some
  ('notok', X)         X is Err/None
  ('variant', X, frozenset(names), complement)
  ('cmp', op, a, b)    op in Eq Ne Lt Le Gt Ge (operands are terms)
  ('true', t) / ('false', t)   boolean-valued term (e.g. a call) is true/false
  ('in', t, frozenset(values), complement)   integer-valued term is (not) in the set
"""
from .cfg import CFG
from .terms import Sym, show

NEG = {"Eq": "Ne", "Ne": "Eq", "Lt": "Ge", "Ge": "Lt", "Le": "Gt", "Gt": "Le"}

STD_ENUMS = {
    "Result": {0: "Ok", 1: "Err"},
    "Option": {0: "None", 1: "Some"},
    "ControlFlow": {0: "Continue", 1: "Break"},
}


def place_type(body, pl):
    """Best-effort type string of a place."""
    ps = pl["p"]
    ty = body["locals"][pl["l"]]["ty"]
    for pr in ps:
        if pr["k"] == "field":
            ty = pr.get("ty")
        elif pr["k"] == "deref":
            if ty is not None:
                ty = _peel_ref(ty)
        elif pr["k"] == "down":
            pass
        else:
            ty = None
    return ty


def _peel_ref(ty):
    ty = ty.strip()
    for pre in ("&mut ", "&", "*const ", "*mut "):
        if ty.startswith(pre):
            rest = ty[len(pre):]
            # strip lifetime
            if rest.startswith("'"):
                rest = rest.split(" ", 1)[1] if " " in rest else rest
                if rest.startswith("mut "):
                    rest = rest[4:]
            return rest
    return ty


def enum_base(ty):
    if ty is None:
        return None
    t = ty
    while True:
        n = _peel_ref(t)
        if n == t:
            break
        t = n
    head = t.split("<", 1)[0]
    return head


class Must:
    def __init__(self, fn, fb=None, sym=None, cfg=None):
        self.fn = fn
        self.fb = fb
        self.sym = sym or Sym(fn, fb)
        self.cfg = cfg or CFG(fn)
        self._memo = {}
        self._rmemo = {}

    def _reach(self, b):
        r = self._rmemo.get(b)
        if r is None:
            r = self._rmemo[b] = self.cfg.reach(b)
        return r

    # ---------------------------------------------------------------- raw edge facts
    def switch_fact(self, d, succs):
        """Atom(s) holding when control leaves switch block d through one of `succs`."""
        t = self.cfg.blocks[d]["term"]
        vals, tgts, other = t["vals"], t["tgts"], t["otherwise"]
        listed = {}
        for v, tg in zip(vals, tgts):
            listed.setdefault(tg, set()).add(v)
        allvals = set(vals)
        if other in succs:
            # complement of the values that go to successors outside `succs`
            excl = set()
            for tg, vs in listed.items():
                if tg not in succs:
                    excl |= vs
            return ("in", None, frozenset(excl), True, t)
        inc = set()
        for tg in succs:
            inc |= listed.get(tg, set())
        _ = allvals
        return ("in", None, frozenset(inc), False, t)

    def raw_at(self, p):
        """List of (d, values, complement) for dominating switches constraining p."""
        if p in self._memo:
            return self._memo[p]
        out = []
        dom = self.cfg.dominators()
        if p not in dom:
            self._memo[p] = out
            return out
        for d in sorted(dom[p]):
            if d == p:
                continue
            t = self.cfg.blocks[d]["term"]
            if t["k"] != "switch":
                continue
            ss = self.cfg.succ[d]
            ok = [s for s in ss if s == p or p in self.cfg.reach(s, removed={d})]
            if not ok or len(ok) == len(ss):
                continue
            f = self.switch_fact(d, set(ok))
            out.append((d, f[2], f[3]))
        self._memo[p] = out
        return out

    # ---------------------------------------------------------------- normalisation
    def atoms_at(self, p, _seen=None):
        out = []
        for d, vals, comp in self.raw_at(p):
            out.extend(self.normalise(d, vals, comp))
        seen = _seen if _seen is not None else {p}
        out = self._expand_phi(out, seen, at=p)
        for _round in range(3):
            extra = []
            for a in out:
                for b in canon_all(a):
                    if b not in out and b not in extra:
                        extra.append(b)
            if not extra:
                break
            # a restated atom may itself be about a merged value (`ensure(a && b, e)?`: the flag is a merge of `b` and false)
            more = self._expand_phi(extra, seen, at=p)
            out = out + [b for b in more if b not in out]
        return out

    def _expand_phi(self, atoms, seen, at=None, def_facts=True):
        """An atom about a value merged from several definitions (`phi`) that only ONE of the definitions can satisfy
        implies everything that held where that definition was made (e.g. `check()?` after the helper `check` was
        inlined: the result is Ok only when it was assigned in the block guarded by the helper's test)."""
        out = list(atoms)
        for a in atoms:
            if a[0] not in ("ok", "notok", "true", "false", "variant") or not isinstance(a[1], tuple) or a[1][0] != "phi":
                continue
            phi = a[1]
            if len(phi) < 4 or len(phi[2]) != len(phi[3]):
                continue
            verdicts = [_alt_verdict(alt, a) for alt in phi[2]]
            if at is not None:
                # a definition whose block cannot reach this point (e.g. after jump threading sent it elsewhere) is not
                # a candidate here
                for j, db_ in enumerate(phi[3]):
                    if isinstance(db_, int) and db_ != at and at not in self._reach(db_):
                        verdicts[j] = False
            if verdicts.count(True) + verdicts.count(None) != 1 or verdicts.count(None) > 1:
                continue
            if None in verdicts and True in verdicts:
                continue
            i = verdicts.index(True) if True in verdicts else verdicts.index(None)
            if verdicts[i] is None and len(verdicts) < 2:
                continue
            db = phi[3][i]
            if db is None or db in seen or not isinstance(db, int):
                continue
            seen.add(db)
            alt = phi[2][i]
            if a[0] in ("true", "false"):
                spec = bool_atoms(alt, a[0] == "true")
            elif a[0] in ("ok", "notok"):
                spec = [(a[0], alt)]
            else:
                spec = [("variant", alt, a[2], a[3])]
            for b in spec + (self.atoms_at(db, seen) if def_facts else []):
                if b not in out:
                    out.append(b)
        return out

    def edge_atoms(self, d, s):
        """Atoms that hold on the edge d -> s (d a switch block)."""
        t = self.cfg.blocks[d]["term"]
        if t["k"] != "switch":
            return []
        f = self.switch_fact(d, {s})
        base = self.normalise(d, f[2], f[3])
        # plus the edge's own atoms specialised to the one definition that can be tested here
        return self._expand_phi(base, {d}, at=d, def_facts=False)

    def normalise(self, d, vals, comp):
        t = self.cfg.blocks[d]["term"]
        op = t["op"]
        dty = t.get("dty")
        term = self.sym.operand(op)
        return normalise_atom(self, term, dty, vals, comp, op)

    def discr_names(self, term_op, vals):
        """Map discriminant values to variant names using type info where possible."""
        return None


def canon_all(a):
    """Every restatement of atom `a` through the std view adapters (closed under repetition, `a` itself excluded)."""
    out = []
    work = [a]
    while work and len(out) < 12:
        x = work.pop()
        for b in (canon_okness(x), canon_arith(x)):
            if b is not None and b != a and b not in out:
                out.append(b)
                work.append(b)
        for b in canon_value_adapters(x):
            if b != a and b not in out:
                out.append(b)
                work.append(b)
    return out


def canon_value_adapters(a):
    """`o.ok_or(e)` / `o.ok_or_else(f)` is Ok exactly when `o` is Some; `c.then_some(v)` is Some exactly when `c` holds."""
    if a[0] not in ("ok", "notok") or not isinstance(a[1], tuple):
        return []
    t = a[1]
    while t[0] in ("ref", "deref"):
        t = t[1]
    if t[0] == "call" and len(t[2]) == 2 and t[1] in ("ok_or", "ok_or_else", "map_err", "map", "inspect", "inspect_err"):
        return [(a[0], t[2][0])]      # these keep the Ok/Some-ness of their receiver
    if t[0] == "call" and len(t[2]) == 2 and t[1] == "then_some":
        return [b for b in bool_atoms(t[2][0], a[0] == "ok") if b[0] != "contra"]
    return []


def canon_arith(a):
    """`a.checked_sub(b)` is Some exactly when a >= b (unsigned): the option test is also stated as a comparison."""
    if a[0] in ("ok", "notok") and isinstance(a[1], tuple) and a[1] and a[1][0] == "call" and a[1][1] == "checked_sub" and len(a[1][2]) == 2:
        x, y = a[1][2]
        return ("cmp", "Ge" if a[0] == "ok" else "Lt", x, y)
    return None


def canon_okness(a):
    """ok/notok atoms seen through the std view adapters: `r.ok()` / `r.as_ref()` / `o.as_mut()` / `r.err()` keep (or
    flip) the Ok/Some-ness of their receiver, so `ok(ok(as_ref(X)))` also says `ok(X)`."""
    if a[0] not in ("ok", "notok"):
        return None
    k, t = a[0], a[1]
    changed = False
    for _ in range(6):
        while t[0] in ("ref", "deref"):
            t = t[1]
        if t[0] == "call" and len(t[2]) == 1 and t[1] in ("ok", "as_ref", "as_mut", "as_deref", "as_deref_mut", "copied", "cloned"):
            t = t[2][0]
            changed = True
            continue
        if t[0] == "call" and len(t[2]) == 1 and t[1] == "err":
            t = t[2][0]
            k = "notok" if k == "ok" else "ok"
            changed = True
            continue
        break
    while t[0] in ("ref", "deref"):
        t = t[1]
    return (k, t) if changed else None


def _alt_verdict(alt, atom):
    """Can the definition `alt` of a merged value satisfy `atom`?  True / False / None (unknown)."""
    k = atom[0]
    if k in ("ok", "notok"):
        v = None
        if alt[0] == "agg" and alt[1].split("::")[-1] in ("Result", "Option"):
            v = alt[2] in ("Ok", "Some")
        elif alt[0] == "from_residual":
            v = False
        if v is None:
            return None
        return v == (k == "ok")
    if k in ("true", "false"):
        if alt[0] == "const" and isinstance(alt[1], int):
            return bool(alt[1]) == (k == "true")
        return None
    if k == "variant":
        if alt[0] == "agg":
            return (alt[2] in atom[2]) != atom[3]
        return None
    return None


def normalise_atom(m, term, dty, vals, comp, op=None):
    sym = m.sym
    # ---- discriminant tests
    if term[0] == "discr":
        x = term[1]
        names = None
        ety = None
        # find the enum type from the defining statement of the discriminant
        ety = _discr_type(m, op)
        base = enum_base(ety) if ety else None
        short = base.split("::")[-1] if base else None
        if short in STD_ENUMS:
            table = STD_ENUMS[short]
        elif base and m.fb is not None:
            table = None
            recs = m.fb.adt_by_path.get(base)
            if recs:
                table = {v["i"]: v["name"] for v in recs[0]["variants"]}
                # discriminant values, not indices, are switched on
                table = {v.get("discr", v["i"]): v["name"] for v in recs[0]["variants"]}
        else:
            table = None
        if table:
            allv = set(table)
            sel = (allv - set(vals)) if comp else (set(vals) & allv)
            names = frozenset(table[v] for v in sel)
            # `?`: branch(X) is Continue/Break
            if x[0] == "call" and x[1] == "branch" and len(x[2]) == 1:
                inner = x[2][0]
                if names == {"Continue"}:
                    return [("ok", inner)]
                if names == {"Break"}:
                    return [("notok", inner)]
            if short in ("Result", "Option"):
                if names in ({"Ok"}, {"Some"}):
                    return [("ok", x)]
                if names in ({"Err"}, {"None"}):
                    return [("notok", x)]
            return [("variant", x, names, False)]
        return [("variant", x, frozenset(vals), comp)]
    # ---- booleans
    if dty == "bool":
        truth = None
        if not comp and vals == frozenset([0]):
            truth = False
        elif comp and vals == frozenset([0]):
            truth = True
        elif not comp and vals == frozenset([1]):
            truth = True
        elif comp and vals == frozenset([1]):
            truth = False
        if truth is None:
            return []
        return bool_atoms(term, truth)
    # ---- integers: a test against a single constant is also stated as a comparison (so that `match x { 0 => .. }` and
    # `if x == 0` give the same fact)
    out = [("in", term, frozenset(vals), comp)]
    if len(vals) == 1:
        v = next(iter(vals))
        out.append(("cmp", "Ne" if comp else "Eq", term, ("const", v, dty or "usize")))
    return out


def bool_atoms(term, truth):
    if term[0] == "un" and term[1] == "Not":
        return bool_atoms(term[2], not truth)
    if term[0] == "bin" and term[1] in NEG:
        op = term[1] if truth else NEG[term[1]]
        return [("cmp", op, term[2], term[3])]
    if term[0] == "const" and isinstance(term[1], int):
        return [] if bool(term[1]) == truth else [("contra",)]
    if term[0] == "call":
        name = term[1]
        if name in ("is_some", "is_ok") and len(term[2]) == 1:
            return [("ok" if truth else "notok", _strip_ref(term[2][0]))]
        if name in ("is_none", "is_err") and len(term[2]) == 1:
            return [("notok" if truth else "ok", _strip_ref(term[2][0]))]
        if name in ("eq", "ne") and len(term[2]) == 2:
            a, b = _strip_ref(term[2][0]), _strip_ref(term[2][1])
            eq = (name == "eq") == truth
            return [("cmp", "Eq" if eq else "Ne", a, b)]
    return [("true" if truth else "false", term)]


def _strip_ref(t):
    while t[0] in ("ref",):
        t = t[1]
    return t


def _discr_type(m, op):
    """Type of the place whose discriminant feeds the switch operand `op`."""
    if op is None or op["k"] not in ("copy", "move") or op["pl"]["p"]:
        return None
    l = op["pl"]["l"]
    for d in m.sym.defs.get(l, []):
        if d[0] == "assign" and d[3]["k"] == "discr":
            return place_type(m.sym.body, d[3]["pl"])
    return None


def show_atom(a):
    k = a[0]
    if k in ("ok", "notok", "true", "false"):
        return "%s(%s)" % (k, show(a[1]))
    if k == "cmp":
        return "%s %s %s" % (show(a[2]), a[1], show(a[3]))
    if k == "variant":
        return "%s %s {%s}" % (show(a[1]), "not in" if a[3] else "in", ",".join(sorted(map(str, a[2]))))
    if k == "in":
        return "%s %s {%s}" % (show(a[1]), "not in" if a[3] else "in",
                               ",".join(hex(v) for v in sorted(a[2])))
    return repr(a)
