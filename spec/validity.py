"""Reference validity predicates per wire struct, written from the protocol rules stated in
property C20 / C05 (independent of the crate's validators). Language: see vlint/region.py."""
from . import wire

U32 = (1 << 32) - 1
U64 = (1 << 64) - 1


def rng(leaf, lo, hi):
    return ("range", leaf, lo, hi)


def nonzero(leaf):
    return ("not", ("range", leaf, 0, 0))


def mask0(leaf, m):
    return ("mask", leaf, m, 0)


def nowrap(a, b, w=64):
    return ("nowrap", tuple(sorted((a, b))), w)


def region_rules(prefix=""):
    p = prefix
    return ("and", nonzero(p + "memory_size"),
            nowrap(p + "guest_phys_addr", p + "memory_size"),
            nowrap(p + "user_addr", p + "memory_size"),
            nowrap(p + "mmap_offset", p + "memory_size"))


def header(codes):
    return ("and", ("inset", "request", frozenset(codes)), rng("size", 0, wire.MAX_MSG_SIZE),
            ("mask", "flags", wire.FLAG_VERSION_MASK, wire.FLAG_VERSION),
            mask0("flags", wire.FLAG_RESERVED))


def gpu_header(codes):
    # vhost-user-gpu: only the REPLY bit is defined; no size bound is stated for this channel
    return ("and", ("inset", "request", frozenset(codes)), mask0("flags", U32 & ~wire.GPU_HEADER_FLAGS["REPLY"]))


TRUE = ("true",)

# spec struct name -> reference predicate (TRUE = the protocol puts no constraint on the bytes)
VALID = {
    "u64": TRUE,
    "empty": TRUE,
    "vring_state": TRUE,
    "shmem_config": TRUE,
    "memory": ("and", rng("padding1", 0, 0), rng("num_regions", 1, wire.MAX_FDS)),
    "memory_region": region_rules(),
    "single_memory_region": region_rules("region."),
    "vring_addr": ("and", mask0("flags", U32 & ~wire.VRING_ADDR_FLAGS["VHOST_VRING_F_LOG"]),
                   mask0("descriptor", 0xF), mask0("available", 0x1), mask0("used", 0x3)),
    "config": ("and", rng("size", 1, U64), nowrap("offset", "size", 32),
               ("sumrange", ("offset", "size"), 0, wire.CONFIG_SPACE_END),
               mask0("flags", U32 & ~(wire.CONFIG_FLAGS["WRITABLE"] | wire.CONFIG_FLAGS["LIVE_MIGRATION"]))),
    "inflight": ("and", nonzero("num_queues"), nonzero("queue_size")),
    "log": ("and", nonzero("mmap_size"), nowrap("mmap_offset", "mmap_size")),
    "transfer_state": ("and", ("inset", "direction", frozenset(wire.TRANSFER_DIRECTION.values())),
                       ("inset", "phase", frozenset(wire.TRANSFER_PHASE.values()))),
    "shared": ("and", ("not", ("ext", "is_nil", "uuid")), ("not", ("ext", "is_max", "uuid"))),
    "mmap": ("and", nonzero("len"), nowrap("fd_offset", "len"), nowrap("shm_offset", "len"),
             mask0("flags", U64 & ~wire.MMAP_FLAGS["WRITABLE"])),
    # GPU payload structs carry no validity rules in the vhost-user-gpu specification
    "gpu_cursor_pos": TRUE, "gpu_cursor_update": TRUE, "gpu_scanout": TRUE, "gpu_update": TRUE,
    "gpu_dmabuf_scanout": TRUE, "gpu_dmabuf_scanout2": TRUE, "gpu_edid_request": TRUE,
    "virtio_gpu_resp_display_info": TRUE, "virtio_gpu_resp_edid": TRUE,
}

# xen builds: region descriptors additionally carry xen mmap flags which must decode and be valid
def xen_region(prefix=""):
    p = prefix
    return ("and", region_rules(p), ("ext", "from_bits<MmapXenFlags>", p + "xen_mmap_flags"),
            ("ext", "is_valid", "from_bits(" + p + "xen_mmap_flags)"))
