"""UAPI oracle for the kernel vhost / vDPA backends: per trait operation the ioctl *name* the
Linux UAPI defines for it, the C argument type and where each argument field comes from.
Request numbers, directions, sizes and struct offsets are NOT transcribed here: they are taken
from /usr/include/linux/vhost.h and vhost_types.h by clang at check time."""

# (impl selector, method) -> (ioctl name, wrapper kind, arg C type or None, {field: source})
# wrapper kinds: 'none' (_IO), 'ref' (_IOW), 'mut' (_IOR/_IOWR, kernel writes back), 'ptr'
OPS = {
    # blanket impl<T: VhostKernBackend> VhostBackend for T
    ("VhostBackend", "get_features"): ("VHOST_GET_FEATURES", "mut", "u64", None),
    ("VhostBackend", "set_features"): ("VHOST_SET_FEATURES", "ref", "u64", {"": "features"}),
    ("VhostBackend", "set_owner"): ("VHOST_SET_OWNER", "none", None, None),
    ("VhostBackend", "reset_owner"): ("VHOST_RESET_OWNER", "none", None, None),
    ("VhostBackend", "set_mem_table"): ("VHOST_SET_MEM_TABLE", "ptr", "vhost_memory", None),
    ("VhostBackend", "set_log_base"): ("VHOST_SET_LOG_BASE", "ref", "u64", {"": "base"}),
    ("VhostBackend", "set_log_fd"): ("VHOST_SET_LOG_FD", "ref", "i32", {"": "fd"}),
    ("VhostBackend", "set_vring_num"): ("VHOST_SET_VRING_NUM", "ref", "vhost_vring_state", {"index": "queue_index", "num": "num"}),
    ("VhostBackend", "set_vring_addr"): ("VHOST_SET_VRING_ADDR", "ref", "vhost_vring_addr", None),
    ("VhostBackend", "set_vring_base"): ("VHOST_SET_VRING_BASE", "ref", "vhost_vring_state", {"index": "queue_index", "num": "base"}),
    ("VhostBackend", "get_vring_base"): ("VHOST_GET_VRING_BASE", "mut", "vhost_vring_state", {"index": "queue_index"}),
    ("VhostBackend", "set_vring_call"): ("VHOST_SET_VRING_CALL", "ref", "vhost_vring_file", {"index": "queue_index", "fd": "fd"}),
    ("VhostBackend", "set_vring_kick"): ("VHOST_SET_VRING_KICK", "ref", "vhost_vring_file", {"index": "queue_index", "fd": "fd"}),
    ("VhostBackend", "set_vring_err"): ("VHOST_SET_VRING_ERR", "ref", "vhost_vring_file", {"index": "queue_index", "fd": "fd"}),
    # VhostKernFeatures default methods
    ("VhostKernFeatures", "get_backend_features"): ("VHOST_GET_BACKEND_FEATURES", "mut", "u64", None),
    ("VhostKernFeatures", "set_backend_features"): ("VHOST_SET_BACKEND_FEATURES", "ref", "u64", {"": "features"}),
    # vDPA
    ("VhostKernVdpa", "set_vring_addr"): ("VHOST_SET_VRING_ADDR", "ref", "vhost_vring_addr",
                                          {"index": "queue_index", "flags": "flags", "desc_user_addr": "desc_table_addr",
                                           "used_user_addr": "used_ring_addr", "avail_user_addr": "avail_ring_addr",
                                           "log_guest_addr": "get_log_addr"}),
    ("VhostVdpa", "get_device_id"): ("VHOST_VDPA_GET_DEVICE_ID", "mut", "u32", None),
    ("VhostVdpa", "get_status"): ("VHOST_VDPA_GET_STATUS", "mut", "u8", None),
    ("VhostVdpa", "set_status"): ("VHOST_VDPA_SET_STATUS", "ref", "u8", {"": "status"}),
    ("VhostVdpa", "get_config"): ("VHOST_VDPA_GET_CONFIG", "ptr", "vhost_vdpa_config", None),
    ("VhostVdpa", "set_config"): ("VHOST_VDPA_SET_CONFIG", "ptr", "vhost_vdpa_config", None),
    ("VhostVdpa", "set_vring_enable"): ("VHOST_VDPA_SET_VRING_ENABLE", "ref", "vhost_vring_state", {"index": "queue_index", "num": "enabled"}),
    ("VhostVdpa", "get_vring_num"): ("VHOST_VDPA_GET_VRING_NUM", "mut", "u16", None),
    ("VhostVdpa", "set_config_call"): ("VHOST_VDPA_SET_CONFIG_CALL", "ref", "i32", {"": "fd"}),
    ("VhostVdpa", "get_iova_range"): ("VHOST_VDPA_GET_IOVA_RANGE", "mut", "vhost_vdpa_iova_range", None),
    ("VhostVdpa", "get_config_size"): ("VHOST_VDPA_GET_CONFIG_SIZE", "mut", "u32", None),
    ("VhostVdpa", "get_vqs_count"): ("VHOST_VDPA_GET_VQS_COUNT", "mut", "u32", None),
    ("VhostVdpa", "get_group_num"): ("VHOST_VDPA_GET_GROUP_NUM", "mut", "u32", None),
    ("VhostVdpa", "get_as_num"): ("VHOST_VDPA_GET_AS_NUM", "mut", "u32", None),
    ("VhostVdpa", "get_vring_group"): ("VHOST_VDPA_GET_VRING_GROUP", "mut", "vhost_vring_state", {"index": "queue_index"}),
    ("VhostVdpa", "set_group_asid"): ("VHOST_VDPA_SET_GROUP_ASID", "ref", "vhost_vring_state", {"index": "group_index", "num": "asid"}),
    ("VhostVdpa", "suspend"): ("VHOST_VDPA_SUSPEND", "none", None, None),
    # net / vsock
    ("VhostNet", "set_backend"): ("VHOST_NET_SET_BACKEND", "ref", "vhost_vring_file", {"index": "queue_index", "fd": "fd"}),
    ("VhostVsock", "set_guest_cid"): ("VHOST_VSOCK_SET_GUEST_CID", "ref", "u64", {"": "cid"}),
    ("Vsock", "set_running"): ("VHOST_VSOCK_SET_RUNNING", "ref", "i32", {"": "running"}),
}

# operations whose result must come from the struct/variable the kernel wrote
RETURNS = {
    ("VhostBackend", "get_vring_base"): "num",
    ("VhostVdpa", "get_vring_group"): "num",
}

# C structs of <linux/vhost_types.h> mirrored by the binding
C_STRUCTS = ["vhost_vring_state", "vhost_vring_file", "vhost_vring_addr", "vhost_iotlb_msg",
             "vhost_msg", "vhost_msg_v2", "vhost_memory_region", "vhost_memory", "vhost_scsi_target",
             "vhost_vdpa_config", "vhost_vdpa_iova_range"]
# binding field name -> C member designator where they differ
C_MEMBER = {
    ("vhost_msg", "__bindgen_anon_1"): "iotlb",
    ("vhost_msg_v2", "__bindgen_anon_1"): "iotlb",
    ("vhost_iotlb_msg", "type_"): "type",
    ("vhost_msg", "type_"): "type",
    ("vhost_msg_v2", "type_"): "type",
}
# `reserved` of vhost_msg_v2 was renamed `asid` in Linux 5.19 (same position; pinned by type@0 and iotlb@8)
SKIP_FIELDS = {("vhost_memory", "__force_alignment"), ("vhost_msg_v2", "reserved")}

# constants of the binding that have a macro of the same name in the header
C_CONSTS = ["VHOST_VIRTIO", "VHOST_ACCESS_RO", "VHOST_ACCESS_WO", "VHOST_ACCESS_RW", "VHOST_IOTLB_MISS",
            "VHOST_IOTLB_UPDATE", "VHOST_IOTLB_INVALIDATE", "VHOST_IOTLB_ACCESS_FAIL", "VHOST_IOTLB_BATCH_BEGIN",
            "VHOST_IOTLB_BATCH_END", "VHOST_IOTLB_MSG", "VHOST_IOTLB_MSG_V2", "VHOST_VRING_F_LOG",
            "VHOST_F_LOG_ALL", "VHOST_NET_F_VIRTIO_NET_HDR", "VHOST_BACKEND_F_IOTLB_MSG_V2",
            "VHOST_BACKEND_F_IOTLB_BATCH", "VHOST_BACKEND_F_IOTLB_ASID", "VHOST_BACKEND_F_SUSPEND",
            "VHOST_VRING_LITTLE_ENDIAN", "VHOST_VRING_BIG_ENDIAN", "VHOST_SCSI_ABI_VERSION"]

# Rust enums whose discriminants are the UAPI's codes
ENUMS = {
    "VhostAccess": {"ReadOnly": "VHOST_ACCESS_RO", "WriteOnly": "VHOST_ACCESS_WO", "ReadWrite": "VHOST_ACCESS_RW"},
    "VhostIotlbType": {"Miss": "VHOST_IOTLB_MISS", "Update": "VHOST_IOTLB_UPDATE", "Invalidate": "VHOST_IOTLB_INVALIDATE",
                       "AccessFail": "VHOST_IOTLB_ACCESS_FAIL", "BatchBegin": "VHOST_IOTLB_BATCH_BEGIN",
                       "BatchEnd": "VHOST_IOTLB_BATCH_END"},
}
