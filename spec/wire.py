"""Wire oracle: an independent transcription of the vhost-user and vhost-user-gpu specifications
(QEMU docs/interop/vhost-user.rst, vhost-user-gpu.rst; struct padding per QEMU's
hw/virtio/vhost-user.c and libvhost-user.h where the text is silent). Never generated from
the crate. All integers native-endian.

Names on the left are the *specification's* names; `RUST_NAME` maps a spec struct to the
crate's type (the only crate-specific knowledge here: which Rust type claims to be which spec
struct).
"""

# ------------------------------------------------------------------ header
HEADER = [("request", 0, 4), ("flags", 4, 4), ("size", 8, 4)]
HEADER_SIZE = 12
FLAG_VERSION_MASK = 0x3
FLAG_VERSION = 0x1
FLAG_REPLY = 0x4
FLAG_NEED_REPLY = 0x8
FLAG_RESERVED = 0xFFFFFFF0
MAX_MSG_SIZE = 0x1000
MAX_FDS = 32
CONFIG_SPACE_END = 0x1000
MAX_VRINGS = 0x8000

# ------------------------------------------------------------------ request codes
FRONTEND_REQ = {
    "GET_FEATURES": 1, "SET_FEATURES": 2, "SET_OWNER": 3, "RESET_OWNER": 4, "SET_MEM_TABLE": 5,
    "SET_LOG_BASE": 6, "SET_LOG_FD": 7, "SET_VRING_NUM": 8, "SET_VRING_ADDR": 9,
    "SET_VRING_BASE": 10, "GET_VRING_BASE": 11, "SET_VRING_KICK": 12, "SET_VRING_CALL": 13,
    "SET_VRING_ERR": 14, "GET_PROTOCOL_FEATURES": 15, "SET_PROTOCOL_FEATURES": 16,
    "GET_QUEUE_NUM": 17, "SET_VRING_ENABLE": 18, "SEND_RARP": 19, "NET_SET_MTU": 20,
    "SET_BACKEND_REQ_FD": 21, "IOTLB_MSG": 22, "SET_VRING_ENDIAN": 23, "GET_CONFIG": 24,
    "SET_CONFIG": 25, "CREATE_CRYPTO_SESSION": 26, "CLOSE_CRYPTO_SESSION": 27,
    "POSTCOPY_ADVISE": 28, "POSTCOPY_LISTEN": 29, "POSTCOPY_END": 30, "GET_INFLIGHT_FD": 31,
    "SET_INFLIGHT_FD": 32, "GPU_SET_SOCKET": 33, "RESET_DEVICE": 34, "VRING_KICK": 35,
    "GET_MAX_MEM_SLOTS": 36, "ADD_MEM_REG": 37, "REM_MEM_REG": 38, "SET_STATUS": 39,
    "GET_STATUS": 40, "GET_SHARED_OBJECT": 41, "SET_DEVICE_STATE_FD": 42,
    "CHECK_DEVICE_STATE": 43, "GET_SHMEM_CONFIG": 44,
}
BACKEND_REQ = {
    "IOTLB_MSG": 1, "CONFIG_CHANGE_MSG": 2, "VRING_HOST_NOTIFIER_MSG": 3, "VRING_CALL": 4,
    "VRING_ERR": 5, "SHARED_OBJECT_ADD": 6, "SHARED_OBJECT_REMOVE": 7, "SHARED_OBJECT_LOOKUP": 8,
    "SHMEM_MAP": 9, "SHMEM_UNMAP": 10,
}
GPU_REQ = {
    "GET_PROTOCOL_FEATURES": 1, "SET_PROTOCOL_FEATURES": 2, "GET_DISPLAY_INFO": 3,
    "CURSOR_POS": 4, "CURSOR_POS_HIDE": 5, "CURSOR_UPDATE": 6, "SCANOUT": 7, "UPDATE": 8,
    "DMABUF_SCANOUT": 9, "DMABUF_UPDATE": 10, "GET_EDID": 11, "DMABUF_SCANOUT2": 12,
}
TRANSFER_DIRECTION = {"SAVE": 0, "LOAD": 1}
TRANSFER_PHASE = {"STOPPED": 0}

# ------------------------------------------------------------------ feature bits
VIRTIO_FEATURES = {"LOG_ALL": 1 << 26, "PROTOCOL_FEATURES": 1 << 30}
PROTOCOL_FEATURES = {
    "MQ": 0, "LOG_SHMFD": 1, "RARP": 2, "REPLY_ACK": 3, "MTU": 4, "BACKEND_REQ": 5,
    "CROSS_ENDIAN": 6, "CRYPTO_SESSION": 7, "PAGEFAULT": 8, "CONFIG": 9, "BACKEND_SEND_FD": 10,
    "HOST_NOTIFIER": 11, "INFLIGHT_SHMFD": 12, "RESET_DEVICE": 13, "INBAND_NOTIFICATIONS": 14,
    "CONFIGURE_MEM_SLOTS": 15, "STATUS": 16, "XEN_MMAP": 17, "SHARED_OBJECT": 18,
    "DEVICE_STATE": 19, "GET_VRING_BASE_INFLIGHT": 20, "SHMEM": 21,
}
PROTOCOL_FEATURES = {k: 1 << v for k, v in PROTOCOL_FEATURES.items()}
HEADER_FLAGS = {"VERSION": 0x3, "REPLY": 0x4, "NEED_REPLY": 0x8, "ALL_FLAGS": 0xC,
                "RESERVED_BITS": 0xFFFFFFF0}
GPU_HEADER_FLAGS = {"REPLY": 0x4}
VRING_ADDR_FLAGS = {"VHOST_VRING_F_LOG": 0x1}
CONFIG_FLAGS = {"WRITABLE": 0x1, "LIVE_MIGRATION": 0x2}
MMAP_FLAGS = {"WRITABLE": 0x1}
VIRTIO_RING_F_EVENT_IDX = 29

# ------------------------------------------------------------------ payload layouts
# struct -> (size, [(field, offset, width)])
STRUCTS = {
    "u64": (8, [("value", 0, 8)]),
    "vring_state": (8, [("index", 0, 4), ("num", 4, 4)]),
    "vring_addr": (40, [("index", 0, 4), ("flags", 4, 4), ("descriptor", 8, 8), ("used", 16, 8),
                        ("available", 24, 8), ("log", 32, 8)]),
    "memory": (8, [("num_regions", 0, 4), ("padding1", 4, 4)]),
    "memory_region": (32, [("guest_phys_addr", 0, 8), ("memory_size", 8, 8), ("user_addr", 16, 8),
                           ("mmap_offset", 24, 8)]),
    "single_memory_region": (40, [("padding", 0, 8), ("region", 8, 32)]),
    "config": (12, [("offset", 0, 4), ("size", 4, 4), ("flags", 8, 4)]),
    # QEMU's VhostUserInflight is not packed: 20 bytes of fields + 4 tail padding
    "inflight": (24, [("mmap_size", 0, 8), ("mmap_offset", 8, 8), ("num_queues", 16, 2),
                      ("queue_size", 18, 2)]),
    "log": (16, [("mmap_size", 0, 8), ("mmap_offset", 8, 8)]),
    "shared": (16, [("uuid", 0, 16)]),
    "transfer_state": (8, [("direction", 0, 4), ("phase", 4, 4)]),
    "mmap": (40, [("shmid", 0, 1), ("padding", 1, 7), ("fd_offset", 8, 8), ("shm_offset", 16, 8),
                  ("len", 24, 8), ("flags", 32, 8)]),
    "shmem_config": (2056, [("nregions", 0, 4), ("padding", 4, 4), ("memory_sizes", 8, 2048)]),
    "empty": (0, []),
    # GPU
    "gpu_cursor_pos": (12, [("scanout_id", 0, 4), ("x", 4, 4), ("y", 8, 4)]),
    "gpu_cursor_update": (20, [("pos", 0, 12), ("hot_x", 12, 4), ("hot_y", 16, 4)]),
    "gpu_scanout": (12, [("scanout_id", 0, 4), ("width", 4, 4), ("height", 8, 4)]),
    "gpu_update": (20, [("scanout_id", 0, 4), ("x", 4, 4), ("y", 8, 4), ("width", 12, 4),
                        ("height", 16, 4)]),
    "gpu_dmabuf_scanout": (40, [("scanout_id", 0, 4), ("x", 4, 4), ("y", 8, 4), ("width", 12, 4),
                                ("height", 16, 4), ("fd_width", 20, 4), ("fd_height", 24, 4),
                                ("fd_stride", 28, 4), ("fd_flags", 32, 4), ("fd_drm_fourcc", 36, 4)]),
    "gpu_dmabuf_scanout2": (48, [("dmabuf_scanout", 0, 40), ("modifier", 40, 8)]),
    "gpu_edid_request": (4, [("scanout_id", 0, 4)]),
    "virtio_gpu_ctrl_hdr": (24, [("type_", 0, 4), ("flags", 4, 4), ("fence_id", 8, 8), ("ctx_id", 16, 4),
                                 ("ring_idx", 20, 1), ("padding", 21, 3)]),
    "virtio_gpu_rect": (16, [("x", 0, 4), ("y", 4, 4), ("width", 8, 4), ("height", 12, 4)]),
    "virtio_gpu_display_one": (24, [("r", 0, 16), ("enabled", 16, 4), ("flags", 20, 4)]),
    "virtio_gpu_resp_display_info": (408, [("hdr", 0, 24), ("pmodes", 24, 384)]),
    "virtio_gpu_resp_edid": (1056, [("hdr", 0, 24), ("size", 24, 4), ("padding", 28, 4), ("edid", 32, 1024)]),
}

RUST_NAME = {
    "u64": "VhostUserU64", "vring_state": "VhostUserVringState", "vring_addr": "VhostUserVringAddr",
    "memory": "VhostUserMemory", "memory_region": "VhostUserMemoryRegion",
    "single_memory_region": "VhostUserSingleMemoryRegion", "config": "VhostUserConfig",
    "inflight": "VhostUserInflight", "log": "VhostUserLog", "shared": "VhostUserSharedMsg",
    "transfer_state": "VhostUserTransferDeviceState", "mmap": "VhostUserMMap",
    "shmem_config": "VhostUserShMemConfig", "empty": "VhostUserEmpty",
    "gpu_cursor_pos": "VhostUserGpuCursorPos", "gpu_cursor_update": "VhostUserGpuCursorUpdate",
    "gpu_scanout": "VhostUserGpuScanout", "gpu_update": "VhostUserGpuUpdate",
    "gpu_dmabuf_scanout": "VhostUserGpuDMABUFScanout",
    "gpu_dmabuf_scanout2": "VhostUserGpuDMABUFScanout2",
    "gpu_edid_request": "VhostUserGpuEdidRequest", "virtio_gpu_ctrl_hdr": "VirtioGpuCtrlHdr",
    "virtio_gpu_rect": "VirtioGpuRect", "virtio_gpu_display_one": "VirtioGpuDisplayOne",
    "virtio_gpu_resp_display_info": "VirtioGpuRespDisplayInfo",
    "virtio_gpu_resp_edid": "VirtioGpuRespGetEdid",
}
SPEC_NAME = {v: k for k, v in RUST_NAME.items()}

# xen builds extend the region descriptor with two u32 (xen_mmap_flags, xen_mmap_data)
XEN_STRUCTS = {
    "memory_region": (40, STRUCTS["memory_region"][1] + [("xen_mmap_flags", 32, 4), ("xen_mmap_data", 36, 4)]),
    "single_memory_region": (48, [("padding", 0, 8), ("region", 8, 40)]),
}

# ------------------------------------------------------------------ per-request table
# reply kinds: 'ack' (no defined reply; ack-able under REPLY_ACK & NEED_REPLY),
#              ('reply', struct)  typed reply, ('reply+fd', struct) typed reply carrying one fd,
#              'none' (never answered)
# fds: 0, 1, 'n' (one per region), 'opt' (1 iff bit 8 of the u64 clear)
# gate: protocol feature name, or ('virtio', name, 'offered'|'acked'), or None
# impl: F = frontend method, B = backend arm
FRONTEND_TABLE = {
    "GET_FEATURES":          dict(body=None, payload=False, fds=0, reply=("reply", "u64"), gate=None, impl="FB", handler="get_features", fe="get_features"),
    "SET_FEATURES":          dict(body="u64", payload=False, fds=0, reply="ack", gate=None, impl="FB", handler="set_features", fe="set_features"),
    "SET_OWNER":             dict(body=None, payload=False, fds=0, reply="ack", gate=None, impl="FB", handler="set_owner", fe="set_owner"),
    "RESET_OWNER":           dict(body=None, payload=False, fds=0, reply="ack", gate=None, impl="FB", handler="reset_owner", fe="reset_owner"),
    "SET_MEM_TABLE":         dict(body="memory", payload=True, fds="n", reply="ack", gate=None, impl="FB", handler="set_mem_table", fe="set_mem_table"),
    "SET_LOG_BASE":          dict(body="log", payload=False, fds=1, reply=("reply", "log"), gate="LOG_SHMFD", impl="FB", handler="set_log_base", fe="set_log_base"),
    "SET_LOG_FD":            dict(body=None, payload=False, fds=1, reply="ack", gate=None, impl="F", handler=None, fe="set_log_fd"),
    "SET_VRING_NUM":         dict(body="vring_state", payload=False, fds=0, reply="ack", gate=None, impl="FB", handler="set_vring_num", fe="set_vring_num"),
    "SET_VRING_ADDR":        dict(body="vring_addr", payload=False, fds=0, reply="ack", gate=None, impl="FB", handler="set_vring_addr", fe="set_vring_addr"),
    "SET_VRING_BASE":        dict(body="vring_state", payload=False, fds=0, reply="ack", gate=None, impl="FB", handler="set_vring_base", fe="set_vring_base"),
    "GET_VRING_BASE":        dict(body="vring_state", payload=False, fds=0, reply=("reply", "vring_state"), gate=None, impl="FB", handler="get_vring_base", fe="get_vring_base"),
    "SET_VRING_KICK":        dict(body="u64", payload=False, fds="opt", reply="ack", gate=None, impl="FB", handler="set_vring_kick", fe="set_vring_kick"),
    "SET_VRING_CALL":        dict(body="u64", payload=False, fds="opt", reply="ack", gate=None, impl="FB", handler="set_vring_call", fe="set_vring_call"),
    "SET_VRING_ERR":         dict(body="u64", payload=False, fds="opt", reply="ack", gate=None, impl="FB", handler="set_vring_err", fe="set_vring_err"),
    "GET_PROTOCOL_FEATURES": dict(body=None, payload=False, fds=0, reply=("reply", "u64"), gate=("virtio", "PROTOCOL_FEATURES", "offered", "F"), impl="FB", handler="get_protocol_features", fe="get_protocol_features"),
    "SET_PROTOCOL_FEATURES": dict(body="u64", payload=False, fds=0, reply="ack", gate=("virtio", "PROTOCOL_FEATURES", "offered", "F"), impl="FB", handler="set_protocol_features", fe="set_protocol_features"),
    "GET_QUEUE_NUM":         dict(body=None, payload=False, fds=0, reply=("reply", "u64"), gate="MQ", impl="FB", handler="get_queue_num", fe="get_queue_num"),
    "SET_VRING_ENABLE":      dict(body="vring_state", payload=False, fds=0, reply="ack", gate=("virtio", "PROTOCOL_FEATURES", "acked", "FB"), impl="FB", handler="set_vring_enable", fe="set_vring_enable"),
    "SET_BACKEND_REQ_FD":    dict(body=None, payload=False, fds=1, reply="ack", gate="BACKEND_REQ", impl="FB", handler="set_backend_req_fd", fe="set_backend_request_fd"),
    "GET_CONFIG":            dict(body="config", payload=True, fds=0, reply=("reply", "config"), gate="CONFIG", impl="FB", handler="get_config", fe="get_config"),
    "SET_CONFIG":            dict(body="config", payload=True, fds=0, reply="ack", gate="CONFIG", impl="FB", handler="set_config", fe="set_config"),
    "POSTCOPY_ADVISE":       dict(body=None, payload=False, fds=0, reply=("reply+fd", "empty"), gate="PAGEFAULT", impl="FB", handler="postcopy_advice", fe="postcopy_advise", feature="postcopy"),
    "POSTCOPY_LISTEN":       dict(body=None, payload=False, fds=0, reply="ack", gate="PAGEFAULT", impl="FB", handler="postcopy_listen", fe="postcopy_listen", feature="postcopy"),
    "POSTCOPY_END":          dict(body=None, payload=False, fds=0, reply="ack", gate="PAGEFAULT", impl="FB", handler="postcopy_end", fe="postcopy_end", feature="postcopy"),
    "GET_INFLIGHT_FD":       dict(body="inflight", payload=False, fds=0, reply=("reply+fd", "inflight"), gate="INFLIGHT_SHMFD", impl="FB", handler="get_inflight_fd", fe="get_inflight_fd"),
    "SET_INFLIGHT_FD":       dict(body="inflight", payload=False, fds=1, reply="ack", gate="INFLIGHT_SHMFD", impl="FB", handler="set_inflight_fd", fe="set_inflight_fd"),
    "GPU_SET_SOCKET":        dict(body=None, payload=False, fds=1, reply="ack", gate=None, impl="B", handler="set_gpu_socket", fe=None),
    "RESET_DEVICE":          dict(body=None, payload=False, fds=0, reply="ack", gate="RESET_DEVICE", impl="FB", handler="reset_device", fe="reset_device"),
    "GET_MAX_MEM_SLOTS":     dict(body=None, payload=False, fds=0, reply=("reply", "u64"), gate="CONFIGURE_MEM_SLOTS", impl="FB", handler="get_max_mem_slots", fe="get_max_mem_slots"),
    "ADD_MEM_REG":           dict(body="single_memory_region", payload=False, fds=1, reply="ack", gate="CONFIGURE_MEM_SLOTS", impl="FB", handler="add_mem_region", fe="add_mem_region"),
    "REM_MEM_REG":           dict(body="single_memory_region", payload=False, fds=0, reply="ack", gate="CONFIGURE_MEM_SLOTS", impl="FB", handler="remove_mem_region", fe="remove_mem_region"),
    "GET_SHARED_OBJECT":     dict(body="shared", payload=False, fds=0, reply=("reply+fd", "empty"), gate="SHARED_OBJECT", impl="FB", handler="get_shared_object", fe="get_shared_object"),
    "SET_DEVICE_STATE_FD":   dict(body="transfer_state", payload=False, fds=1, reply=("reply+optfd", "u64"), gate=("proto", "DEVICE_STATE", "F"), impl="FB", handler="set_device_state_fd", fe="set_device_state_fd"),
    "CHECK_DEVICE_STATE":    dict(body=None, payload=False, fds=0, reply=("reply", "u64"), gate=("proto", "DEVICE_STATE", "F"), impl="FB", handler="check_device_state", fe="check_device_state"),
    "GET_SHMEM_CONFIG":      dict(body=None, payload=False, fds=0, reply=("reply", "shmem_config"), gate="SHMEM", impl="FB", handler="get_shmem_config", fe="get_shmem_config"),
}
NOT_IMPLEMENTED = ["SEND_RARP", "NET_SET_MTU", "IOTLB_MSG", "SET_VRING_ENDIAN", "CREATE_CRYPTO_SESSION",
                   "CLOSE_CRYPTO_SESSION", "VRING_KICK", "SET_STATUS", "GET_STATUS"]

# requests that may legitimately carry descriptors (everything else must be rejected when
# descriptors are attached)
FD_CARRYING = {k for k, v in FRONTEND_TABLE.items() if v["fds"] != 0}

BACKEND_TABLE = {
    "CONFIG_CHANGE_MSG":    dict(body=None, fds=0, gate=None, handler="handle_config_change", proxy=None),
    "SHARED_OBJECT_ADD":    dict(body="shared", fds=0, gate="SHARED_OBJECT", handler="shared_object_add", proxy="shared_object_add"),
    "SHARED_OBJECT_REMOVE": dict(body="shared", fds=0, gate="SHARED_OBJECT", handler="shared_object_remove", proxy="shared_object_remove"),
    "SHARED_OBJECT_LOOKUP": dict(body="shared", fds=1, gate="SHARED_OBJECT", handler="shared_object_lookup", proxy="shared_object_lookup"),
    "SHMEM_MAP":            dict(body="mmap", fds=1, gate="SHMEM", handler="shmem_map", proxy="shmem_map"),
    "SHMEM_UNMAP":          dict(body="mmap", fds=0, gate="SHMEM", handler="shmem_unmap", proxy="shmem_unmap"),
}
BACKEND_FD_CARRYING = {k for k, v in BACKEND_TABLE.items() if v["fds"]}

GPU_TABLE = {
    "GET_PROTOCOL_FEATURES": dict(body=None, payload=False, fds=0, reply="u64", method="get_protocol_features"),
    "SET_PROTOCOL_FEATURES": dict(body="u64", payload=False, fds=0, reply=None, method="set_protocol_features"),
    "GET_DISPLAY_INFO":      dict(body=None, payload=False, fds=0, reply="virtio_gpu_resp_display_info", method="get_display_info"),
    "CURSOR_POS":            dict(body="gpu_cursor_pos", payload=False, fds=0, reply=None, method="cursor_pos"),
    "CURSOR_POS_HIDE":       dict(body="gpu_cursor_pos", payload=False, fds=0, reply=None, method="cursor_pos_hide"),
    "CURSOR_UPDATE":         dict(body="gpu_cursor_update", payload=True, fds=0, reply=None, method="cursor_update"),
    "SCANOUT":               dict(body="gpu_scanout", payload=False, fds=0, reply=None, method="set_scanout"),
    "UPDATE":                dict(body="gpu_update", payload=True, fds=0, reply=None, method="update_scanout"),
    "DMABUF_SCANOUT":        dict(body="gpu_dmabuf_scanout", payload=False, fds="opt", reply=None, method="set_dmabuf_scanout"),
    "DMABUF_UPDATE":         dict(body="gpu_update", payload=False, fds=0, reply="empty", method="update_dmabuf_scanout"),
    "GET_EDID":              dict(body="gpu_edid_request", payload=False, fds=0, reply="virtio_gpu_resp_edid", method="get_edid"),
    "DMABUF_SCANOUT2":       dict(body="gpu_dmabuf_scanout2", payload=False, fds="opt", reply=None, method="set_dmabuf_scanout2"),
}

# in-band failure encodings
DEVICE_STATE_NO_FD = 0x100      # bit 8: no descriptor returned
DEVICE_STATE_ERR_MASK = 0xFF    # low byte non-zero: error

# errno classification required of a stream transport (C08/S4)
ERRNO_CLASS = {
    "EAGAIN": "SocketRetry", "EWOULDBLOCK": "SocketRetry", "EINTR": "SocketRetry",
    "ENOBUFS": "SocketRetry", "ENOMEM": "SocketRetry",
    "ECONNRESET": "SocketBroken", "EPIPE": "SocketBroken",
    "EACCES": "SocketConnect",
}
ERRNO_VALUES = {"EAGAIN": 11, "EWOULDBLOCK": 11, "EINTR": 4, "ENOBUFS": 105, "ENOMEM": 12,
                "ECONNRESET": 104, "EPIPE": 32, "EACCES": 13, "EINVAL": 22}
